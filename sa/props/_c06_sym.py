"""Symbolic expression-tree executor for small branch-only functions (no loops).

Values are *canonical terms* (nested tuples, hashable):

  ("p", name)                      initial value of a parameter
  ("k", const)                     Python literal
  ("f", dotted)                    resolved function / class / external symbol
  ("self",) / ("sattr", name)      the receiver and ``self.name``
  ("call", callee, pos, kw)        pos: tuple of terms, kw: sorted tuple of (name, term);
                                   for callees with a known signature every actual is bound to its
                                   formal (pos == ()) and actuals equal to the default are dropped
  ("sum", const, ((coef, t), ..))  flattened +/-, numeric constants folded, operands sorted
  ("prod", nums, dens)             flattened * and /, operands sorted (coefficient pulled into a sum)
  ("cmp", op, S)                   S op 0 with S a sign-normalised sum (numeric comparisons)
  ("cmpx", op, a, b)               comparison with a non-numeric literal (== / != sorted)
  ("is", (a, b)) ("not", t) ("and", ts) ("or", ts) ("in", a, b)
  ("idx", base, index) ("slice", lo, hi, step) ("attr", base, name)
  ("tuple", items) ("dict", ((k, v), ..)) ("ifexp", c, a, b) ("bin", op, a, b) ("un", op, a)
  ("unk", text)                    not interpretable

The executor enumerates paths (``If`` forks unless the test is decided by constants or by an
earlier condition of the same path) and returns, per path, the conditions taken, the outcome and the
expression statements evaluated for effect.  Locals, temporaries, argument passing style (keyword
vs positional), operand order of commutative operators and extraction of repo-local helpers
(inlined, depth <= 4) do not change the resulting terms.
"""
import ast
import builtins
from fractions import Fraction

from ..index import dotted
from .. import astq


class Undecidable(Exception):
    """The function uses a construct outside the executor's fragment."""


class _NeedChoice(Exception):
    def __init__(self, key, n):
        self.key, self.n = key, n


class _Infeasible(Exception):
    """The chosen callee path contradicts a condition already taken by the caller."""


# ------------------------------------------------------------------------------- constructors
def K(v):
    return ("k", v)


NONE = K(None)


def P(name):
    return ("p", name)


def F(dotted_name):
    return ("f", ALIASES.get(dotted_name, dotted_name))


def _key(t):
    return repr(t)


def is_num(t):
    return t[0] == "k" and isinstance(t[1], (int, float, Fraction)) and not isinstance(t[1], bool)


def _num(v):
    if isinstance(v, int) and not isinstance(v, bool):
        return Fraction(v)
    return v


def _den(v):
    """Canonical printable number (Fractions with denominator 1 become ints)."""
    if isinstance(v, Fraction) and v.denominator == 1:
        return int(v)
    return v


def mk_sum(items, const=0):
    """items: iterable of (coef, term)."""
    acc = {}
    order = {}
    c0 = _num(const)

    def add(coef, t):
        nonlocal c0
        if coef == 0:
            return
        if t[0] == "sum":
            c0 = c0 + coef * _num(t[1])
            for c, x in t[2]:
                add(coef * _num(c), x)
            return
        if is_num(t):
            c0 = c0 + coef * _num(t[1])
            return
        if t in acc:
            acc[t] = acc[t] + coef
        else:
            acc[t] = coef
            order[t] = _key(t)

    for coef, t in items:
        add(_num(coef), t)
    terms = sorted(((_den(c), t) for t, c in acc.items() if c != 0), key=lambda ct: order[ct[1]])
    c0 = _den(c0)
    if not terms:
        return K(c0)
    if c0 == 0 and len(terms) == 1 and terms[0][0] == 1:
        return terms[0][1]
    return ("sum", c0, tuple(terms))


def neg(t):
    return mk_sum([(-1, t)])


def sub(a, b):
    return mk_sum([(1, a), (-1, b)])


def add(a, b):
    return mk_sum([(1, a), (1, b)])


def _split_coef(t):
    """term -> (coef, core) when t is a pure multiple of one term."""
    if t[0] == "sum" and t[1] == 0 and len(t[2]) == 1:
        return _num(t[2][0][0]), t[2][0][1]
    return Fraction(1), t


def mk_prod(nums, dens=()):
    coef = Fraction(1)
    ns, ds = [], []

    def put(t, inv):
        nonlocal coef
        c, core = _split_coef(t)
        if c != 1:
            coef = coef / c if inv else coef * c
            t = core
        if is_num(t):
            v = _num(t[1])
            if inv:
                if v == 0:
                    ds.append(t)
                else:
                    coef = coef / v
            else:
                coef = coef * v
            return
        if t[0] == "prod":
            for x in t[1]:
                put(x, inv)
            for x in t[2]:
                put(x, not inv)
            return
        (ds if inv else ns).append(t)

    for t in nums:
        put(t, False)
    for t in dens:
        put(t, True)
    ns.sort(key=_key)
    ds.sort(key=_key)
    if not ns and not ds:
        return K(_den(coef))
    if len(ns) == 1 and not ds:
        core = ns[0]
    else:
        core = ("prod", tuple(ns), tuple(ds))
    return mk_sum([(coef, core)])


def mk_not(t):
    if t[0] == "not":
        return t[1]
    if t[0] == "k":
        return K(not t[1])
    return ("not", t)


_FLIP = {"<": ">", "<=": ">=", ">": "<", ">=": "<=", "==": "==", "!=": "!="}
_OPS = {ast.Lt: "<", ast.LtE: "<=", ast.Gt: ">", ast.GtE: ">=", ast.Eq: "==", ast.NotEq: "!="}


def _numericish(t):
    return not (t[0] == "k" and (isinstance(t[1], (str, bool, bytes)) or t[1] is None))


def mk_cmp(op, a, b):
    """a op b in difference normal form."""
    if not (_numericish(a) and _numericish(b)):
        if op in ("==", "!="):
            if a[0] == "k" and b[0] == "k":
                return K((a[1] == b[1]) == (op == "=="))
            a, b = sorted([a, b], key=_key)
        return ("cmpx", op, a, b)
    s = sub(a, b)
    if s[0] == "k":
        v = s[1]
        return K({"<": v < 0, "<=": v <= 0, ">": v > 0, ">=": v >= 0, "==": v == 0, "!=": v != 0}[op])
    lead = s[2][0][0] if s[0] == "sum" else 1
    if lead < 0:
        s = neg(s)
        op = _FLIP[op]
    return ("cmp", op, s)


def mk_is(a, b):
    if a[0] == "k" and b[0] == "k":
        return K(a[1] is b[1] or (a[1] == b[1] and type(a[1]) is type(b[1])))
    if (a == NONE and b[0] == "f") or (b == NONE and a[0] == "f"):
        return K(False)
    return ("is", tuple(sorted([a, b], key=_key)))


def mk_bool(kind, ts):
    out = []
    for t in ts:
        if t[0] == kind:
            out.extend(t[1])
        elif t[0] == "k":
            if kind == "and" and not t[1]:
                return K(False)
            if kind == "or" and t[1]:
                return K(True)
        else:
            out.append(t)
    out = sorted(set(out), key=_key)
    if not out:
        return K(kind == "and")
    if len(out) == 1:
        return out[0]
    return (kind, tuple(out))


def call(callee, pos=(), **kw):
    """Spec-side constructor: call with keyword-bound actuals (signature normalisation applied)."""
    return mk_call(callee, tuple(pos), tuple(kw.items()))


# ------------------------------------------------------------------- external signature table
ALIASES = {
    "numpy.absolute": "numpy.abs",
    "numpy.fabs": "numpy.abs",
    "builtins.abs": "numpy.abs",
    "numpy.asanyarray": "numpy.asarray",
    "numpy.core.numeric.asarray": "numpy.asarray",
    "sklearn.metrics._regression.mean_absolute_error": "sklearn.metrics.mean_absolute_error",
    "sklearn.metrics._regression.mean_squared_error": "sklearn.metrics.mean_squared_error",
    "sklearn.metrics._regression.median_absolute_error": "sklearn.metrics.median_absolute_error",
    "scipy.stats.mstats.gmean": "scipy.stats.gmean",
    "scipy.stats.stats.gmean": "scipy.stats.gmean",
}

# dotted -> (positional parameter names, {param: default literal})
EXT_SIGS = {
    "numpy.average": (("a", "axis", "weights", "returned"), {"axis": None, "weights": None, "returned": False}),
    "numpy.mean": (("a", "axis", "dtype", "out", "keepdims"), {"axis": None, "dtype": None, "out": None}),
    "numpy.median": (("a", "axis", "out", "overwrite_input", "keepdims"),
                     {"axis": None, "out": None, "overwrite_input": False, "keepdims": False}),
    "numpy.sum": (("a", "axis", "dtype", "out", "keepdims"), {"axis": None, "dtype": None, "out": None}),
    "numpy.dot": (("a", "b", "out"), {"out": None}),
    "numpy.prod": (("a", "axis", "dtype", "out", "keepdims"), {"axis": None, "dtype": None, "out": None}),
    "numpy.power": (("x1", "x2"), {}),
    "numpy.matmul": (("x1", "x2"), {}),
    "numpy.abs": (("x",), {}),
    "numpy.square": (("x",), {}),
    "numpy.sqrt": (("x",), {}),
    "numpy.exp": (("x",), {}),
    "numpy.log": (("x",), {}),
    "numpy.maximum": (("x1", "x2"), {}),
    "numpy.minimum": (("x1", "x2"), {}),
    "numpy.where": (("condition", "x", "y"), {}),
    "numpy.asarray": (("a", "dtype", "order"), {"dtype": None, "order": None}),
    "numpy.expand_dims": (("a", "axis"), {}),
    "scipy.stats.gmean": (("a", "axis", "dtype"), {"axis": 0, "dtype": None}),
    "sklearn.utils.stats._weighted_percentile": (("array", "sample_weight", "percentile"), {"percentile": 50}),
    "sklearn.metrics.mean_absolute_error": (("y_true", "y_pred", "sample_weight", "multioutput"),
                                            {"sample_weight": None, "multioutput": "uniform_average"}),
    "sklearn.metrics.mean_squared_error": (("y_true", "y_pred", "sample_weight", "multioutput", "squared"),
                                           {"sample_weight": None, "multioutput": "uniform_average", "squared": True}),
    "sklearn.metrics.median_absolute_error": (("y_true", "y_pred", "multioutput", "sample_weight"),
                                              {"sample_weight": None, "multioutput": "uniform_average"}),
    "sklearn.metrics._regression._check_reg_targets": (("y_true", "y_pred", "multioutput", "dtype"), {"dtype": "numeric"}),
}
SYMMETRIC_BINARY = ("numpy.maximum", "numpy.minimum")
EVEN_UNARY = ("numpy.abs", "numpy.square")  # f(-x) == f(x): the argument's sign is normalised
ARRAY_METHODS = ("mean", "sum")  # ndarray.m(...) == numpy.m(array, ...)
ARITH = {"numpy.divide": "div", "numpy.true_divide": "div", "numpy.multiply": "mul", "numpy.add": "add",
         "numpy.subtract": "sub", "numpy.negative": "neg"}


_COMPLEMENT = {">=": "<", ">": "<=", "!=": "=="}  # np.where(a >= b, p, q) == np.where(a < b, q, p) on finite data


def _where_parts(t):
    if t[0] == "call" and t[1] == ("f", "numpy.where") and not t[2] and [k for k, _ in t[3]] == ["condition", "x", "y"]:
        return t[3][0][1], t[3][1][1], t[3][2][1]
    return None


def where_parts(t):
    """(condition, value where true, value where false) of a normalised np.where term."""
    return _where_parts(t)


def mk_call(callee, pos, kw, sig=None):
    """Build a call term; ``sig`` = (names, defaults-as-terms) of a repo-local callee."""
    kw = list(kw)
    star = any(t[0] == "*" for t in pos) or any(k == "**" for k, _ in kw)
    if callee[0] == "f" and callee[1] in ARITH and not kw and not star:
        kind = ARITH[callee[1]]
        if kind == "neg" and len(pos) == 1:
            return neg(pos[0])
        if len(pos) == 2:
            a, b = pos
            return {"div": lambda: mk_prod([a], [b]), "mul": lambda: mk_prod([a, b]),
                    "add": lambda: add(a, b), "sub": lambda: sub(a, b)}[kind]()
    if callee == ("f", "builtins.dict") and not pos and kw and not star:
        return ("dict", tuple(sorted(((K(k), v) for k, v in kw), key=_key)))
    if callee == ("f", "numpy.power") and len(pos) == 2 and not kw and pos[1] in (K(2), K(0.5)):
        return mk_call(F("numpy.square" if pos[1] == K(2) else "numpy.sqrt"), (pos[0],), ())
    if callee[0] == "attr" and callee[2] in ARRAY_METHODS and not star:
        return mk_call(F("numpy." + callee[2]), (callee[1],) + tuple(pos), kw)
    if sig is None and callee[0] == "f" and callee[1] in EXT_SIGS:
        names, dflt = EXT_SIGS[callee[1]]
        sig = (names, {k: K(v) for k, v in dflt.items()}, False)
    if sig is not None and not star:
        names, dflt, has_kwargs = sig
        if len(pos) <= len(names):
            bound = dict(zip(names, pos))
            bad = False
            for k, v in kw:
                if k in bound or (k not in names and not has_kwargs):
                    bad = True
                bound[k] = v
            if not bad:
                if callee[0] == "f" and callee[1] in SYMMETRIC_BINARY and set(bound) == {"x1", "x2"}:
                    a, b = sorted([bound["x1"], bound["x2"]], key=_key)
                    bound = {"x1": a, "x2": b}
                if callee == ("f", "numpy.where") and set(bound) == {"condition", "x", "y"}:
                    c, x, y = bound["condition"], bound["x"], bound["y"]
                    changed = True
                    while changed:
                        changed = False
                        if c[0] == "not":
                            c, x, y, changed = c[1], y, x, True
                        elif c[0] == "cmp" and c[1] in _COMPLEMENT:
                            c, x, y, changed = ("cmp", _COMPLEMENT[c[1]], c[2]), y, x, True
                        elif c[0] == "k":
                            return x if c[1] else y
                    wx, wy = _where_parts(x), _where_parts(y)
                    if wx is not None and wx[0] == c:
                        x = wx[1]
                    if wy is not None and wy[0] == c:
                        y = wy[2]
                    if x == y:
                        return x
                    bound = {"condition": c, "x": x, "y": y}
                if callee[0] == "f" and callee[1] in EVEN_UNARY and set(bound) == {"x"}:
                    x = bound["x"]
                    if x[0] == "sum" and x[2][0][0] < 0:
                        bound = {"x": neg(x)}
                items = tuple(sorted((k, v) for k, v in bound.items() if not (k in dflt and dflt[k] == v)))
                return ("call", callee, (), items)
    return ("call", callee, tuple(pos), tuple(sorted(kw)))


def kwargs_of(t):
    return dict(t[3]) if t[0] == "call" else {}


def is_call_to(t, dotted_name):
    return t[0] == "call" and t[1] == ("f", dotted_name)


def subterms(t):
    """All tuple subterms (pre-order)."""
    stack = [t]
    while stack:
        x = stack.pop()
        if isinstance(x, tuple):
            if x and isinstance(x[0], str):
                yield x
            stack.extend(reversed([y for y in x if isinstance(y, tuple)]))


def mentions(t, target):
    return any(x == target for x in subterms(t))


def has_unknown(t):
    return any(x[0] == "unk" for x in subterms(t))


def show(t, depth=0):
    """Readable rendering for reports."""
    if not isinstance(t, tuple) or not t:
        return repr(t)
    h = t[0]
    if h == "p":
        return t[1]
    if h == "k":
        return repr(t[1])
    if h == "f":
        return t[1].replace("sktime.performance_metrics.forecasting._functions.", "")
    if h == "self":
        return "self"
    if h == "sattr":
        return "self." + t[1]
    if h == "call":
        args = [show(a) if not (a and a[0] == "*") else "*" + show(a[1]) for a in t[2]]
        args += ["%s=%s" % (k, show(v)) if k != "**" else "**" + show(v) for k, v in t[3]]
        return "%s(%s)" % (show(t[1]), ", ".join(args))
    if h == "sum":
        parts = []
        for c, x in t[2]:
            s = show(x)
            parts.append(("+ " if c > 0 else "- ") + (s if abs(c) == 1 else "%s*%s" % (abs(c), s)))
        if t[1] != 0:
            parts.append("+ %s" % (t[1],))
        out = " ".join(parts)
        return "(" + (out[2:] if out.startswith("+ ") else out) + ")"
    if h == "prod":
        n = "*".join(show(x) for x in t[1]) or "1"
        return n if not t[2] else "(%s / %s)" % (n, "*".join(show(x) for x in t[2]))
    if h == "cmp":
        return "(%s %s 0)" % (show(t[2]), t[1])
    if h == "cmpx":
        return "(%s %s %s)" % (show(t[2]), t[1], show(t[3]))
    if h == "is":
        return "(%s is %s)" % (show(t[1][0]), show(t[1][1]))
    if h == "not":
        return "not " + show(t[1])
    if h in ("and", "or"):
        return "(" + (" %s " % h).join(show(x) for x in t[1]) + ")"
    if h == "idx":
        return "%s[%s]" % (show(t[1]), show(t[2]))
    if h == "slice":
        return ":".join("" if x == NONE else show(x) for x in t[1:])
    if h == "attr":
        return "%s.%s" % (show(t[1]), t[2])
    if h == "tuple":
        return "(" + ", ".join(show(x) for x in t[1]) + ")"
    if h == "dict":
        return "{" + ", ".join("%s: %s" % (show(k), show(v)) for k, v in t[1]) + "}"
    return repr(t)


# ---------------------------------------------------------------------------------- executor
class Path:
    def __init__(self, conds, outcome, value, effects, env):
        self.conds = conds  # list of (atom term, bool)
        self.outcome = outcome  # 'return' | 'raise' | 'fall'
        self.value = value
        self.effects = effects  # ("expr", number of conditions taken before it, term) for expression statements, ("store", ..), ...
        self.env = env

    def cond(self, atom):
        for a, v in self.conds:
            if a == atom:
                return v
        for a, v in self.conds:
            if v is True and a[0] == "and":
                if atom in a[1]:
                    return True
                if ("not", atom) in a[1]:
                    return False
            if v is False and a[0] == "or":
                if atom in a[1]:
                    return False
                if ("not", atom) in a[1]:
                    return True
        return None

    def __repr__(self):
        return "<path %s %s>" % (self.outcome, [(show(a), v) for a, v in self.conds])


class _State:
    __slots__ = ("env", "conds", "effects", "plan")

    def __init__(self, env, conds=None, effects=None, plan=None):
        self.env = env
        self.conds = conds or []
        self.effects = effects or []
        self.plan = plan or {}

    def fork(self):
        return _State(dict(self.env), list(self.conds), list(self.effects), dict(self.plan))


class SymExec:
    """Path-enumerating symbolic executor over one repository.

    identity:   dotted names of callables that return their first argument unchanged (value-wise)
    transfers:  dotted -> fn(pos, kw) -> term (property-specific transfer functions)
    keep:       predicate(dotted) -> True for repo-local callees that must stay symbolic calls
                (everything else defined in an ``inline_modules`` module is inlined, depth <= 4)
    """

    MAX_PATHS = 4096

    def __init__(self, repo, identity=(), transfers=None, keep=None, inline_modules=(), depth=4, identity_pred=None, drop_reshape=False):
        self.repo = repo
        self.method_lookup = None  # name -> (module, FunctionDef, is_static) for ``self.name(...)`` (set by the caller per class)
        self.drop_reshape = drop_reshape  # value level: x[:, None], x.reshape(..), np.reshape(x, ..) keep the values of x
        self.identity_pred = identity_pred  # (module, FunctionDef) -> bool: proved to return its first argument
        self.identity = set(identity)
        self.transfers = dict(transfers or {})
        self.keep = keep or (lambda d: True)
        self.inline_modules = set(inline_modules)
        self.depth = depth
        self._const_cache = {}
        self._sig_cache = {}
        self._paths_cache = {}
        self._closures = {}

    # ------------------------------------------------------------------ public entry points
    def run(self, module, fn, args=None, selfname=None):
        """Enumerate the paths of ``fn``; parameters are bound to ("p", name) unless given."""
        env = {}
        a = fn.args
        for p in a.posonlyargs + a.args + a.kwonlyargs:
            env[p.arg] = P(p.arg)
        if a.vararg:
            env[a.vararg.arg] = ("p", "*" + a.vararg.arg)
        if a.kwarg:
            env[a.kwarg.arg] = ("p", "**" + a.kwarg.arg)
        if selfname:
            env[selfname] = ("self",)
        env.update(args or {})
        return self._paths(module, fn, env, 0)

    def signature(self, module, fn, skip_self=False):
        """(names, defaults-as-terms, has **kwargs) of a repo function."""
        key = (id(fn), skip_self)
        if key not in self._sig_cache:
            names = tuple(astq.all_param_names(fn, skip_self))
            dflt = {}
            for k, e in astq.param_defaults(fn).items():
                dflt[k] = self.ev(e, _State({}), module, 0)
            self._sig_cache[key] = (names, dflt, fn.args.kwarg is not None)
        return self._sig_cache[key]

    def module_const(self, module, name):
        return self._name(name, _State({}), module, 0)

    # ------------------------------------------------------------------------- statements
    def _paths(self, module, fn, env, depth):
        out = []
        for st, oc, val in self._block(fn.body, _State(dict(env)), module, depth):
            out.append(Path(st.conds, oc or "fall", val, st.effects, st.env))
            if len(out) > self.MAX_PATHS:
                raise Undecidable("more than %d paths in %s" % (self.MAX_PATHS, fn.name))
        return out

    def _block(self, stmts, st, module, depth):
        """Yield (state, outcome, value); outcome None = fell through."""
        if not stmts:
            yield st, None, None
            return
        head, rest = stmts[0], stmts[1:]
        for st2, oc, val in self._stmt(head, st, module, depth):
            if oc is not None:
                yield st2, oc, val
            else:
                yield from self._block(rest, st2, module, depth)

    def _stmt(self, node, st, module, depth):
        try:
            yield from self._stmt1(node, st.fork(), module, depth)
        except _Infeasible:
            return
        except _NeedChoice as nc:
            for i in range(nc.n):
                s = st.fork()
                s.plan[nc.key] = i
                yield from self._stmt(node, s, module, depth)

    def _stmt1(self, node, st, module, depth):
        if isinstance(node, ast.Return):
            v = self.ev(node.value, st, module, depth) if node.value is not None else NONE
            yield st, "return", v
        elif isinstance(node, ast.Raise):
            yield st, "raise", None
        elif isinstance(node, ast.Pass):
            yield st, None, None
        elif isinstance(node, ast.Expr):
            c_ = node.value
            if (isinstance(c_, ast.Call) and isinstance(c_.func, ast.Attribute) and c_.func.attr == "append"
                    and isinstance(c_.func.value, ast.Name) and st.env.get(c_.func.value.id, ("?",))[0] == "tuple"
                    and len(c_.args) == 1 and not c_.keywords and not isinstance(c_.args[0], ast.Starred)):
                # a local list built step by step (the list is a local of this frame; aliases are not tracked: the
                # value stays usable only through this name)
                item = self.ev(c_.args[0], st, module, depth)
                st.env[c_.func.value.id] = ("tuple", st.env[c_.func.value.id][1] + (item,))
            elif not (isinstance(node.value, ast.Constant)):
                v = self.ev(node.value, st, module, depth)
                st.effects.append(("expr", len(st.conds), v))  # with the number of conditions taken so far
            yield st, None, None
        elif isinstance(node, ast.Assert):
            st.effects.append(("assert", self.ev(node.test, st, module, depth)))
            yield st, None, None
        elif isinstance(node, (ast.Assign, ast.AnnAssign)):
            if isinstance(node, ast.AnnAssign):
                if node.value is None:
                    yield st, None, None
                    return
                targets = [node.target]
            else:
                targets = node.targets
            v = self.ev(node.value, st, module, depth)
            for t in targets:
                if isinstance(t, ast.Subscript) and isinstance(t.value, ast.Name) and t.value.id in st.env \
                        and self._store_item(t, v, st, module, depth):
                    continue
                self._store(t, v, st)
            yield st, None, None
        elif isinstance(node, ast.AugAssign):
            cur = self.ev(_load(node.target), st, module, depth)
            v = self._binop(node.op, cur, self.ev(node.value, st, module, depth))
            self._store(node.target, v, st)
            yield st, None, None
        elif isinstance(node, ast.If):
            t = self.ev(node.test, st, module, depth)
            d = decide(t, st.conds)
            if d is None:
                a, b = st, st.fork()
                atom, pol = (t[1], False) if t[0] == "not" else (t, True)
                a.conds.append((atom, pol))
                b.conds.append((atom, not pol))
                yield from self._block(node.body, a, module, depth)
                yield from self._block(node.orelse, b, module, depth)
            elif d:
                yield from self._block(node.body, st, module, depth)
            else:
                yield from self._block(node.orelse, st, module, depth)
        elif isinstance(node, (ast.Import, ast.ImportFrom, ast.Global, ast.Nonlocal)):
            yield st, None, None
        elif isinstance(node, ast.FunctionDef) and not node.decorator_list:
            # a local closure: interpreted at its call sites with the enclosing frame's current bindings
            self._closures[id(node)] = node
            st.env[node.name] = ("closure", id(node))
            yield st, None, None
        elif isinstance(node, ast.For) and not node.orelse:
            it = self.ev(node.iter, st, module, depth)
            if it[0] != "tuple" or any(isinstance(x, (ast.Break, ast.Continue)) for x in ast.walk(node)):
                raise Undecidable("loop at line %s does not iterate a literal sequence (or uses break/continue)" % node.lineno)
            yield from self._unroll(node, list(it[1]), st, module, depth)
        else:
            raise Undecidable("statement %s at line %s is outside the executor's fragment"
                              % (type(node).__name__, getattr(node, "lineno", "?")))

    def _unroll(self, node, items, st, module, depth):
        if not items:
            yield st, None, None
            return
        self._store(node.target, items[0], st)
        for st2, oc, val in self._block(node.body, st, module, depth):
            if oc is not None:
                yield st2, oc, val
            else:
                yield from self._unroll(node, items[1:], st2, module, depth)

    def _store_item(self, target, v, st, module, depth):
        """``name[key] = v`` on a local dict literal, ``name[mask] = f(x[mask])`` on a fresh local array."""
        name = target.value.id
        cur = st.env[name]
        index = self.ev(target.slice, st, module, depth)
        if cur[0] == "dict" and index[0] == "k":
            items = [(k_, v_) for k_, v_ in cur[1] if k_ != index] + [(index, v)]
            st.env[name] = ("dict", tuple(sorted(items, key=_key)))
            return True
        if cur[0] == "call" and index[0] in ("cmp", "not", "and", "or"):
            # masked element-wise update of an array this frame created (a ufunc result): where(mask, new, old);
            # x[mask] inside the new value is x restricted to the same positions
            def lift(t):
                if not isinstance(t, tuple):
                    return t
                if t and t[0] == "idx":
                    if t[2] == index:
                        return lift(t[1])
                    raise Undecidable("masked store mixes different masks")
                if t and t[0] == "call":
                    return mk_call(lift(t[1]), tuple(lift(x) for x in t[2]), tuple((k_, lift(v_)) for k_, v_ in t[3]))
                if t and t[0] == "sum":
                    return mk_sum([(c_, lift(x)) for c_, x in t[2]], t[1])
                if t and t[0] == "prod":
                    return mk_prod([lift(x) for x in t[1]], [lift(x) for x in t[2]])
                if t and t[0] in ("p", "k", "f", "sattr", "self"):
                    return t
                raise Undecidable("masked store of a value that is not element-wise")
            st.env[name] = mk_call(F("numpy.where"), (index, lift(v), cur), ())
            return True
        return False

    def _store(self, target, v, st):
        if isinstance(target, ast.Name):
            st.env[target.id] = v
        elif isinstance(target, (ast.Tuple, ast.List)):
            items = v[1] if v[0] == "tuple" and len(v[1]) == len(target.elts) else None
            for i, e in enumerate(target.elts):
                if isinstance(e, ast.Starred):
                    raise Undecidable("starred assignment target")
                self._store(e, items[i] if items is not None else ("idx", v, K(i)), st)
        elif isinstance(target, ast.Attribute) and isinstance(target.value, ast.Name) and st.env.get(target.value.id) == ("self",):
            st.env[("sattr", target.attr)] = v
            st.effects.append(("store", ("sattr", target.attr), v))
        else:
            st.effects.append(("store", ("unk", astq.canon(target)), v))
            root = target
            while isinstance(root, (ast.Subscript, ast.Attribute)):
                root = root.value
            if isinstance(root, ast.Name):
                st.env[root.id] = ("unk", "mutated:" + root.id)

    # ------------------------------------------------------------------------ expressions
    def ev(self, e, st, module, depth):
        if isinstance(e, ast.Constant):
            return K(e.value)
        if isinstance(e, ast.Name):
            return self._name(e.id, st, module, depth)
        if isinstance(e, ast.Attribute):
            d = dotted(e)
            if d is not None:
                root = d.split(".")[0]
                if root not in st.env:
                    sym = self.repo.resolve_dotted(module, d)
                    if sym is not None:
                        return self._sym(sym, depth)
            base = self.ev(e.value, st, module, depth)
            if base == ("self",):
                return st.env.get(("sattr", e.attr), ("sattr", e.attr))
            return ("attr", base, e.attr)
        if isinstance(e, ast.BinOp):
            return self._binop(e.op, self.ev(e.left, st, module, depth), self.ev(e.right, st, module, depth))
        if isinstance(e, ast.UnaryOp):
            v = self.ev(e.operand, st, module, depth)
            if isinstance(e.op, ast.USub):
                return neg(v)
            if isinstance(e.op, ast.UAdd):
                return v
            if isinstance(e.op, ast.Not):
                return mk_not(v)
            if isinstance(e.op, ast.Invert) and v[0] in ("cmp", "cmpx", "not", "and", "or", "is", "in"):
                return mk_not(v)  # ~mask of a boolean array
            return ("un", type(e.op).__name__, v)
        if isinstance(e, ast.BoolOp):
            return mk_bool("and" if isinstance(e.op, ast.And) else "or", [self.ev(v, st, module, depth) for v in e.values])
        if isinstance(e, ast.Compare):
            parts = []
            left = self.ev(e.left, st, module, depth)
            for op, c in zip(e.ops, e.comparators):
                right = self.ev(c, st, module, depth)
                if type(op) in _OPS:
                    parts.append(mk_cmp(_OPS[type(op)], left, right))
                elif isinstance(op, ast.Is):
                    parts.append(mk_is(left, right))
                elif isinstance(op, ast.IsNot):
                    parts.append(mk_not(mk_is(left, right)))
                elif isinstance(op, (ast.In, ast.NotIn)):
                    if left[0] == "k" and right[0] == "tuple" and all(x[0] == "k" for x in right[1]):
                        r_ = K(any(left[1] == x[1] for x in right[1]))
                    else:
                        r_ = ("in", left, right)
                    parts.append(r_ if isinstance(op, ast.In) else mk_not(r_))
                left = right
            return parts[0] if len(parts) == 1 else mk_bool("and", parts)
        if isinstance(e, ast.Call):
            return self._call(e, st, module, depth)
        if isinstance(e, ast.Subscript):
            base, index = self.ev(e.value, st, module, depth), self.ev(e.slice, st, module, depth)
            if base[0] == "dict" and index[0] == "k":
                for k_, v_ in base[1]:
                    if k_ == index:
                        return v_
            if base[0] == "tuple" and index[0] == "k" and isinstance(index[1], int) and -len(base[1]) <= index[1] < len(base[1]):
                return base[1][index[1]]
            if self.drop_reshape and index[0] == "tuple" and index[1] and all(
                    i in (("slice", NONE, NONE, NONE), NONE, ("f", "numpy.newaxis")) for i in index[1]):
                return base
            return ("idx", base, index)
        if isinstance(e, ast.Slice):
            return ("slice",) + tuple(self.ev(x, st, module, depth) if x is not None else NONE for x in (e.lower, e.upper, e.step))
        if isinstance(e, (ast.Tuple, ast.List)):
            if any(isinstance(x, ast.Starred) for x in e.elts):
                return ("unk", astq.canon(e))
            return ("tuple", tuple(self.ev(x, st, module, depth) for x in e.elts))
        if isinstance(e, ast.Dict):
            if any(k is None for k in e.keys):
                return ("unk", "dict-unpack")
            return ("dict", tuple(sorted(((self.ev(k, st, module, depth), self.ev(v, st, module, depth))
                                          for k, v in zip(e.keys, e.values)), key=_key)))
        if isinstance(e, ast.IfExp):
            c = self.ev(e.test, st, module, depth)
            d = decide(c, st.conds)
            if d is True:
                return self.ev(e.body, st, module, depth)
            if d is False:
                return self.ev(e.orelse, st, module, depth)
            # undecided conditional expression: fork the path like an ``if`` statement
            key = (id(e), "ifexp", depth)
            if key not in st.plan:
                raise _NeedChoice(key, 2)
            atom, pol = (c[1], False) if c[0] == "not" else (c, True)
            if st.plan[key] == 0:
                st.conds.append((atom, pol))
                return self.ev(e.body, st, module, depth)
            st.conds.append((atom, not pol))
            return self.ev(e.orelse, st, module, depth)
        if isinstance(e, ast.Lambda):
            if id(e) not in self._closures:
                fn = ast.FunctionDef(name="<lambda>", args=e.args, body=[ast.Return(value=e.body)], decorator_list=[], returns=None)
                ast.copy_location(fn, e)
                ast.fix_missing_locations(fn)
                self._closures[id(e)] = fn
            return ("closure", id(e))
        if hasattr(ast, "Index") and isinstance(e, getattr(ast, "Index")):  # py3.8
            return self.ev(e.value, st, module, depth)
        return ("unk", type(e).__name__)

    def _binop(self, op, a, b):
        if isinstance(op, ast.Add):
            return add(a, b)
        if isinstance(op, ast.Sub):
            return sub(a, b)
        if isinstance(op, ast.Mult):
            return mk_prod([a, b])
        if isinstance(op, ast.Div):
            return mk_prod([a], [b])
        if isinstance(op, ast.Pow) and b == K(2):
            return mk_call(F("numpy.square"), (a,), ())
        if isinstance(op, ast.Pow) and b == K(0.5):
            return mk_call(F("numpy.sqrt"), (a,), ())
        if isinstance(op, ast.Pow):
            return mk_call(F("numpy.power"), (a, b), ())
        return ("bin", type(op).__name__, a, b)

    def _name(self, name, st, module, depth):
        if name in st.env:
            return st.env[name]
        sym = self.repo.resolve_name(module, name)
        if sym is not None:
            return self._sym(sym, depth)
        if hasattr(builtins, name):
            return F("builtins." + name)
        return ("unk", "name:" + name)

    def _sym(self, sym, depth):
        if sym.kind in ("func", "class", "ext", "module"):
            return F(sym.dotted)
        if sym.kind == "const":
            key = sym.dotted
            if key not in self._const_cache:
                self._const_cache[key] = ("unk", "recursive const")
                self._const_cache[key] = self.ev(sym.target, _State({}), sym.module, depth)
            return self._const_cache[key]
        return ("unk", "symbol:%s" % sym.dotted)

    # ------------------------------------------------------------------------------ calls
    def _call(self, e, st, module, depth):
        pos = []
        for a in e.args:
            if isinstance(a, ast.Starred):
                pos.append(("*", self.ev(a.value, st, module, depth)))
            else:
                pos.append(self.ev(a, st, module, depth))
        kw = []
        for k in e.keywords:
            kw.append((k.arg if k.arg is not None else "**", self.ev(k.value, st, module, depth)))
        if any(k == "**" and v[0] == "dict" and all(x[0] == "k" and isinstance(x[1], str) for x, _ in v[1]) for k, v in kw):
            kw2 = []  # f(**{"a": x, ...}) with a literal dict is f(a=x, ...)
            for k, v in kw:
                if k == "**" and v[0] == "dict" and all(x[0] == "k" and isinstance(x[1], str) for x, _ in v[1]):
                    kw2.extend((x[1], y) for x, y in v[1])
                else:
                    kw2.append((k, v))
            if len({k for k, _ in kw2}) == len(kw2):
                kw = kw2
        callee = self.ev(e.func, st, module, depth)
        if self.drop_reshape and callee[0] == "attr" and callee[2] == "reshape":
            return callee[1]
        if callee == F("builtins.getattr") and len(pos) == 2 and not kw and pos[1][0] == "k" and isinstance(pos[1][1], str):
            if pos[0] == ("self",):
                return st.env.get(("sattr", pos[1][1]), ("sattr", pos[1][1]))
            return ("attr", pos[0], pos[1][1])
        if callee[0] == "closure" and callee[1] in self._closures and depth < self.depth + 2:
            if not any(a and a[0] == "*" for a in pos) and not any(k == "**" for k, _ in kw):
                r = self._inline(e, self._closures[callee[1]], module, pos, kw, st, depth, base_env=st.env)
                if r is not None:
                    return r
            return ("unk", "closure call")
        if callee[0] == "sattr" and self.method_lookup is not None and depth < self.depth:
            hit = self.method_lookup(callee[1])
            if hit is not None and not any(a and a[0] == "*" for a in pos) and not any(k == "**" for k, _ in kw):
                mmod, mfn, is_static = hit
                r = self._inline(e, mfn, mmod, ([] if is_static else [("self",)]) + pos, kw, st, depth)
                if r is not None:
                    return r
        star = any(a and a[0] == "*" for a in pos) or any(k == "**" for k, _ in kw)
        if callee[0] == "f":
            d = callee[1]
            if d in self.transfers and not star:
                r = self.transfers[d](pos, dict(kw))
                if r is not NotImplemented:
                    return r
            sym = self._repo_symbol(module, e.func, st)
            fn_mod = None
            if sym is not None and sym.kind == "func":
                fn_mod = (sym.target, sym.module)
            ident = d in self.identity or (fn_mod is not None and self.identity_pred is not None
                                           and self.identity_pred(fn_mod[1], fn_mod[0]))
            if ident and not star:
                if fn_mod is not None:
                    names = astq.all_param_names(fn_mod[0])
                else:
                    names = EXT_SIGS.get(d, ((), {}))[0]
                first = pos[0] if pos else (dict(kw).get(names[0]) if names else None)
                if first is not None:
                    return first
            if fn_mod is not None:
                fn, fmod = fn_mod
                sig = self.signature(fmod, fn)
                if (fmod.name in self.inline_modules and not self.keep(d) and depth < self.depth and not star
                        and not astq.is_generator(fn)):
                    r = self._inline(e, fn, fmod, pos, kw, st, depth)
                    if r is not None:
                        return r
                return mk_call(callee, pos, kw, sig)
            if sym is not None and sym.kind == "class":
                hit = self.repo.lookup_method(sym.target, "__init__")
                if hit is not None:
                    return mk_call(callee, pos, kw, self.signature(hit[0].module, hit[1], skip_self=True))
            return mk_call(callee, pos, kw)
        if callee[0] == "p" and not star:
            # a callable parameter: bind through the signature of its (resolvable) default
            sig = st.env.get(("sig", callee[1]))
            if sig is not None:
                return mk_call(callee, pos, kw, sig)
        return mk_call(callee, pos, kw)

    def _repo_symbol(self, module, func_expr, st):
        d = dotted(func_expr)
        if d is None or d.split(".")[0] in st.env:
            return None
        return self.repo.resolve_dotted(module, d)

    def _inline(self, e, fn, fmod, pos, kw, st, depth, base_env=None):
        names, dflt, has_kwargs = self.signature(fmod, fn)
        if len(pos) > len(names) or has_kwargs or fn.args.vararg is not None:
            return None
        bound = dict(zip(names, pos))
        for k, v in kw:
            if k in bound or k not in names:
                return None
            bound[k] = v
        for n in names:
            if n not in bound:
                if n not in dflt:
                    return None
                bound[n] = dflt[n]
        if base_env is not None:
            env_ = dict(base_env)
            env_.update(bound)
            bound = env_
        try:
            paths = self._paths(fmod, fn, bound, depth + 1)
        except (_NeedChoice, Undecidable):
            return None  # not reducible: the call stays symbolic
        normal = [p for p in paths if p.outcome in ("return", "fall")]
        if any(p.outcome == "return" and has_unknown(p.value) for p in normal):
            return None
        if not normal:
            return None
        key = (id(e), depth)
        if len(normal) == 1:
            chosen = normal[0]
        else:
            if key not in st.plan:
                raise _NeedChoice(key, len(normal))
            chosen = normal[st.plan[key]]
        for a, v in chosen.conds:
            d = decide(a, st.conds)
            if d is None:
                st.conds.append((a, v))
            elif d != v:
                raise _Infeasible()
        st.effects.extend(chosen.effects)
        return chosen.value if chosen.outcome == "return" else NONE


def _load(target):
    import copy
    t = copy.deepcopy(target)
    for n in ast.walk(t):
        if hasattr(n, "ctx"):
            n.ctx = ast.Load()
    return t


def decide(t, conds):
    """Truth value of ``t`` from literals and the conditions already taken on this path."""
    if t[0] == "k":
        return bool(t[1])
    for a, v in conds:
        if a == t:
            return v
    if t[0] == "not":
        d = decide(t[1], conds)
        return None if d is None else (not d)
    if t[0] in ("and", "or"):
        ds = [decide(x, conds) for x in t[1]]
        if t[0] == "and":
            if any(d is False for d in ds):
                return False
            if all(d is True for d in ds):
                return True
        else:
            if any(d is True for d in ds):
                return True
            if all(d is False for d in ds):
                return False
    return None
