"""Model objects and transfer table (trusted library semantics) for the C18 token interpreter."""
import itertools
import posixpath
import textwrap

from ._c18_mini import Undecided, PyRaise, ExcInstance, BoundExt, Ext, BUILTIN_EXC

L, R_ = "«", "»"


def tok(name):
    return "%s%s%s" % (L, name, R_)


def is_tok(s):
    return isinstance(s, str) and s.startswith(L) and s.endswith(R_) and s.count(L) == 1


class Num:
    """The number denoted by an observation token (what ``float('«o3»')`` evaluates to)."""

    def __init__(self, name):
        self.name = name

    def __eq__(self, o):
        return isinstance(o, Num) and o.name == self.name

    def __hash__(self):
        return hash(("Num", self.name))

    def __repr__(self):
        return "#" + self.name

    def m_str(self, interp):
        return tok(self.name)


NUM_ALPHABET = set("0123456789.+-eEnaNinfINF")
# a label / name token stands for any printable text without blanks and without the characters the file formats
# reserve (value separators , : tab, the missing-value mark ?, quotes, the tag mark @); '#', '/', digits ... are legal
LABEL_ALPHABET = set(chr(c) for c in range(33, 127)) - set(",:?'\"@")
MUT = "~"


def _token_spans(s):
    out, i = [], 0
    while True:
        a = s.find(L, i)
        if a < 0:
            return out
        b = s.find(R_, a)
        if b < 0:
            return out
        out.append((a, b))
        i = b + 1


def _alphabet(name):
    """Characters the string denoted by a token may contain: printed numbers for observation tokens, identifier-like
    text for label / name tokens (quotes, '?' and separators are not part of a value)."""
    if name.startswith("c") or name.startswith("pname"):
        return LABEL_ALPHABET
    return NUM_ALPHABET


def _hits(chars, name):
    al = _alphabet(name.split(MUT)[0])
    return any((not c.isspace()) and c in al for c in chars)


def _hits_all(sub, name):
    """Can the whole separator / pattern ``sub`` occur inside the value the token stands for?"""
    al = _alphabet(name.split(MUT)[0])
    return bool(sub) and all(c in al for c in sub)


def _mutate(s, span, how):
    a, b = span
    return s[:b] + MUT + how + s[b:]


def str_hook(base, attr):
    """Token-aware ``strip`` / ``lstrip`` / ``rstrip`` / ``replace``: a token stands for an arbitrary printed value, so
    removing characters that such a value may contain at its edge (or anywhere, for ``replace``) yields a
    *different* value -- the token is renamed (``«o1~rstrip(0)»``) and no longer equals what was written.
    Whitespace stripping and characters outside the value's alphabet leave the token alone."""
    if L not in base:
        return None
    if attr in ("strip", "lstrip", "rstrip"):
        def strip(chars=None):
            r = getattr(base, attr)(chars)
            if chars is None or not isinstance(chars, str):
                return r
            spans = _token_spans(r)
            if not spans:
                return r
            tag = "%s(%s)" % (attr, chars)
            if attr in ("strip", "rstrip") and r.endswith(R_) and _hits(chars, r[spans[-1][0] + 1:spans[-1][1]]):
                r = _mutate(r, spans[-1], tag)
                spans = _token_spans(r)
            if attr in ("strip", "lstrip") and r.startswith(L) and _hits(chars, r[spans[0][0] + 1:spans[0][1]]) \
                    and MUT + tag not in r[spans[0][0]:spans[0][1]]:
                r = _mutate(r, spans[0], tag)
            return r
        return strip
    if attr in ("split", "rsplit", "partition", "rpartition"):
        def split(sep=None, maxsplit=-1):
            real = getattr(base, attr)
            r = real(sep) if attr.endswith("partition") else real(sep, maxsplit)
            if sep is None or not isinstance(sep, str) or sep.isspace():
                return r
            hit = [sp for sp in _token_spans(base) if _hits_all(sep, base[sp[0] + 1:sp[1]])]
            if not hit:
                return r
            # the separator may occur inside the value a token stands for: every piece that holds such a token is cut there
            out = []
            for piece in r:
                for sp in reversed(_token_spans(piece)):
                    if _hits_all(sep, piece[sp[0] + 1:sp[1]]):
                        piece = _mutate(piece, sp, "%s(%s)" % (attr, sep))
                out.append(piece)
            return type(r)(out) if isinstance(r, tuple) else out
        return split
    if attr == "replace":
        def replace(old, new, count=-1):
            r = base.replace(old, new, count)
            if not isinstance(old, str) or old == new:
                return r
            for span in reversed(_token_spans(r)):
                if _hits_all(old, r[span[0] + 1:span[1]]):
                    r = _mutate(r, span, "replace(%s)" % old)
            return r
        return replace
    return None


def to_float(s):
    t = s.strip()
    if is_tok(t):
        return Num(t[1:-1])
    return None


LOSSLESS_DTYPES = {None, "float", "float64", "numpy.float64", "numpy.double", "numpy.float_", "object", "O", "numpy.object_",
                   "numpy.longdouble", "numpy.float128", "str", "numpy.str_"}


def dtype_name(d):
    if d is None or isinstance(d, str):
        return d
    if isinstance(d, Ext):
        return d.name
    n = getattr(d, "name", None)  # interpreter builtin (float / int / str / object)
    return n if isinstance(n, str) else repr(d)


def cast(values, dtype, node=None):
    """Values after a cast to ``dtype``: identity for float64 / object, otherwise every number token becomes a
    *different* number (``#o1~float32``): a narrower float or an integer type cannot represent the digits the file holds."""
    dn = dtype_name(dtype)
    if dn in LOSSLESS_DTYPES:
        return list(values)
    short = dn.split(".")[-1]
    return [Num(v.name + MUT + short) if isinstance(v, Num) else v for v in values]


def _raise(name, msg, node=None):
    raise PyRaise(ExcInstance(name, [msg], BUILTIN_EXC.get(name, ("Exception",))), node)


# ----------------------------------------------------------------------------------------------- files
class VFS:
    """Virtual files.  ``by_basename``: files known only by their file name (directory layout not modelled)."""

    def __init__(self, by_basename=None):
        self.files = {}
        self.opened = []
        self.by_basename = by_basename if by_basename is not None else {}
        self.last_reader = None

    def lookup(self, path):
        if not isinstance(path, str):
            return None
        f = self.files.get(posixpath.normpath(path))
        if f is None:
            f = self.files.get(path)
        if f is None:
            f = self.by_basename.get(posixpath.basename(path))
        return f


class FileW:
    def __init__(self, vfs, path):
        self.vfs, self.path, self.parts, self.closed = vfs, path, [], False
        vfs.files[path] = self

    def text(self):
        return "".join(self.parts)

    def m_getattr(self, interp, attr):
        if attr in ("write", "close", "flush"):
            return BoundExt(self, attr)
        raise Undecided("file.%s" % attr)

    def m_method(self, interp, name, args, kwargs, node):
        if name == "write":
            if len(args) != 1 or not isinstance(args[0], str):
                _raise("TypeError", "write() argument must be str", node)
            if self.closed:
                _raise("ValueError", "I/O operation on closed file", node)
            self.parts.append(args[0])
            return len(args[0])
        if name == "close":
            self.closed = True
        return None

    def m_enter(self):
        return self


class FileR:
    def __init__(self, text):
        self.lines = text.splitlines(keepends=True)
        self.pos = 0

    def m_enter(self):
        return self

    def m_iter(self, interp):
        f = self

        def gen():
            while f.pos < len(f.lines):
                f.pos += 1
                yield f.lines[f.pos - 1]
        return gen()

    def m_getattr(self, interp, attr):
        if attr in ("close", "readlines", "read", "readline"):
            return BoundExt(self, attr)
        raise Undecided("file.%s" % attr)

    def m_method(self, interp, name, args, kwargs, node):
        if name == "readlines":
            out, self.pos = self.lines[self.pos:], len(self.lines)
            return out
        if name == "read":
            out, self.pos = "".join(self.lines[self.pos:]), len(self.lines)
            return out
        if name == "readline":
            if self.pos < len(self.lines):
                self.pos += 1
                return self.lines[self.pos - 1]
            return ""
        return None


# -------------------------------------------------------------------------------- writer input (a nested panel)
class PanelSym:
    """The nested DataFrame handed to the writer: ``cases[i]`` = list of observation tokens of dimension 0."""

    def __init__(self, cases, index=None):
        self.cases = cases
        self.index = list(index) if index is not None else list(range(len(cases)))

    def m_isinstance(self, interp, c):
        return isinstance(c, Ext) and c.name == "pandas.DataFrame"

    def m_getattr(self, interp, attr):
        if attr == "index":
            return list(self.index)
        if attr in ("iterrows", "sort_index", "copy", "reset_index"):
            return BoundExt(self, attr)
        if attr == "shape":
            return (len(self.cases), 1)
        if attr == "ndim":
            return 2
        raise Undecided("DataFrame.%s of the written panel" % attr)

    def m_method(self, interp, name, args, kwargs, node):
        if name == "iterrows":
            return [(lab, RowSym(c)) for lab, c in zip(self.index, self.cases)]  # (row label, row) as pandas does
        if name == "sort_index":
            if args or set(kwargs) - {"axis"} or kwargs.get("axis", 0) not in (0, "index"):
                raise Undecided("DataFrame.sort_index with options")
            order = sorted(range(len(self.index)), key=lambda i: self.index[i])
            return PanelSym([self.cases[i] for i in order], [self.index[i] for i in order])
        if name == "copy":
            return PanelSym([list(c) for c in self.cases], self.index)
        if name == "reset_index":
            if kwargs.get("drop") is not True or args:
                raise Undecided("DataFrame.reset_index without drop=True")
            return PanelSym(self.cases, None)
        raise Undecided("DataFrame.%s" % name)

    def m_len(self, interp):
        return len(self.cases)


class RowSym:
    def __init__(self, obs):
        self.obs = obs

    def m_getitem(self, interp, idx, node):
        if idx == 0 or idx == "dim_0":
            return CellSeries(self.obs)
        _raise("KeyError", repr(idx), node)

    def m_getattr(self, interp, attr):
        if attr == "iloc":
            return self
        raise Undecided("row.%s" % attr)

    def m_iter(self, interp):
        return [CellSeries(self.obs)]

    def m_len(self, interp):
        return 1


class CellSeries:
    """One cell of the written panel: a series of observation tokens whose own index is 0..m-1 and *has a name*
    (any panel may carry named inner indexes; the name only shows when the writer asks for a header)."""

    INDEX_NAME = tok("iname")

    def __init__(self, obs):
        self.obs = obs

    def m_getattr(self, interp, attr):
        if attr in ("to_string", "tolist", "to_list"):
            return BoundExt(self, attr)
        if attr == "values":
            return list(self.obs)
        raise Undecided("series.%s of a written cell" % attr)

    def m_method(self, interp, name, args, kwargs, node):
        if name == "to_string":
            # pandas: one line per observation; index=True prefixes every line with its index label, header=True emits a
            # first line holding the index name when the index is named (and index labels are printed or not)
            if args or set(kwargs) - {"index", "header", "na_rep"}:
                raise Undecided("Series.to_string with options other than index / header / na_rep")
            index, header = kwargs.get("index", True), kwargs.get("header", False)
            if not isinstance(index, bool) or not isinstance(header, bool):
                raise Undecided("Series.to_string with non-boolean index / header")
            lines = ["%d    %s" % (i, o) if index else o for i, o in enumerate(self.obs)]
            if header:
                lines.insert(0, self.INDEX_NAME)
            return "\n".join(lines)
        return list(self.obs)

    def m_iter(self, interp):
        return list(self.obs)

    def m_len(self, interp):
        return len(self.obs)


# ------------------------------------------------------------------------------------------ parser outputs
class SeriesV:
    def __init__(self, data=(), index=None):
        self.data, self.index = list(data), index

    def labels(self):
        return list(self.index) if self.index is not None else list(range(len(self.data)))

    def __eq__(self, o):
        return isinstance(o, SeriesV) and self.data == o.data and self.labels() == o.labels()

    def __hash__(self):
        return hash(("S", len(self.data)))

    def __repr__(self):
        idx = "" if self.labels() == list(range(len(self.data))) else ", index=%r" % (self.labels(),)
        return "Series(%r%s)" % (self.data, idx)

    def m_getattr(self, interp, attr):
        if attr == "values":
            return ArrV(self.data)
        if attr in ("astype", "to_numpy", "copy"):
            return BoundExt(self, attr)
        if attr == "index":
            return IndexV(self.labels())
        raise Undecided("Series.%s" % attr)

    def m_method(self, interp, name, args, kwargs, node):
        if name == "astype":
            return SeriesV(cast(self.data, args[0] if args else kwargs.get("dtype")), self.index)
        if name == "to_numpy":
            return ArrV(self.data)
        return SeriesV(self.data, self.index)

    def m_len(self, interp):
        return len(self.data)

    def m_iter(self, interp):
        return list(self.data)


class MaskV:
    """Boolean vector (result of comparing an index / array with a scalar)."""

    def __init__(self, bits):
        self.bits = [bool(b) for b in bits]

    def m_invert(self, interp):
        return MaskV([not b for b in self.bits])

    def m_len(self, interp):
        return len(self.bits)

    def m_iter(self, interp):
        return list(self.bits)

    def m_getattr(self, interp, attr):
        if attr in ("all", "any", "sum"):
            return BoundExt(self, attr)
        raise Undecided("mask.%s" % attr)

    def m_method(self, interp, name, args, kwargs, node):
        return {"all": all, "any": any, "sum": sum}[name](self.bits)


class IndexV:
    """Row / column labels."""

    def __init__(self, labels):
        self.labels = list(labels)

    def __eq__(self, o):
        return isinstance(o, IndexV) and self.labels == o.labels

    def __hash__(self):
        return hash(("I", len(self.labels)))

    def __repr__(self):
        return "Index(%r)" % (self.labels,)

    def m_len(self, interp):
        return len(self.labels)

    def m_iter(self, interp):
        return list(self.labels)

    def m_contains(self, interp, x):
        return x in self.labels

    def m_getitem(self, interp, idx, node):
        if isinstance(idx, (int, slice)):
            r = self.labels[idx]
            return IndexV(r) if isinstance(idx, slice) else r
        if isinstance(idx, MaskV):
            return IndexV([l for l, b in zip(self.labels, idx.bits) if b])
        raise Undecided("index[%r]" % (idx,))

    def m_compare(self, interp, op, a, b, node):
        import ast as _ast
        other = b if a is self else a
        if isinstance(other, IndexV):
            if isinstance(op, _ast.Eq) and len(other.labels) == len(self.labels):
                return MaskV([x == y for x, y in zip(self.labels, other.labels)])
            raise Undecided("comparison of two indexes")
        if isinstance(op, _ast.Eq):
            return MaskV([l == other for l in self.labels])
        if isinstance(op, _ast.NotEq):
            return MaskV([l != other for l in self.labels])
        raise Undecided("ordering comparison on an index")

    def m_getattr(self, interp, attr):
        if attr == "values":
            return ArrV(self.labels)
        if attr in ("unique", "isin", "tolist", "to_list", "to_numpy", "equals", "drop", "difference", "union", "intersection",
                    "append", "sort_values"):
            return BoundExt(self, attr)
        if attr == "is_unique":
            return len(set(map(repr, self.labels))) == len(self.labels)
        raise Undecided("Index.%s" % attr)

    def m_method(self, interp, name, args, kwargs, node):
        if name == "unique":
            out = []
            for l in self.labels:
                if l not in out:
                    out.append(l)
            return IndexV(out)
        if name == "isin":
            vals = list(interp.iterate(args[0]))
            return MaskV([l in vals for l in self.labels])
        if name == "equals":
            return isinstance(args[0], IndexV) and args[0].labels == self.labels
        if name in ("drop", "difference", "union", "intersection", "append"):
            other = args[0] if args else kwargs.get("labels", kwargs.get("other"))
            other = list(interp.iterate(other)) if not isinstance(other, (str, int)) else [other]
            if name == "drop":  # order-preserving, unknown labels are an error
                missing = [o for o in other if o not in self.labels]
                if missing and kwargs.get("errors", "raise") == "raise":
                    _raise("KeyError", "%r not found in axis" % missing, node)
                return IndexV([l for l in self.labels if l not in other])
            if name == "append":
                return IndexV(self.labels + other)
            sort = kwargs.get("sort", None if name != "intersection" else False)
            if name == "difference":
                res = [l for l in self.labels if l not in other]
            elif name == "union":
                res = self.labels + [o for o in other if o not in self.labels]
            else:
                res = [l for l in self.labels if l in other]
            # pandas set operations return a *sorted* result unless sort=False (intersection: unsorted by default)
            if sort is not False:
                try:
                    res = sorted(set(res)) if name != "intersection" else sorted(res)
                except TypeError:
                    pass
            else:
                res = [x for i, x in enumerate(res) if x not in res[:i]]
            return IndexV(res)
        if name == "sort_values":
            return IndexV(sorted(self.labels))
        if name == "to_numpy":
            return ArrV(self.labels)
        return list(self.labels)


class ArrV:
    def __init__(self, data=()):
        self.data = list(data)

    def m_isinstance(self, interp, c):
        return isinstance(c, Ext) and c.name == "numpy.ndarray"

    def m_getitem(self, interp, idx, node):
        if isinstance(idx, MaskV):
            if len(idx.bits) != len(self.data):
                _raise("IndexError", "boolean index did not match indexed array", node)
            return ArrV([x for x, b in zip(self.data, idx.bits) if b])
        if isinstance(idx, slice):
            return ArrV(self.data[idx])
        if isinstance(idx, int):
            try:
                return self.data[idx]
            except IndexError as e:
                _raise("IndexError", str(e), node)
        if isinstance(idx, ArrV) or isinstance(idx, list):
            pos = idx.data if isinstance(idx, ArrV) else idx
            return ArrV([self.data[i] for i in pos])
        raise Undecided("array[%r]" % (idx,))

    def m_compare(self, interp, op, a, b, node):
        import ast as _ast
        other = b if a is self else a
        if isinstance(op, (_ast.Eq, _ast.NotEq)) and not hasattr(other, "data"):
            return MaskV([(x == other) == isinstance(op, _ast.Eq) for x in self.data])
        raise Undecided("comparison on an array")

    def m_getattr(self, interp, attr):
        if attr in ("astype", "tolist", "copy"):
            return BoundExt(self, attr)
        if attr == "shape":
            return (len(self.data),)
        raise Undecided("array.%s" % attr)

    def m_method(self, interp, name, args, kwargs, node):
        if name == "astype":
            return ArrV(cast(self.data, args[0] if args else kwargs.get("dtype")))
        if name == "tolist":
            return list(self.data)
        return ArrV(self.data)

    def __eq__(self, o):
        return isinstance(o, ArrV) and self.data == o.data

    def __hash__(self):
        return hash(("A", len(self.data)))

    def __repr__(self):
        return "array(%r)" % (self.data,)

    def m_len(self, interp):
        return len(self.data)

    def m_iter(self, interp):
        return list(self.data)


class FrameV:
    """Model of a DataFrame: ordered columns of equally long cell lists plus row labels (``index``; None = 0..n-1).
    Column assignment from a Series aligns by row label exactly as pandas does (positional when the labels are
    identical, otherwise a re-index of the series, which requires its labels to be unique)."""

    def __init__(self, cols=None, index=None):
        self.cols = dict(cols or {})
        self.index = list(index) if index is not None else None

    def nrows(self):
        if self.index is not None:
            return len(self.index)
        return max([len(v) for v in self.cols.values()] or [0])

    def labels(self):
        return list(self.index) if self.index is not None else list(range(self.nrows()))

    def __eq__(self, o):
        return isinstance(o, FrameV) and list(self.cols.items()) == list(o.cols.items()) and self.labels() == o.labels()

    def __hash__(self):
        return hash(("F", len(self.cols)))

    def __repr__(self):
        idx = "" if self.index is None or self.index == list(range(len(self.index))) else " index=%r" % (self.index,)
        return "Frame(%s%s)" % (", ".join("%s=%r" % kv for kv in self.cols.items()), idx)

    def m_setitem(self, interp, key, v):
        empty = not self.cols and self.nrows() == 0
        if isinstance(v, SeriesV):
            if empty:
                self.index = None if v.index is None else list(v.index)
                vals = list(v.data)
            elif v.labels() == self.labels():
                vals = list(v.data)
            else:
                lab = v.labels()
                if len(set(map(repr, lab))) != len(lab):
                    _raise("ValueError", "cannot reindex on an axis with duplicate labels")
                look = {repr(l): x for l, x in zip(lab, v.data)}
                vals = [look.get(repr(l)) for l in self.labels()]
        elif isinstance(v, (ArrV, list)):
            vals = list(v.data) if isinstance(v, ArrV) else list(v)
            if not empty and len(vals) != self.nrows():
                _raise("ValueError", "Length of values (%d) does not match length of index (%d)" % (len(vals), self.nrows()))
        elif isinstance(v, (str, int, float)) or v is None:
            vals = [v] * self.nrows()
        else:
            raise Undecided("frame column assigned from %s" % type(v).__name__)
        self.cols[key] = vals

    def m_getitem(self, interp, key, node):
        if isinstance(key, (str, int)):
            if key in self.cols:
                return SeriesV(self.cols[key], self.index)
            _raise("KeyError", repr(key), node)
        if isinstance(key, (IndexV, list)):
            names = key.labels if isinstance(key, IndexV) else key
            missing = [k for k in names if k not in self.cols]
            if missing:
                _raise("KeyError", "%r not in index" % missing, node)
            return FrameV({k: list(self.cols[k]) for k in names}, self.index)
        raise Undecided("frame[%r]" % (key,))

    def m_getattr(self, interp, attr):
        if attr == "columns":
            return IndexV(list(self.cols))
        if attr == "shape":
            return (self.nrows(), len(self.cols))
        if attr == "index":
            return IndexV(self.labels())
        if attr in ("copy", "pop", "to_csv"):
            return BoundExt(self, attr)
        if attr == "loc":
            return FrameLoc(self)
        raise Undecided("DataFrame.%s" % attr)

    def m_method(self, interp, name, args, kwargs, node):
        if name == "copy":
            return FrameV({k: list(v) for k, v in self.cols.items()}, self.index)
        if name == "pop":
            if args[0] not in self.cols:
                _raise("KeyError", repr(args[0]), node)
            return SeriesV(self.cols.pop(args[0]), self.index)
        if name == "to_csv":
            vfs = getattr(interp, "vfs", None)
            path = args[0] if args else kwargs.get("path_or_buf")
            if vfs is None or not isinstance(path, str) or set(kwargs) - {"path_or_buf", "index", "header", "sep"}:
                raise Undecided("DataFrame.to_csv with these arguments")
            index, header, sep = kwargs.get("index", True), kwargs.get("header", True), kwargs.get("sep", ",")
            if not isinstance(index, bool) or not isinstance(header, bool):
                raise Undecided("DataFrame.to_csv with non-boolean index / header")
            names = ([getattr(self, "index_name", None) or ""] if index else []) + [str(c) for c in self.cols]
            lines = [sep.join(names)] if header else []
            for i, lab in enumerate(self.labels()):
                cells = ([lab] if index else []) + [self.cols[c][i] for c in self.cols]
                lines.append(sep.join(interp.to_str(x) if x is not None else "" for x in cells))
            vfs.files[path] = "\n".join(lines) + "\n"
            return None
        raise Undecided("DataFrame.%s" % name)

    def m_len(self, interp):
        return self.nrows()

    def m_isinstance(self, interp, c):
        return isinstance(c, Ext) and c.name == "pandas.DataFrame"


class FrameLoc:
    """``frame.loc[rows, column]`` for a full-slice / single row label and one column name."""

    def __init__(self, frame):
        self.f = frame

    def m_getitem(self, interp, idx, node):
        f = self.f
        if not (isinstance(idx, tuple) and len(idx) == 2):
            raise Undecided("frame.loc[%r]" % (idx,))
        rows, col = idx
        if isinstance(col, (IndexV, list)):
            sub = f.m_getitem(interp, col, node)
            return sub if rows == slice(None, None, None) else FrameLoc(sub).m_getitem(interp, (rows, slice(None, None, None)), node)
        if col == slice(None, None, None) and rows == slice(None, None, None):
            return f
        if col not in f.cols:
            _raise("KeyError", repr(col), node)
        if rows == slice(None, None, None):
            return SeriesV(f.cols[col], f.index)
        labs = f.labels()
        hits = [i for i, l in enumerate(labs) if l == rows and type(l) is type(rows)]
        if len(hits) != 1:
            _raise("KeyError", repr(rows), node)
        return f.cols[col][hits[0]]


class TableV:
    """Result of ``pd.read_csv(path, sep, header=None)``: rows of parsed cells, integer column labels."""

    def __init__(self, rows, index_col=None):
        self.rows = [list(r) for r in rows]
        self.labels = list(range(len(rows[0]))) if rows else []
        self.index = None
        if index_col is not None:
            j = self.labels.index(index_col)
            self.index = [r.pop(j) for r in self.rows]
            self.labels.pop(j)  # the remaining columns keep their original labels

    def m_getattr(self, interp, attr):
        if attr in ("pop",):
            return BoundExt(self, attr)
        if attr == "columns":
            return ColsV(self.labels)
        if attr == "iloc":
            return ILoc(self)
        if attr == "index":
            return IndexV(self.index if self.index is not None else list(range(len(self.rows))))
        if attr == "shape":
            return (len(self.rows), len(self.labels))
        if attr == "values":
            return ArrV([list(r) for r in self.rows])
        raise Undecided("read_csv frame .%s" % attr)

    def m_setattr(self, interp, attr, v):
        if attr == "columns" and isinstance(v, ColsV) and len(v.labels) == len(self.labels):
            self.labels = list(v.labels)
            return
        raise Undecided("assignment to read_csv frame .%s" % attr)

    def m_method(self, interp, name, args, kwargs, node):
        if name == "pop":
            if args[0] not in self.labels:
                _raise("KeyError", repr(args[0]), node)
            j = self.labels.index(args[0])
            col = [r.pop(j) for r in self.rows]
            self.labels.pop(j)
            return SeriesV(col)
        raise Undecided(name)

    def m_len(self, interp):
        return len(self.rows)


class ColsV:
    def __init__(self, labels):
        self.labels = list(labels)

    def m_binop(self, interp, op, a, b, node):
        import ast as _ast
        if a is self and isinstance(b, int) and isinstance(op, (_ast.Sub, _ast.Add)):
            return ColsV([x - b if isinstance(op, _ast.Sub) else x + b for x in self.labels])
        raise Undecided("arithmetic on column labels")

    def m_iter(self, interp):
        return list(self.labels)


class ILoc:
    def __init__(self, table):
        self.t = table

    def m_getitem(self, interp, idx, node):
        t = self.t
        if isinstance(idx, tuple) and len(idx) == 2 and isinstance(idx[0], int) and idx[1] == slice(None, None, None):
            if not -len(t.rows) <= idx[0] < len(t.rows):
                _raise("IndexError", "single positional indexer is out-of-bounds", node)
            return SeriesV(t.rows[idx[0]], index=list(t.labels))
        if isinstance(idx, int):
            return SeriesV(t.rows[idx], index=list(t.labels))
        raise Undecided("iloc[%r]" % (idx,))


# ------------------------------------------------------------------------------------------ transfer table
def make_externals(vfs, listing=None):
    """Trusted semantics of the few library calls the anchored functions make."""
    ext = {}

    def _open(interp, args, kwargs, node):
        path = args[0]
        mode = args[1] if len(args) > 1 else kwargs.get("mode", "r")
        if not isinstance(path, str):
            raise Undecided("open() of a non-string path")
        vfs.opened.append((path, mode))
        if "w" in mode:
            return FileW(vfs, path)
        f = vfs.lookup(path)
        if f is None:
            _raise("FileNotFoundError", "No such file: %s" % path, node)
        vfs.last_reader = FileR(f.text() if isinstance(f, FileW) else f)
        return vfs.last_reader

    def _dataframe(interp, args, kwargs, node):
        data = args[0] if args else kwargs.get("data")
        if data is None:
            return FrameV()
        if isinstance(data, FrameV):
            return FrameV({k: list(v) for k, v in data.cols.items()}, data.index)
        if isinstance(data, dict):
            fr = FrameV()
            for k, v in data.items():
                fr.m_setitem(interp, k, v)
            return fr
        raise Undecided("pd.DataFrame(%s)" % type(data).__name__)

    def _series(interp, args, kwargs, node):
        data = args[0] if args else kwargs.get("data")
        index = args[1] if len(args) > 1 else kwargs.get("index")
        dtype = args[2] if len(args) > 2 else kwargs.get("dtype")
        if isinstance(index, IndexV):
            index = index.labels
        if data is None:
            return SeriesV([])
        if isinstance(data, (SeriesV, ArrV)):
            return SeriesV(cast(data.data, dtype, node), index if index is not None else getattr(data, "index", None))
        if isinstance(data, (list, tuple)):
            return SeriesV(cast(data, dtype, node), index)
        raise Undecided("pd.Series(%s)" % type(data).__name__)

    def _asarray(interp, args, kwargs, node):
        v = args[0]
        dtype = args[1] if len(args) > 1 else kwargs.get("dtype")
        if isinstance(v, IndexV):
            return ArrV(v.labels)
        if isinstance(v, (SeriesV, ArrV)):
            return ArrV(cast(v.data, dtype, node))
        if isinstance(v, (list, tuple)):
            return ArrV(cast(v, dtype, node))
        raise Undecided("np.asarray(%s)" % type(v).__name__)

    def _concat(interp, args, kwargs, node):
        objs = list(interp.iterate(args[0] if args else kwargs["objs"]))
        if kwargs.get("axis", 0) not in (0, "index") or len(args) > 1:
            raise Undecided("pd.concat along another axis")
        if kwargs.get("keys") is not None or kwargs.get("join", "outer") != "outer" or \
                set(kwargs) - {"objs", "axis", "ignore_index", "join", "keys", "sort"}:
            raise Undecided("pd.concat with keys / inner join")
        ignore = bool(kwargs.get("ignore_index", False))
        if all(isinstance(o, FrameV) for o in objs):
            cols = []
            for o in objs:
                for c in o.cols:
                    if c not in cols:
                        cols.append(c)
            out = FrameV(index=None if ignore else [l for o in objs for l in o.labels()])
            for c in cols:
                out.cols[c] = [x for o in objs for x in (o.cols[c] if c in o.cols else [None] * o.nrows())]
            return out
        if all(isinstance(o, SeriesV) for o in objs):
            return SeriesV([x for o in objs for x in o.data], None if ignore else [l for o in objs for l in o.labels()])
        raise Undecided("pd.concat of %s" % [type(o).__name__ for o in objs])

    def _read_csv(interp, args, kwargs, node):
        path = args[0]
        sep = kwargs.get("sep", ",")
        hdr = kwargs.get("header", "infer")
        if hdr in (0, "infer"):
            f = vfs.lookup(path)
            if f is None:
                _raise("FileNotFoundError", path, node)
            if set(kwargs) - {"sep", "header"}:
                raise Undecided("read_csv options %s" % sorted(set(kwargs) - {"sep", "header"}))
            lines = [l for l in (f.text() if isinstance(f, FileW) else f).splitlines() if l.strip()]
            names, seen = [], {}
            for nme in lines[0].split(sep):
                nme = nme.strip() or "Unnamed: %d" % len(names)
                if nme in seen:  # pandas mangles duplicate column names
                    seen[nme] += 1
                    nme = "%s.%d" % (nme, seen[nme])
                else:
                    seen[nme] = 0
                names.append(nme)
            fr = FrameV()
            rows = [[to_float(c) if to_float(c) is not None else c.strip() for c in l.split(sep)] for l in lines[1:]]
            for j, nme in enumerate(names):
                fr.cols[nme] = [r[j] if j < len(r) else None for r in rows]
            return fr
        if hdr is not None:
            raise Undecided("read_csv(header=%r)" % (hdr,))
        f = vfs.lookup(path)
        if f is None:
            _raise("FileNotFoundError", path, node)
        vfs.opened.append((path, "r"))
        rows = []
        for line in (f.text() if isinstance(f, FileW) else f).splitlines():
            if line.strip():
                rows.append([to_float(c) if to_float(c) is not None else c.strip() for c in line.split(sep)])
        ic = kwargs.get("index_col")
        if ic is not None and not isinstance(ic, int):
            raise Undecided("read_csv(index_col=%r)" % (ic,))
        if set(kwargs) - {"sep", "header", "index_col", "delimiter"}:
            raise Undecided("read_csv options %s" % sorted(set(kwargs) - {"sep", "header", "index_col"}))
        return TableV(rows, ic)

    def _zip_longest(interp, args, kwargs, node):
        return list(itertools.zip_longest(*[interp.iterate(a) for a in args], fillvalue=kwargs.get("fillvalue")))

    def _wrap(interp, args, kwargs, node):
        if not isinstance(args[0], str):
            raise Undecided("textwrap.wrap of a non-string")
        return textwrap.wrap(args[0], **{k: v for k, v in kwargs.items() if k in ("width", "initial_indent", "subsequent_indent")})

    def _fill(interp, args, kwargs, node):
        if not isinstance(args[0], str):
            raise Undecided("textwrap.fill of a non-string")
        return textwrap.fill(args[0], **{k: v for k, v in kwargs.items() if k in ("width", "initial_indent", "subsequent_indent")})

    def _join(interp, args, kwargs, node):
        if not all(isinstance(a, str) for a in args):
            raise Undecided("os.path.join of non-strings")
        return posixpath.join(*args)

    def _reduce(fn):
        def h(interp, args, kwargs, node):
            v = args[0]
            bits = v.bits if isinstance(v, MaskV) else (v.data if isinstance(v, ArrV) else list(interp.iterate(v)))
            if kwargs or len(args) > 1:
                raise Undecided("numpy reduction with axis / options")
            return fn(bits)
        return h

    def _arange(interp, args, kwargs, node):
        if kwargs or not all(isinstance(a, int) for a in args):
            raise Undecided("np.arange with non-integer arguments")
        return ArrV(list(range(*args)))

    def _index(interp, args, kwargs, node):
        data = args[0] if args else kwargs.get("data", [])
        return IndexV(list(interp.iterate(data)))

    class _IdentityDecorator:
        def m_call(self, interp, args, kwargs, node):
            return args[0]

    def _decorator_factory(interp, args, kwargs, node):
        """functools.lru_cache / cache / wraps: transparent for a single call (memoisation across calls is judged by the
        statelessness rule, not here)."""
        from ._c18_mini import Func
        if len(args) == 1 and not kwargs and isinstance(args[0], Func) and node is not None:
            return args[0]
        return _IdentityDecorator()

    ext.update({
        "functools.lru_cache": _decorator_factory, "functools.cache": _decorator_factory, "functools.wraps": lambda i, a, k, n: _IdentityDecorator(),
        "pandas.Index": _index,
        "numpy.arange": _arange,
        "numpy.all": _reduce(all), "numpy.any": _reduce(any), "numpy.sum": _reduce(sum),
        "numpy.count_nonzero": _reduce(lambda b: sum(1 for x in b if x)),
        "numpy.logical_not": lambda i, a, k, n: a[0].m_invert(i),
        "builtins.open": _open,
        "pandas.DataFrame": _dataframe,
        "pandas.Series": _series,
        "pandas.concat": _concat,
        "pandas.read_csv": _read_csv,
        "numpy.asarray": _asarray,
        "numpy.array": _asarray,
        "itertools.zip_longest": _zip_longest,
        "textwrap.wrap": _wrap,
        "textwrap.fill": _fill,
        "os.makedirs": lambda i, a, k, n: None,
        "os.path.join": _join,
        "os.path.exists": lambda i, a, k, n: True,
        "os.path.isdir": lambda i, a, k, n: True,
        "os.path.isfile": lambda i, a, k, n: vfs.lookup(a[0]) is not None,
        "os.path.dirname": lambda i, a, k, n: posixpath.dirname(a[0]),
        "os.path.basename": lambda i, a, k, n: posixpath.basename(a[0]),
        "os.listdir": lambda i, a, k, n: list(listing or []),
    })
    return ext
