"""C14 -- closed-form transformers (partial): the clauses visible in the shape of the code.

R1  length / position maps (abstract interpretation, array terms): PaddingTransformer, TruncationTransformer,
    SlidingWindowSegmenter, TSInterpolator grids, interval slices of IntervalSegmenter /
    RandomIntervalSegmenter / RandomIntervalFeatureExtractor.
R2  rule-name <-> operator tables and option forwarding: Imputer dispatch, CosineTransformer, MeanTransformer,
    ACF / PACF keyword forwarding, Tabularizer / ColumnConcatenator converters, TabularToSeriesAdaptor,
    every constructor option is read on a path from fit / transform.
R3  row correspondence: every per-instance loop reads input row i, writes output row i, in the iteration
    order of the instances, without state carried between rows.

Not decided (DESIGN 3/C14): the numeric formulas (PAA frame means, interpolated values, ACF, slopes).
"""
import ast
from fractions import Fraction

from ..absint import Frame, State, SelfV, Rng, Tup, K, Opq, Alt, Arr, as_lin_val
from ..cfg import CFG
from ..index import AnalysisError, dotted
from ..lin import Lin, Facts
from .. import astq
from ._c14_dom import (XInterp, Src, Cell, Sub, Buf, AccList, ListV, Pad, Strided, Lsp, Pieces, Piece, Rows, Row, Cols,
                       EVec, CallV, Loc, Inst, KS, NDS, carried_names, target_names, reordered, as_listv, shape_of, subst, walk, ret_values, ZERO, ONE)

PADDER = "sktime/transformations/panel/padder.py"
TRUNC = "sktime/transformations/panel/truncation.py"
INTERP = "sktime/transformations/panel/interpolate.py"
REDUCE = "sktime/transformations/panel/reduce.py"
COMPOSE = "sktime/transformations/panel/compose.py"
SEGMENT = "sktime/transformations/panel/segment.py"
PAA = "sktime/transformations/panel/dictionary_based/_paa.py"
EXTRACT = "sktime/transformations/panel/summarize/_extract.py"
SLOPE = "sktime/transformations/panel/slope.py"
IMPUTE = "sktime/transformations/series/impute.py"
COS = "sktime/transformations/series/cos.py"
ACF = "sktime/transformations/series/acf.py"
ADAPT = "sktime/transformations/series/adapt.py"
SUMMARIZE = "sktime/transformations/series/summarize.py"

NO_INLINE = ("check_is_fitted", "check_window_length", "check_random_state", "_concat_nested_arrays", "_get_random",
             "check_X", "check_series", "from_nested_to_2d_array", "from_2d_array_to_nested", "from_3d_numpy_to_2d_array",
             "_get_time_index", "clone")


CONSTRUCT = ("RandomIntervalSegmenter",)


def sym(name):
    return Lin.sym(name)


# --------------------------------------------------------------------- aggregate helpers
def agg_shape(repo, module, fn):
    """Normal form of helpers such as ``max(map(lambda s: len(s), row)) over rows``:
    nested tuple like ('max', ('max', ('len', ('elem', ('elem', 'P'))))) or None."""
    params = astq.param_names(fn)
    if len(params) != 1:
        return None
    local = {st.name: st for st in fn.body if isinstance(st, ast.FunctionDef)}
    rets = [st for st in fn.body if isinstance(st, ast.Return)]
    if len(rets) != 1 or rets[0].value is None:
        return None

    def builtin(name, env):
        return name not in env and name not in local and repo.resolve_name(module, name) is None

    def apply(f, arg, env, locs):
        if isinstance(f, ast.Lambda):
            ps = [a.arg for a in f.args.args]
            if len(ps) != 1:
                return None
            e2 = dict(env)
            e2[ps[0]] = arg
            return ev(f.body, e2, locs)
        if isinstance(f, ast.Name):
            if f.id in locs:
                g = locs[f.id]
                ps = astq.param_names(g)
                inner = {st.name: st for st in g.body if isinstance(st, ast.FunctionDef)}
                rr = [st for st in g.body if isinstance(st, ast.Return)]
                if len(ps) != 1 or len(rr) != 1 or rr[0].value is None:
                    return None
                return ev(rr[0].value, {ps[0]: arg}, dict(locs, **inner))
            if f.id == "len" and builtin("len", env):
                return ("len", arg)
        return None

    def ev(e, env, locs):
        if isinstance(e, ast.Name):
            return env.get(e.id)
        if isinstance(e, ast.Call) and isinstance(e.func, ast.Name) and not e.keywords:
            nm = e.func.id
            if nm in ("max", "min") and builtin(nm, env) and len(e.args) == 1:
                a = e.args[0]
                inner = None
                if isinstance(a, ast.Call) and isinstance(a.func, ast.Name) and a.func.id == "map" and builtin("map", env) \
                        and len(a.args) == 2:
                    xs = ev(a.args[1], env, locs)
                    inner = apply(a.args[0], ("elem", xs), env, locs) if xs is not None else None
                elif isinstance(a, (ast.GeneratorExp, ast.ListComp)) and len(a.generators) == 1 and not a.generators[0].ifs \
                        and isinstance(a.generators[0].target, ast.Name):
                    xs = ev(a.generators[0].iter, env, locs)
                    if xs is not None:
                        e2 = dict(env)
                        e2[a.generators[0].target.id] = ("elem", xs)
                        inner = ev(a.elt, e2, locs)
                return (nm, inner) if inner is not None else None
            if nm == "len" and builtin("len", env) and len(e.args) == 1:
                x = ev(e.args[0], env, locs)
                return ("len", x) if x is not None else None
            if nm in locs and len(e.args) == 1:
                x = ev(e.args[0], env, locs)
                return apply(e.func, x, env, locs) if x is not None else None
        return None

    return ev(rets[0].value, {params[0]: "P"}, local)


def agg_kind(shape):
    for k in ("max", "min"):
        if shape == (k, (k, ("len", ("elem", ("elem", "P"))))):
            return k
    return None


def all_rows_panel(v):
    """Name of the panel if ``v`` is the list of all its rows in order (``[X.iloc[i, :].values for i in range(n)]``)."""
    v = as_listv(v)
    if isinstance(v, ListV) and isinstance(v.it, Rng) and v.var is not None and isinstance(v.elem, Sub):
        s = v.elem
        if isinstance(s.base, Src) and s.how == "iloc" and len(s.spec) == 1 and s.spec[0] == ("i", v.var) \
                and v.it == Rng(ZERO, s.base.shape[0]):
            return s.base
    return None


# ------------------------------------------------------------------------------- hooks
def hooks(it, frame, call, fname, args, kwargs, st):
    simple = (fname or "").split(".")[-1]
    sym_ = it.repo.resolve_dotted(frame.module, fname) if fname else None
    target = sym_.dotted if sym_ is not None else None
    if target == "sktime.utils.validation.panel.check_X":
        a = args[0] if args else kwargs.get("X")
        if isinstance(a, Src):
            def flag(k):
                v = kwargs.get(k)
                return isinstance(v, K) and v.v is True
            uni = flag("enforce_univariate")
            n, c, m = (Lin.sym("%s(%s)" % (d, a.name)) for d in "ncm")
            if uni:
                c = ONE
            if flag("coerce_to_numpy"):
                return Src(a.name, "np3", [n, c, m])
            if flag("coerce_to_pandas"):
                return Src(a.name, "nested", [n, c])
            if a.kind in ("nested", "np3"):
                return Src(a.name, a.kind, [n, c] if a.kind == "nested" else [n, c, m])
            return Src(a.name, "either", [n, c])
        return Opq("check_X", args)
    if target == "sktime.utils.validation.series.check_series":
        return args[0] if args else kwargs.get("Z", Opq("check_series"))
    if simple == "check_is_fitted":
        return K(None)
    if target in ("sktime.utils.data_processing.from_nested_to_2d_array",):
        a = args[0] if args else kwargs.get("X")
        rn = kwargs.get("return_numpy")
        src = a
        if isinstance(a, CallV) and a.name == "pandas.DataFrame" and len(a.args) == 1:
            src = a.args[0]
        if isinstance(src, Sub) and isinstance(src.base, Src) and src.how == "item" and len(src.spec) == 1 and src.spec[0][0] == "x":
            # X[column label] of a nested frame: one column, all rows in order
            b = src.base
            return Src("%s[%r]" % (b.name, src.spec[0][1]), "np2" if isinstance(rn, K) and rn.v is True else "frame2d",
                       [b.shape[0], Lin.sym("m(%s)" % b.name)])
        if isinstance(src, Src):
            return Src(src.name, "np2" if isinstance(rn, K) and rn.v is True else "frame2d",
                       [src.shape[0], Lin.sym("m(%s)" % src.name)])
        return NotImplemented
    if target == "sktime.utils.data_processing._get_time_index":
        a = args[0] if args else None
        if isinstance(a, Src):
            return Arr("time_index(%s)" % a.name, Lin.sym("m(%s)" % a.name), "index")
    if sym_ is not None and sym_.kind == "func" and args:
        shp = _agg_cache(it.repo, sym_.module, sym_.target)
        if shp is not None:
            panel = all_rows_panel(args[0])
            if panel is not None:
                kind = agg_kind(shp)
                return Lin.sym("%slen(%s)" % (kind, panel.name)) if kind else Lin.sym("agg?(%s)" % panel.name)
    if sym_ is not None and sym_.kind == "class" and sym_.target.name in CONSTRUCT and "*" not in kwargs:
        cls = sym_.target
        hit = it.repo.lookup_method(cls, "__init__")
        if hit is not None and frame.depth < it.inline_depth:
            inst = Inst(cls)
            it.inline_fn(hit[0].module, hit[1], inst, hit[0], False, args, kwargs, st, frame)
            return inst
    if isinstance(call.func, ast.Attribute):
        recv = it.ev(call.func.value, st, frame)
        meth = call.func.attr
        if isinstance(recv, SelfV) and recv.cls is not None:
            hit = it.repo.lookup_method(recv.cls, meth)
            if hit is not None and args:
                shp = _agg_cache(it.repo, hit[0].module, hit[1])
                if shp is not None:
                    panel = all_rows_panel(args[0])
                    if panel is not None:
                        kind = agg_kind(shp)
                        return Lin.sym("%slen(%s)" % (kind, panel.name)) if kind else Lin.sym("agg?(%s)" % panel.name)
        if meth == "randint" and isinstance(recv, CallV) and recv.name.endswith("check_random_state"):
            return _randint(it, args, kwargs, st)
    return NotImplemented


_AGG = {}


def _agg_cache(repo, module, fn):
    key = id(fn)
    if key not in _AGG or _AGG[key][0] is not fn:
        _AGG[key] = (fn, agg_shape(repo, module, fn))
    return _AGG[key][1]


def _randint(it, args, kwargs, st):
    """numpy RandomState.randint(low, high=None, size=None): integers in [low, high) (or [0, low))."""
    low = args[0] if args else kwargs.get("low")
    high = args[1] if len(args) > 1 else kwargs.get("high")
    if high is None or (isinstance(high, K) and high.v is None):
        low, high = ZERO, low

    def el(v):
        if isinstance(v, EVec):
            return v.elem
        return as_lin_val(v)

    lo, hi = el(low), el(high)
    if lo is None or hi is None:
        return Opq("randint", args)
    it.uid += 1
    r = Lin.sym("rand#%d" % it.uid)
    it.gfact(st, lo, "<=", r, "randint lower bound (inclusive)")
    it.gfact(st, r, "<=", hi - 1, "randint upper bound (exclusive)")
    return EVec(r)


def mk_interp(repo, **kw):
    kw.setdefault("no_inline", NO_INLINE)
    return XInterp(repo, extra_hooks=hooks, **kw)


def run_method(repo, it, selfv, name, args, facts=None):
    hit = repo.lookup_method(selfv.cls, name)
    if hit is None:
        raise AnalysisError("method %s.%s missing" % (selfv.cls.name, name))
    k, fn = hit
    a = dict(args)
    if not k.is_static(name):
        a["self"] = selfv
    st = State(facts=facts if facts is not None else Facts())
    traces, fst = it.run_function(Frame(k.module, fn, selfv.cls, k), a, st)
    return traces, fst, k, fn


def attr_after(traces, sv, name):
    """Value of ``self.<name>`` at the normal returns of a method (None if unset or path-dependent)."""
    vals = []
    for s, o in traces:
        if o[0] in ("return", "fall"):
            v = s.heap.get((id(sv), name))
            if v is None:
                return None
            if not any(v is w or v == w for w in vals):
                vals.append(v)
    return vals[0] if len(vals) == 1 else None


def match(v, target):
    """True: ``v`` is ``target``; None: ``v`` is some unmodelled function of ``target`` (undecided); False: unrelated."""
    if v is not None and (v is target or v == target):
        return True
    if v is not None and any(x is target or x == target for x in walk(v)):
        return None
    return False


def normal_returns(traces):
    return [(s, o[1]) for s, o in traces if o[0] == "return"]


def one_return(ctx, rule, construct, traces, loc):
    rets = normal_returns(traces)
    vals = []
    for s, v in rets:
        if not any(v is w or v == w for _, w in vals):
            vals.append((s, v))
    if len(vals) != 1:
        ctx.undecided(rule, construct, "expected one return value, found %d: %r" % (len(vals), [v for _, v in vals][:3]), loc)
        return None, None
    return vals[0]


# ----------------------------------------------------------------------------- R1: pad
def pos_how(how):
    """Positional access?  ``.iloc`` and plain slices are positional, ``.loc`` is by label."""
    return how in ("iloc", "item")


def r1_pad(ctx, repo):
    cls = repo.cls(PADDER + ":PaddingTransformer")
    mod = cls.module
    P, L = sym("pad_length_"), sym("L")
    # ---- _create_pad(series)
    it = mk_interp(repo)
    selfv = SelfV(cls)
    selfv.attrs.update(pad_length_=P, pad_length=sym("pad_length"))
    series = Src("series", "series", [L])
    traces, fst, k, fn = run_method(repo, it, selfv, "_create_pad", {"series": series})
    loc = ctx.loc(mod, fn)
    c = "PaddingTransformer._create_pad"
    s, buf = one_return(ctx, "R1", c + ":value", traces, loc)
    if buf is not None:
        if not isinstance(buf, Buf):
            ctx.undecided("R1", c + ":value", "return value is not a fresh array: %r" % (buf,), loc)
        else:
            ctx.check(buf.shape == [P], "R1", c + ":length", "padded cell has length pad_length_",
                      "padded cell has length %r, expected the fitted pad_length_" % (buf.shape,), loc)
            ctx.check(match(buf.fill, Opq("self.fill_value")), "R1", c + ":fill", "unfilled positions hold self.fill_value",
                      "unfilled positions hold %r, expected self.fill_value" % (buf.fill,), loc)
            check_copy_map(ctx, c + ":map", buf, series, L, loc)
    # ---- fit
    for scen, val, want in (("None", K(None), sym("maxlen(X)")), ("given", sym("pad_length"), sym("pad_length"))):
        it = mk_interp(repo)
        sv = SelfV(cls)
        sv.attrs.update(pad_length=val)
        traces, fst, k, fn = run_method(repo, it, sv, "fit", {"X": Src("X", "raw")})
        got = attr_after(traces, sv, "pad_length_")
        ctx.check(None if got is None or isinstance(got, Opq) else got == want, "R1",
                  "PaddingTransformer.fit[pad_length=%s]:pad_length_" % scen,
                  "pad_length_ = %r" % (want,), "pad_length_ is %r, expected %r" % (got, want), ctx.loc(mod, fn))
    # ---- helper
    fn = repo.func(PADDER, "_get_max_length")
    shp = agg_shape(repo, mod, fn)
    ctx.check(None if shp is None else agg_kind(shp) == "max", "R1", "padder._get_max_length:shape",
              "max over rows of max over cells of len", "helper computes %r, expected max(max(len))" % (shp,), ctx.loc(mod, fn))
    # ---- transform
    it = mk_interp(repo)
    sv = SelfV(cls)
    sv.attrs.update(pad_length_=P, pad_length=sym("pad_length"))
    X = Src("X", "raw")
    traces, fst, k, fn = run_method(repo, it, sv, "transform", {"X": X})
    loc = ctx.loc(mod, fn)
    c = "PaddingTransformer.transform"
    s, ret = one_return(ctx, "R1", c + ":value", traces, loc)
    if ret is None:
        return
    guard_tight(ctx, c + ":guard", it, s.facts, sym("maxlen(X)") - P, "max cell length > pad_length_", loc)
    cells = per_cell(ctx, c + ":per-cell", ret, loc)
    if cells is not None:
        cell, val = cells
        ok = isinstance(val, Buf) and len(val.stores) == 1 and any(v == cell for v in walk(val.stores[0].value))
        ctx.check(ok, "R1", c + ":cell-padded", "every cell is replaced by the padding of that same cell",
                  "cell value %r is not the padding of cell %r" % (val, cell), loc)


def check_copy_map(ctx, construct, buf, series, L, loc):
    """The buffer receives the whole series at positions [0, len(series))."""
    if len(buf.stores) != 1:
        ctx.check(False if not buf.stores else None, "R1", construct, "", "expected exactly one store of the series into the padded "
                  "array, found %d" % len(buf.stores), loc)
        return
    st = buf.stores[0]
    src = st.value
    slo, shi, how = ZERO, L, "item"
    if isinstance(src, Sub) and src.base == series and len(src.spec) == 1 and src.spec[0][0] in ("s", "a"):
        if src.spec[0][0] == "s":
            slo = src.spec[0][1] if src.spec[0][1] is not None else ZERO
            shi = src.spec[0][2] if src.spec[0][2] is not None else L
        how = src.how
    elif src == series:
        pass
    else:
        ctx.undecided("R1", construct, "stored value is not a slice of the series: %r" % (src,), loc)
        return
    if len(st.spec) != 1 or st.spec[0][0] not in ("s", "a"):
        ctx.undecided("R1", construct, "store target is not a slice: %r" % (st.spec,), loc)
        return
    tlo = (st.spec[0][1] if st.spec[0][0] == "s" and st.spec[0][1] is not None else ZERO)
    thi = (st.spec[0][2] if st.spec[0][0] == "s" and st.spec[0][2] is not None else buf.shape[0])
    ok = tlo == ZERO and slo == ZERO and thi == L and shi == L and pos_how(how) and pos_how(st.how)
    ctx.check(ok, "R1", construct, "out[0:len) = series[0:len) (identity position map)",
              "store out[%r:%r] = series%s[%r:%r]; expected out[0:len(series)] = series[0:len(series)] by position"
              % (tlo, thi, "" if how == "item" else "." + how, slo, shi), loc,
              witness={"target": [repr(tlo), repr(thi)], "source": [repr(slo), repr(shi)]})


def guard_tight(ctx, construct, it, facts, lin, what, loc):
    """The surviving trace knows exactly ``lin <= 0`` (the guard rejects iff lin > 0)."""
    f = it.floor_facts(facts)
    sl = f.slack(lin)
    if sl is None:
        ctx.violation("R1", construct, "transform does not reject %s (no dominating guard bounds %r)" % (what, lin), loc)
    else:
        ctx.check(sl == 0, "R1", construct, "rejects exactly when %s" % what,
                  "guard is off by %s: it %s" % (sl, "accepts inputs with %s" % what if sl > 0 else
                                                  "also rejects inputs that fit exactly"), loc, witness={"slack": str(sl)})


def per_cell(ctx, construct, ret, loc):
    """``pd.DataFrame([pd.Series([f(cell) for cell in row]) for row in rows])`` -> (Cell, f(cell)) with the
    obligations that rows / columns are enumerated completely and in order."""
    if not (isinstance(ret, CallV) and ret.name == "pandas.DataFrame" and ret.arg(0, "data") is not None):
        ctx.undecided("R1", construct, "transform does not return pd.DataFrame(rows): %r" % (ret,), loc)
        return None
    rows = as_listv(ret.arg(0, "data"))
    if not (isinstance(rows, ListV) and isinstance(rows.elem, CallV) and rows.elem.name == "pandas.Series"
            and isinstance(as_listv(rows.elem.arg(0, "data")), ListV)):
        ctx.undecided("R1", construct, "rows are not pd.Series(list of cells): %r" % (rows,), loc)
        return None
    inner = as_listv(rows.elem.arg(0, "data"))
    panel = all_rows_panel(as_listv(rows.it))
    if panel is None:
        inner_seq = reordered(rows.it)
        if inner_seq is not None or isinstance(as_listv(rows.it), ListV):
            ctx.violation("R1", construct, "the outer list does not enumerate all rows of X in their order: it iterates %r" % (rows.it,), loc)
        else:
            ctx.undecided("R1", construct, "cannot see which rows the outer list enumerates: %r" % (rows.it,), loc)
        return None
    want_row = Sub(panel, [("i", rows.var)], "iloc")
    if inner.it != want_row:
        if reordered(inner.it) is not None or isinstance(inner.it, (Sub, Cell)):
            ctx.violation("R1", construct, "the inner list enumerates %r, expected the cells of row %r in order" % (inner.it, want_row), loc)
        else:
            ctx.undecided("R1", construct, "cannot see which cells the inner list enumerates: %r" % (inner.it,), loc)
        return None
    ctx.ok("R1", construct, "every cell (all rows x all columns, in order) is transformed", loc)
    return Cell(panel, rows.var, inner.var), inner.elem


# ------------------------------------------------------------------------ R1: truncate
def r1_truncate(ctx, repo):
    cls = repo.cls(TRUNC + ":TruncationTransformer")
    mod = cls.module
    LO, UP = sym("lower_"), sym("upper")
    fn = cls.methods.get("get_min_length")
    if fn is None:
        raise AnalysisError("anchor missing: TruncationTransformer.get_min_length")
    shp = agg_shape(repo, mod, fn)
    ctx.check(None if shp is None else agg_kind(shp) == "min", "R1", "TruncationTransformer.get_min_length:shape",
              "min over rows of min over cells of len", "helper computes %r, expected min(min(len))" % (shp,), ctx.loc(mod, fn))
    for scen, val, want in (("None", K(None), sym("minlen(X)")), ("given", sym("lower"), sym("lower"))):
        it = mk_interp(repo)
        sv = SelfV(cls)
        sv.attrs.update(lower=val)
        traces, fst, k, fn = run_method(repo, it, sv, "fit", {"X": Src("X", "raw")})
        got = attr_after(traces, sv, "lower_")
        ctx.check(None if got is None or isinstance(got, Opq) else got == want, "R1",
                  "TruncationTransformer.fit[lower=%s]:lower_" % scen, "lower_ = %r" % (want,),
                  "lower_ is %r, expected %r" % (got, want), ctx.loc(mod, fn))
    for scen, up, want in (("None", K(None), Rng(ZERO, LO)), ("given", UP, Rng(LO, UP))):
        it = mk_interp(repo)
        sv = SelfV(cls)
        sv.attrs.update(lower_=LO, upper=up, lower=sym("lower"))
        traces, fst, k, fn = run_method(repo, it, sv, "transform", {"X": Src("X", "raw")})
        loc = ctx.loc(mod, fn)
        c = "TruncationTransformer.transform[upper=%s]" % scen
        s, ret = one_return(ctx, "R1", c + ":value", traces, loc)
        if ret is None:
            continue
        guard_tight(ctx, c + ":guard", it, s.facts, LO - sym("minlen(X)"), "min cell length < lower_", loc)
        cells = per_cell(ctx, c + ":per-cell", ret, loc)
        if cells is None:
            continue
        cell, val = cells
        if not (isinstance(val, Sub) and val.base == cell and len(val.spec) == 1):
            ctx.undecided("R1", c + ":cell-index", "cell value is not an indexing of that cell: %r" % (val,), loc)
            continue
        sp = val.spec[0]
        got = sp[1] if sp[0] == "v" else (Rng(sp[1] if sp[1] is not None else ZERO, sp[2]) if sp[0] == "s" and sp[2] is not None else None)
        verdict = None
        if got is not None and val.how == "loc":
            verdict = False
        elif got is not None and (val.how == "iloc" or sp[0] == "s"):
            verdict = got == want
        ctx.check(verdict, "R1", c + ":cell-index",
                  "every cell is indexed by position with %r" % (want,),
                  "cells are indexed %s with %r, expected positions %r"
                  % ("by label" if val.how != "iloc" else "by position", got, want), loc, witness={"index": repr(got)})
        if scen == "None" and isinstance(got, Rng):
            f = it.floor_facts(s.facts)
            f.add_cmp(sym("minlen(X)"), "<=", cell.length, "shortest cell <= cell length")
            ctx.check(f.entails((got.hi - 1) - (cell.length - 1)) is not None, "R1", c + ":in-bounds",
                      "last kept position < len(cell) follows from the guard",
                      "last kept position %r is not bounded by the cell length" % (got.hi - 1,), loc)



# ------------------------------------------------------------------- R1: sliding windows
def dedupe(events):
    seen, out = set(), []
    for e in events:
        k = (id(e.node), tuple(id(l.node) for l in e.loops))
        if k not in seen:
            seen.add(k)
            out.append(e)
    return out


def own_loops(acc, loops):
    return [l for l in loops if l not in acc.created_loops]


def r1_sliding(ctx, repo):
    cls = repo.cls(SEGMENT + ":SlidingWindowSegmenter")
    mod = cls.module
    W = sym("w")
    it = mk_interp(repo)
    sv = SelfV(cls)
    sv.attrs.update(window_length=W)
    X = Src("X", "raw")
    traces, fst, k, fn = run_method(repo, it, sv, "transform", {"X": X})
    loc = ctx.loc(mod, fn)
    c = "SlidingWindowSegmenter.transform"
    s, ret = one_return(ctx, "R1", c + ":value", traces, loc)
    if ret is None:
        return
    n, m = sym("n(X)"), sym("m(X)")
    X2 = Src("X", "np2", [n, m])
    df = None
    if isinstance(ret, CallV) and ret.name == "transpose" and not ret.args and not ret.kwargs:
        df = ret.recv
    elif isinstance(ret, Opq) and ret.tag == "attr:T" and len(ret.args) == 1:
        df = ret.args[0]
    if not (isinstance(df, CallV) and df.name == "pandas.DataFrame" and not df.args and not df.kwargs):
        ctx.undecided("R1", c + ":output", "return value is not the transpose of a frame filled column by column: %r" % (ret,), loc)
        return
    stores = dedupe([e for e in it.events if e.kind == "store" and e.base is df])
    if len(stores) != 1 or len(stores[0].spec) != 1 or stores[0].spec[0][0] != "i" or not isinstance(stores[0].value, AccList):
        ctx.undecided("R1", c + ":output", "expected one column store df[i] = <list of windows>, found %r" % (stores,), loc)
        return
    e = stores[0]
    ivar = e.spec[0][1]
    lp = [l for l in e.loops if l.var is not None and l.var == ivar]
    ctx.check(len(lp) == 1 and lp[0].it == Rng(ZERO, n), "R1", c + ":output",
              "column i of the frame (row i after the transpose) is instance i, i in range(n_instances)",
              "frame columns are keyed by %r in %r, expected the instance index over range(n_instances)" % (ivar, [l.it for l in lp]), loc)
    acc = e.value
    if len(acc.appends) != 1 or acc.other:
        ctx.undecided("R1", c + ":windows", "window list is not filled by a single append: %r" % (acc,), loc)
        return
    val, loops, atoms, node = acc.appends[0]
    own = own_loops(acc, loops)
    win = val.arg(0, "data") if isinstance(val, CallV) and val.name == "pandas.Series" else val
    if not (len(own) == 1 and own[0].var is not None and isinstance(win, Sub) and isinstance(win.base, Strided)
            and len(win.spec) == 1 and win.spec[0][0] == "i"):
        ctx.undecided("R1", c + ":windows", "appended value is not row j of a strided view: %r under %r" % (val, own), loc)
        return
    jvar, sv_ = own[0].var, win.base
    ctx.check(own[0].it == Rng(ZERO, m) and win.spec[0][1] == jvar, "R1", c + ":window-count",
              "one window per time point, window j = view[j], j in range(n_timepoints)",
              "windows are enumerated as view[%r] for %r, expected view[j], j in range(n_timepoints)" % (win.spec[0][1], own[0].it), loc)
    ctx.check(sv_.shape == [m, W], "R1", c + ":view-shape", "strided view has shape (n_timepoints, window_length)",
              "strided view has shape %r, expected (n_timepoints, window_length)" % (sv_.shape,), loc)
    ctx.check(sv_.unit, "R1", c + ":hop", "both strides are one item: element (j, k) = padded[j + k] (hop size 1)",
              "strides are not (itemsize, itemsize) of the padded row: element (j, k) is not padded[j + k]", loc)
    pad = sv_.base
    if not isinstance(pad, Pad):
        ctx.undecided("R1", c + ":pad", "strided base is not the padded row: %r" % (pad,), loc)
        return
    want_p = it.floor_sym(W.scale(Fraction(1, 2)), State())
    ctx.check(pad.left == want_p and pad.right == want_p, "R1", c + ":pad-amount",
              "both ends are padded floor(window_length / 2) times",
              "padding is (%r, %r), documented floor(window_length/2) = %r on both ends" % (pad.left, pad.right, want_p), loc,
              witness={"left": repr(pad.left), "right": repr(pad.right)})
    ctx.check(pad.mode == "edge", "R1", c + ":pad-mode", "padding repeats the edge values",
              "padding mode is %r, documented: repeat the first / last value" % (pad.mode,), loc)
    src_ok = pad.base == Sub(X2, [("i", ivar)])
    if not src_ok and not (isinstance(pad.base, Sub) and pad.base.base == X2):
        src_ok = None
    ctx.check(src_ok, "R1", c + ":pad-source", "row i of the padded data is the padding of X[i]",
              "row %r of the output is built from %r, expected X[%r]" % (ivar, pad.base, ivar), loc)
    plen = shape_of(pad)
    f = it.all_facts(s.facts)
    if plen and plen[0] is not None and sv_.unit:
        last = (sv_.shape[0] - 1) + (sv_.shape[1] - 1)
        q = last - (plen[0] - 1)
        ctx.check(it.all_facts(s.facts, q).entails(q) is not None, "R1", c + ":in-bounds",
                  "last element read (n-1)+(w-1) lies inside the padded row of length %r" % (plen[0],),
                  "the strided view reads position %r of a padded row of length %r (out-of-bounds memory, silently)"
                  % (last, plen[0]), loc, witness={"last_read": repr(last), "padded_length": repr(plen[0])})
    bufs = []
    for ev_ in it.events:
        if ev_.kind == "store" and isinstance(ev_.base, Buf) and ev_.base not in bufs:
            bufs.append(ev_.base)
    pb = [b for b in bufs if any(isinstance(x.value, Pad) for x in b.stores)]
    sb = [b for b in bufs if any(isinstance(x.value, Strided) for x in b.stores)]
    if len(pb) == 1 and plen:
        ctx.check(pb[0].shape == [n, plen[0]], "R1", c + ":padded-shape", "padded buffer is (n_instances, n_timepoints + 2*pad)",
                  "padded buffer has shape %r but each padded row has length %r" % (pb[0].shape, plen[0]), loc)
    else:
        ctx.undecided("R1", c + ":padded-shape", "padded buffer not identified", loc)
    if len(sb) == 1:
        ctx.check(sb[0].shape == [n] + sv_.shape, "R1", c + ":subsequence-shape",
                  "subsequence buffer is (n_instances, n_timepoints, window_length)",
                  "subsequence buffer has shape %r, each strided view %r" % (sb[0].shape, sv_.shape), loc)
    else:
        ctx.undecided("R1", c + ":subsequence-shape", "subsequence buffer not identified", loc)
    _ = f


# ------------------------------------------------------------------ R1: interpolation
def r1_interpolate(ctx, repo):
    cls = repo.cls(INTERP + ":TSInterpolator")
    mod = cls.module
    LEN, L = sym("length"), sym("L")
    it = mk_interp(repo)
    sv = SelfV(cls)
    sv.attrs.update(length=LEN)
    cell = Src("cell", "series", [L])
    traces, fst, k, fn = run_method(repo, it, sv, "_resize_cell", {"cell": cell})
    loc = ctx.loc(mod, fn)
    c = "TSInterpolator._resize_cell"
    s, ret = one_return(ctx, "R1", c + ":value", traces, loc)
    if ret is not None:
        f = ret.recv if isinstance(ret, CallV) and ret.name == "__call__" else None
        if not (isinstance(f, CallV) and f.name == "scipy.interpolate.interp1d"):
            ctx.undecided("R1", c + ":value", "return value is not interp1d(...)(grid): %r" % (ret,), loc)
        else:
            sig = ["x", "y", "kind", "axis", "copy", "bounds_error", "fill_value", "assume_sorted"]
            b = dict(f.kwargs)
            for nm, a in zip(sig, f.args):
                b.setdefault(nm, a)
            xs, ys = b.get("x"), b.get("y")
            ctx.check(None if not isinstance(xs, Lsp) else (xs.start == ZERO and xs.stop == ONE and as_lin_val(xs.num) == L
                                                           and xs.endpoint == K(True)),
                      "R1", c + ":source-grid", "source grid = linspace(0, 1, len(cell))",
                      "source grid is %r, expected linspace(0, 1, len(cell))" % (xs,), loc)
            ctx.check(match(ys, cell), "R1", c + ":source-values", "interpolant is fitted on the values of that cell",
                      "interpolant is fitted on %r, expected the cell's values" % (ys,), loc)
            kind = b.get("kind", K("linear"))
            ctx.check(kind == K("linear"), "R1", c + ":kind", "linear interpolation",
                      "interpolation kind is %r, documented linear" % (kind,), loc)
            extra = sorted(set(b) - {"x", "y", "kind"})
            ctx.check(not extra, "R1", c + ":options", "no extrapolation / axis options",
                      "interp1d is called with extra options %r" % (extra,), loc)
            g = ret.args[0] if len(ret.args) == 1 and not ret.kwargs else None
            ok = None
            if isinstance(g, Lsp) and isinstance(xs, Lsp):
                ok = g.start == xs.start and g.stop == xs.stop and as_lin_val(g.num) == LEN and g.endpoint == K(True)
            ctx.check(ok, "R1", c + ":target-grid", "target grid = linspace(0, 1, self.length): same end points, requested length",
                      "target grid is %r; expected %r points sharing the end points of the source grid %r" % (g, LEN, xs), loc)
    # cell-wise application chain
    for meth, arg, target in (("_resize_col", Src("coll", "series"), "_resize_cell"), ("transform", Src("X", "raw"), "_resize_col")):
        it = mk_interp(repo)
        sv = SelfV(cls)
        sv.attrs.update(length=LEN)
        pname = astq.param_names(cls.methods[meth], skip_self=True)[0] if meth in cls.methods else None
        if pname is None:
            raise AnalysisError("anchor missing: TSInterpolator.%s" % meth)
        traces, fst, k, fn = run_method(repo, it, sv, meth, {pname: arg})
        s, ret = one_return(ctx, "R1", "TSInterpolator.%s:apply" % meth, traces, ctx.loc(mod, fn))
        if ret is None:
            continue
        ok = None
        if isinstance(ret, CallV) and ret.name == "apply":
            recv = ret.recv
            same = isinstance(recv, Src) and recv.name == arg.name
            fobj = ret.arg(0, "func")
            ok = same and fobj == Opq("self." + target) and repo.lookup_method(cls, target) is not None \
                and not (set(ret.kwargs) - {"func"}) and len(ret.args) <= 1
        ctx.check(ok, "R1", "TSInterpolator.%s:apply" % meth, "%s applies self.%s to every element" % (meth, target),
                  "%s returns %r, expected <input>.apply(self.%s)" % (meth, ret, target), ctx.loc(mod, fn))


# -------------------------------------------------------------------- R1: interval slices
def extent_of(elem_loop):
    """Half-open extent [lo, hi) that the generic element of the fitted interval table denotes, with a description."""
    itv, var = elem_loop.it, elem_loop.var
    if isinstance(itv, Rows):
        r = Row(itv, var)
        return r.start(), r.end(), "row (start, end) of %s" % itv.name
    if isinstance(itv, Pieces):
        p = Piece(itv, var)
        return p.first(), p.last() + 1, "index array first..last (a piece of np.array_split)"
    if isinstance(itv, Cols) and len(itv.items) == 2:
        a, b = itv.items
        ea = a.elem if isinstance(a, EVec) else None
        eb = b.elem if isinstance(b, EVec) else None
        if ea is not None and eb is not None:
            return ea, eb, "row (start, end) of column_stack([starts, ends])"
    return None


def generic_cols(it, cols):
    return [it._generic_elem(x) for x in cols.items]


def check_slices(ctx, construct, it, panel, time_axis, facts, loc, fitted_len=None):
    """Every slice of ``panel`` along the time axis made while iterating the fitted intervals is start:end."""
    loads = dedupe([e for e in it.events if e.kind == "load" and e.base == panel and any(x[0] == "s" for x in e.spec)])
    if len(loads) != 1:
        ctx.undecided("R1", construct, "expected one interval slice of the input, found %d" % len(loads), loc)
        return
    e = loads[0]
    spec = list(e.spec) + [("a",)] * (len(panel.shape) - len(e.spec))
    others = [x for i, x in enumerate(spec) if i != time_axis]
    if any(x[0] == "x" for x in spec):
        ctx.undecided("R1", construct, "interval slice with an index that is not understood: %r" % (e.spec,), loc)
        return
    if len(spec) != len(panel.shape) or spec[time_axis][0] != "s" or any(x != ("a",) for x in others):
        ctx.violation("R1", construct, "the interval slice %r does not select all instances and a range of the time axis (axis %d)"
                      % (e.spec, time_axis), loc)
        return
    lo = spec[time_axis][1] if spec[time_axis][1] is not None else ZERO
    hi = spec[time_axis][2]
    lp = [l for l in e.loops if isinstance(l.it, (Rows, Pieces, Cols)) or isinstance(l.it, ListV) and isinstance(l.it.it, Pieces)]
    if len(lp) != 1 or hi is None:
        ctx.undecided("R1", construct, "slice is not made inside one loop over the fitted intervals: %r" % (e.loops,), loc)
        return
    itv = lp[0].it
    if isinstance(itv, Cols):
        g = generic_cols(it, itv)
        ext = (g[0], g[1], "row (start, end) of column_stack([starts, ends])") if len(g) == 2 and all(isinstance(x, Lin) for x in g) else None
    elif isinstance(itv, ListV):
        pc = Piece(itv.it, itv.var)
        ext = (pc.first(), pc.last() + 1, "index array first..last (a piece of np.array_split)")
    else:
        ext = extent_of(lp[0])
    if ext is None:
        ctx.undecided("R1", construct, "fitted interval table not understood: %r" % (itv,), loc)
        return
    wlo, whi, what = ext
    ctx.check(lo == wlo and hi == whi, "R1", construct,
              "slice [%r : %r) covers exactly the fitted interval (%s)" % (lo, hi, what),
              "slice [%r : %r) but the fitted interval (%s) covers [%r : %r)%s"
              % (lo, hi, what, wlo, whi, " -- the last point of every interval is dropped" if hi + 1 == whi else ""), loc,
              witness={"slice": [repr(lo), repr(hi)], "fitted": [repr(wlo), repr(whi)]})
    if isinstance(itv, Cols) and fitted_len is not None and lo == wlo and hi == whi:
        for nm, q in (("start>=0", ZERO - lo), ("end<=n_timepoints", hi - fitted_len), ("non-empty", lo + 1 - hi)):
            ctx.check(it.all_facts(facts, q).entails(q) is not None, "R1", construct + ":" + nm,
                      "fitted random interval satisfies %s" % nm,
                      "the bounds of the random draws do not entail %s (obligation %r <= 0)" % (nm, q), loc)


def r1_intervals(ctx, repo):
    seg = repo.cls(SEGMENT + ":IntervalSegmenter")
    rseg = repo.cls(SEGMENT + ":RandomIntervalSegmenter")
    mod = seg.module
    n, m = sym("n(X)"), sym("m(X)")
    X2 = Src("X", "np2", [n, m])
    scen = [
        (seg, "IntervalSegmenter[intervals=ndarray]", {"intervals": Rows("intervals")}),
        (seg, "IntervalSegmenter[intervals=int]", {"intervals": sym("intervals")}),
        (rseg, "RandomIntervalSegmenter[n_intervals=random]",
         {"n_intervals": K("random"), "min_length": K(None), "max_length": K(None)}),
        (rseg, "RandomIntervalSegmenter[n_intervals=other]",
         {"n_intervals": K("sqrt"), "min_length": sym("min_length"), "max_length": K(None)}),
        (rseg, "RandomIntervalSegmenter[n_intervals=other,min_length=None]",
         {"n_intervals": K("sqrt"), "min_length": K(None), "max_length": K(None)}),
    ]
    for cls, tag, attrs in scen:
        it = mk_interp(repo, no_inline=NO_INLINE + ("_get_n_from_n_timepoints",))
        sv = SelfV(cls)
        sv.attrs.update(attrs)
        pre = Facts()
        pre.add_cmp(sym("min_length"), ">=", 1, "min_length validated by check_window_length")
        pre.add_cmp(m, ">=", 1, "series are non-empty")
        traces, fst, k, fn = run_method(repo, it, sv, "fit", {"X": Src("X", "raw")}, pre)
        fit_rets = normal_returns(traces)
        locf = ctx.loc(k.module, fn)
        if len(fit_rets) != 1:
            ctx.undecided("R1", tag + ":fit", "expected one normal path through fit, found %d" % len(fit_rets), locf)
            continue
        fs = fit_rets[0][0]
        table = sv.attrs.get("intervals_")
        if tag.endswith("[intervals=int]"):
            pcs = [v for v in walk(table) if isinstance(v, Pieces)] if table is not None else []
            ok = len(pcs) == 1 and pcs[0].base == Rng(ZERO, m) and pcs[0].k == sym("intervals")
            ctx.check(ok if len(pcs) == 1 else None, "R1", tag + ":fit-pieces",
                      "fitted pieces = np.array_split(arange(n_timepoints), intervals): a partition of the whole series",
                      "fitted pieces are %r, expected array_split(arange(n_timepoints), intervals)" % (table,), locf)
        st0 = State(facts=fs.facts, heap=fs.heap)
        hit = repo.lookup_method(cls, "transform")
        kt, ft = hit
        traces, _ = it.run_function(Frame(kt.module, ft, cls, kt), {"self": sv, "X": Src("X", "raw")}, st0)
        loct = ctx.loc(kt.module, ft)
        rets = normal_returns(traces)
        if not rets:
            ctx.undecided("R1", tag + ":slice", "transform has no normal return", loct)
            continue
        check_slices(ctx, tag + ":slice", it, X2, 1, rets[0][0].facts, loct, fitted_len=m)
        ctx.count("scenarios")
    # RandomIntervalFeatureExtractor: fit delegates to a RandomIntervalSegmenter, transform slices the 3-d array
    fe = repo.cls(EXTRACT + ":RandomIntervalFeatureExtractor")
    it = mk_interp(repo, no_inline=NO_INLINE + ("_get_n_from_n_timepoints", "_check_features"))
    sv = SelfV(fe)
    opts = {"n_intervals": K("sqrt"), "min_length": sym("min_length"), "max_length": K(None),
            "random_state": Opq("random_state")}
    sv.attrs.update(opts)
    pre = Facts()
    pre.add_cmp(sym("min_length"), ">=", 1, "min_length validated by check_window_length")
    pre.add_cmp(m, ">=", 1, "series are non-empty")
    traces, fst, k, fn = run_method(repo, it, sv, "fit", {"X": Src("X", "raw"), "y": Opq("y")}, pre)
    locf = ctx.loc(k.module, fn)
    tag = "RandomIntervalFeatureExtractor"
    fit_rets = normal_returns(traces)
    inner = sv.attrs.get("_interval_segmenter")
    if len(fit_rets) != 1 or not isinstance(inner, SelfV) or inner.cls is not rseg:
        ctx.undecided("R1", tag + ".fit:delegate", "fit does not build one RandomIntervalSegmenter: %r" % (inner,), locf)
    else:
        for p, v in opts.items():
            ctx.check(inner.attrs.get(p) == v, "R1", tag + ".fit:option:" + p,
                      "segmenter option %s = self.%s" % (p, p),
                      "the inner segmenter receives %s=%r, expected self.%s" % (p, inner.attrs.get(p), p), locf)
        ctx.check(sv.attrs.get("intervals_") is not None and sv.attrs.get("intervals_") == inner.attrs.get("intervals_")
                  and isinstance(inner.attrs.get("intervals_"), Cols), "R1", tag + ".fit:intervals_",
                  "intervals_ are the intervals fitted by the inner segmenter on X",
                  "intervals_ is %r, inner segmenter fitted %r" % (sv.attrs.get("intervals_"), inner.attrs.get("intervals_")), locf)
        fs = fit_rets[0][0]
        st0 = State(facts=fs.facts, heap=fs.heap)
        kt, ft = repo.lookup_method(fe, "transform")
        traces, _ = it.run_function(Frame(kt.module, ft, fe, kt), {"self": sv, "X": Src("X", "raw")}, st0)
        rets = normal_returns(traces)
        loct = ctx.loc(kt.module, ft)
        if not rets:
            ctx.undecided("R1", tag + ".transform:slice", "transform has no normal return", loct)
        else:
            X3 = Src("X", "np3", [n, ONE, m])
            check_slices(ctx, tag + ".transform:slice", it, X3, 2, rets[0][0].facts, loct, fitted_len=m)



# =============================================================================== R2
FILLNA_SIG = ["value", "method", "axis", "inplace", "limit", "downcast"]
INTERPOLATE_SIG = ["method", "axis", "limit", "inplace", "limit_direction", "limit_area", "downcast"]
EDGE = ("ffill", "backfill", "bfill", "pad")


def bound(cv, sig):
    b = dict(cv.kwargs)
    for nm, a in zip(sig, cv.args):
        b.setdefault(nm, a)
    return b


def is_edge_fill(v):
    """``x.fillna(method=<literal edge method>)`` -- the documented clean-up of leading / trailing gaps."""
    if isinstance(v, CallV) and v.name == "fillna":
        b = bound(v, FILLNA_SIG)
        mth = b.get("method")
        return set(b) == {"method"} and isinstance(mth, K) and not isinstance(mth, KS) and mth.v in EDGE
    return False


def peel_edge(v, n=2):
    while n and is_edge_fill(v) and isinstance(v.recv, CallV):
        v = v.recv
        n -= 1
    return v


def edge_filled_of(v, z0):
    """Is ``v`` = z0 with leading/trailing fills applied (ffill and backfill in some order)?"""
    seen = []
    while is_edge_fill(v):
        seen.append(bound(v, FILLNA_SIG)["method"].v)
        v = v.recv
    fw = any(x in ("ffill", "pad") for x in seen)
    bw = any(x in ("backfill", "bfill") for x in seen)
    return v == z0 and fw and bw


IMPUTER_TABLE = {
    "constant": ("fillna", "value", "self.value"),
    "backfill": ("fillna", "method", "self.method"),
    "bfill": ("fillna", "method", "self.method"),
    "pad": ("fillna", "method", "self.method"),
    "ffill": ("fillna", "method", "self.method"),
    "mean": ("fillna", "value", "Z.mean()"),
    "median": ("fillna", "value", "Z.median()"),
    "nearest": ("interpolate", "method", "self.method"),
    "linear": ("interpolate", "method", "self.method"),
    "random": ("apply", None, "self._get_random"),
    "drift": ("forecast", None, "PolynomialTrendForecaster(degree=1)"),
    "forecaster": ("forecast", None, "self.forecaster"),
}


def r2_imputer(ctx, repo):
    cls = repo.cls(IMPUTE + ":Imputer")
    mod = cls.module
    fn = repo.func(IMPUTE, "Imputer.transform")
    loc = ctx.loc(mod, fn)
    pname = astq.param_names(fn, skip_self=True)[0]
    literals = set()
    for nd in ast.walk(fn):
        if isinstance(nd, ast.Compare):
            for x in [nd.left] + list(nd.comparators):
                for y in (x.elts if isinstance(x, (ast.List, ast.Tuple, ast.Set)) else [x]):
                    if isinstance(y, ast.Constant) and isinstance(y.value, str):
                        literals.add(y.value)
    names = sorted(set(IMPUTER_TABLE) | literals) + ["<unknown>"]
    for name in names:
        c = "Imputer.transform[method=%s]" % name
        it = mk_interp(repo, no_inline=NO_INLINE + ("_check_method",))
        sv = SelfV(cls)
        sv.attrs.update(method=KS(name, "self.method"), missing_values=K(None))
        Z = Src("Z", "series")
        traces, fst, k, f2 = run_method(repo, it, sv, "transform", {pname: Z})
        rets = normal_returns(traces)
        if name not in IMPUTER_TABLE:
            ctx.check(not rets, "R2", c + ":rejected", "an undocumented rule name is rejected on every path",
                      "rule name %r is not documented but transform returns %r" % (name, [v for _, v in rets][:1]), loc)
            continue
        if not rets:
            ctx.violation("R2", c + ":operator", "the documented rule name %r is rejected on every path" % name, loc)
            continue
        s, ret = one_return(ctx, "R2", c + ":value", traces, loc)
        if ret is None:
            continue
        op, kw, what = IMPUTER_TABLE[name]
        core = peel_edge(ret)
        if not isinstance(core, CallV):
            ctx.violation("R2", c + ":operator", "no imputation operator is applied for %r: transform returns %r" % (name, ret), loc)
            continue
        if op in ("fillna", "interpolate"):
            ok = core.name == op and core.recv == Z
            b = bound(core, FILLNA_SIG if op == "fillna" else INTERPOLATE_SIG) if core.name == op else {}
            ctx.check(ok, "R2", c + ":operator", "%r -> Z.%s(...)" % (name, op),
                      "%r dispatches to %s on %r, documented Z.%s" % (name, core.name, core.recv, op), loc)
            if not ok:
                continue
            got = b.get(kw)
            if what == "self.value":
                good = match(got, Opq("self.value"))
            elif what == "self.method":
                good = isinstance(got, KS) and got.origin == "self.method"
            else:
                agg = what[2:-2]
                good = isinstance(got, CallV) and got.name == agg and got.recv == Z and not got.args and not got.kwargs
            ctx.check(good and (set(b) == {kw}), "R2", c + ":argument", "%s(%s=%s)" % (op, kw, what),
                      "%s is called with %r, documented %s=%s only" % (op, b, kw, what), loc, witness={"bound": repr(b)})
        elif op == "apply":
            a0 = core.arg(0, "func")
            ctx.check(core.name == "apply" and core.recv == Z and isinstance(a0, Opq) and a0.tag == "lambda:_get_random", "R2",
                      c + ":operator", "'random' -> element-wise replacement by self._get_random",
                      "'random' dispatches to %r" % (core,), loc)
        else:
            imputer_forecast(ctx, repo, it, c, name, ret, Z, loc)
    # 'random': values between the minimum and the maximum of the series, drawn from check_random_state(self.random_state)
    gr = cls.methods.get("_get_random")
    if gr is None:
        ctx.undecided("R2", "Imputer._get_random:range", "helper _get_random not found", loc)
    else:
        it = mk_interp(repo, no_inline=tuple(x for x in NO_INLINE if x != "_get_random"))
        sv = SelfV(cls)
        Z = Src("Z", "series")
        traces, fst, k, f2 = run_method(repo, it, sv, "_get_random", {astq.param_names(gr, skip_self=True)[0]: Z})
        vals = [v for _, v in normal_returns(traces)]
        good = None
        if vals:
            good = True
            for v in vals:
                a = None
                if isinstance(v, Opq) and v.tag == "randint":
                    a = list(v.args)
                elif isinstance(v, CallV) and v.name in ("uniform", "randint") and isinstance(v.recv, CallV) \
                        and v.recv.name.endswith("check_random_state") and v.recv.args == [Opq("self.random_state")]:
                    a = list(v.args)
                if a is None or len(a) != 2:
                    good = None
                    break
                lo_ok = isinstance(a[0], CallV) and a[0].name == "min" and a[0].recv == Z
                hi_ok = isinstance(a[1], CallV) and a[1].name == "max" and a[1].recv == Z
                if not (lo_ok and hi_ok):
                    good = False
        ctx.check(good, "R2", "Imputer._get_random:range", "random values are drawn from [Z.min(), Z.max()] on every branch",
                  "random values are drawn from %r, documented between Z.min() and Z.max()" % (vals,), ctx.loc(mod, gr))
    # missing_values placeholder replacement
    it = mk_interp(repo, no_inline=NO_INLINE + ("_check_method",))
    sv = SelfV(cls)
    sv.attrs.update(method=KS("mean", "self.method"), missing_values=sym("missing_values"))
    Z = Src("Z", "series")
    traces, fst, k, f2 = run_method(repo, it, sv, "transform", {pname: Z})
    c = "Imputer.transform[missing_values given]"
    cands = [v for _, v in normal_returns(traces) if any(isinstance(x, CallV) and x.name == "replace" for x in walk(v))]
    ret = cands[0] if cands and all(x == cands[0] for x in cands) else None
    if ret is None:
        ctx.check(False if not cands else None, "R2", c + ":replace", "",
                  "no path replaces the placeholder self.missing_values before imputing", loc)
    if ret is not None:
        core = peel_edge(ret)
        rep = core.recv if isinstance(core, CallV) else None
        ok = isinstance(rep, CallV) and rep.name == "replace" and rep.recv == Z
        if ok:
            b = bound(rep, ["to_replace", "value", "inplace", "limit", "regex", "method"])
            nan = b.get("value")
            ok = b.get("to_replace") == sym("missing_values") and isinstance(nan, Opq) and nan.tag == "attr:nan" \
                and set(b) == {"to_replace", "value"}
        ctx.check(ok, "R2", c + ":replace", "placeholder values are replaced by NaN before the rule is applied",
                  "the rule is applied to %r, expected Z.replace(to_replace=self.missing_values, value=np.nan)" % (rep,), loc)


def imputer_forecast(ctx, repo, it, c, name, ret, Z, loc):
    core = peel_edge(ret)
    if not (isinstance(core, CallV) and core.name == "fillna"):
        ctx.violation("R2", c + ":operator", "%r does not end in fillna(value=<in-sample prediction>): %r" % (name, ret), loc)
        return
    b = bound(core, FILLNA_SIG)
    pred = b.get("value")
    if not (isinstance(pred, CallV) and pred.name == "predict" and set(b) == {"value"}):
        ctx.violation("R2", c + ":operator", "%r fills with %r, documented the in-sample prediction of the forecaster" % (name, pred), loc)
        return
    fc = pred.recv
    if name == "forecaster":
        good = fc == Opq("self.forecaster")
    else:
        good = isinstance(fc, CallV) and fc.name.endswith(".PolynomialTrendForecaster") and not fc.args \
            and fc.kwargs == {"degree": ONE}
    ctx.check(good, "R2", c + ":forecaster", "%r uses %s" % (name, IMPUTER_TABLE[name][2]),
              "%r predicts with %r, documented %s" % (name, fc, IMPUTER_TABLE[name][2]), loc)
    pb = bound(pred, ["fh", "X", "return_pred_int", "alpha"])
    fh = pb.get("fh")
    want = Opq("neg-range", [Rng(ZERO, sym("m(Z)"))])
    ctx.check(fh == want and set(pb) == {"fh"}, "R2", c + ":horizon", "in-sample horizon -arange(len(Z)): one step per observation",
              "prediction horizon is %r, expected -arange(len(Z))" % (fh,), loc)
    fits = [x for x in it.calls if x.name == "fit" and x.recv == fc]
    fitted = None
    if fits:
        fb = bound(fits[-1], ["y", "X", "fh"])
        fitted = fb.get("y")
    ctx.check(None if not fits else (edge_filled_of(fitted, Z) or fitted == Z), "R2", c + ":fit-data",
              "the forecaster is fitted on the series itself (gaps bridged by ffill/backfill)",
              "the forecaster is fitted on %r" % (fitted,), loc)
    ctx.check(core.recv == Z, "R2", c + ":filled-series",
              "the prediction fills the gaps of the input series",
              "fillna(value=<prediction>) is applied to %r, a copy whose gaps were already closed by ffill/backfill, so the "
              "prediction fills nothing: method=%r returns forward/backward fills, not %s values"
              % (core.recv, name, "trend" if name == "drift" else "forecaster"), loc,
              witness={"receiver": repr(core.recv)})


ACF_SIG = {"acf": ["x", "adjusted", "nlags", "qstat", "fft", "alpha", "missing"],
           "pacf": ["x", "nlags", "method", "alpha"]}
ACF_MAP = {"n_lags": "nlags"}


def r2_acf(ctx, repo):
    for cname, func in (("AutoCorrelationTransformer", "acf"), ("PartialAutoCorrelationTransformer", "pacf")):
        cls = repo.cls(ACF + ":" + cname)
        mod = cls.module
        init = cls.methods.get("__init__")
        if init is None:
            raise AnalysisError("anchor missing: %s.__init__" % cname)
        opts = astq.param_names(init, skip_self=True)
        it = mk_interp(repo)
        sv = SelfV(cls)
        Z = Src("Z", "series")
        fn = repo.func(ACF, cname + ".transform")
        pname = astq.param_names(fn, skip_self=True)[0]
        traces, fst, k, f2 = run_method(repo, it, sv, "transform", {pname: Z})
        loc = ctx.loc(mod, fn)
        c = "%s.transform" % cname
        s, ret = one_return(ctx, "R2", c + ":value", traces, loc)
        if ret is None:
            continue
        inner = ret.arg(0, "data") if isinstance(ret, CallV) and ret.name == "pandas.Series" else ret
        ok = isinstance(inner, CallV) and inner.name == "statsmodels.tsa.stattools." + func
        ctx.check(ok, "R2", c + ":operator", "%s -> statsmodels %s" % (cname, func),
                  "%s returns %r, expected statsmodels.tsa.stattools.%s" % (cname, inner, func), loc)
        if not ok:
            continue
        b = bound(inner, ACF_SIG[func])
        ctx.check(match(b.get("x"), Z), "R2", c + ":data", "applied to the validated input series",
                  "%s is applied to %r" % (func, b.get("x")), loc)
        for o in opts:
            kw = ACF_MAP.get(o, o)
            ctx.check(match(b.get(kw), Opq("self." + o)), "R2", c + ":option:" + o, "%s=self.%s" % (kw, o),
                      "option %s is forwarded as %s=%r, expected %s=self.%s" % (o, kw, b.get(kw), kw, o), loc)
        al = b.get("alpha", K(None))
        ctx.check(al == K(None), "R2", c + ":alpha", "alpha=None (no confidence intervals: a single series is returned)",
                  "alpha=%r makes %s return confidence intervals as well" % (al, func), loc)
        extra = sorted(set(b) - {"x", "alpha"} - {ACF_MAP.get(o, o) for o in opts})
        ctx.check(not extra, "R2", c + ":extra", "no unmapped keyword", "keywords %r do not correspond to a constructor option" % extra, loc)


def r2_simple(ctx, repo):
    """name <-> operator of the one-line transformers and container <-> converter tables."""
    Z = Src("Z", "series")
    for rel, cname, ext, kwargs in ((COS, "CosineTransformer", "numpy.cos", {}), (SUMMARIZE, "MeanTransformer", "numpy.mean", {"axis": ZERO})):
        cls = repo.cls(rel + ":" + cname)
        fn = repo.func(rel, cname + ".transform")
        it = mk_interp(repo)
        traces, fst, k, f2 = run_method(repo, it, SelfV(cls), "transform", {astq.param_names(fn, skip_self=True)[0]: Z})
        loc = ctx.loc(cls.module, fn)
        s, ret = one_return(ctx, "R2", cname + ".transform:value", traces, loc)
        if ret is None:
            continue
        ok = isinstance(ret, CallV) and ret.name == ext and ret.args == [Z] and ret.kwargs == kwargs
        ctx.check(ok, "R2", cname + ".transform:operator", "%s -> %s(validated input)" % (cname, ext),
                  "%s returns %r, expected %s(Z%s)" % (cname, ret, ext, "".join(", %s=%r" % kv for kv in kwargs.items())), loc)
    # Tabularizer / ColumnConcatenator
    n, c_, m = sym("n(X)"), sym("c(X)"), sym("m(X)")
    for rel, cname, wrap in ((REDUCE, "Tabularizer", None), (COMPOSE, "ColumnConcatenator", "sktime.utils.data_processing.from_2d_array_to_nested")):
        cls = repo.cls(rel + ":" + cname)
        fn = repo.func(rel, cname + ".transform")
        for kind in ("nested", "np3"):
            it = mk_interp(repo)
            X = Src("X", kind)
            traces, fst, k, f2 = run_method(repo, it, SelfV(cls), "transform", {"X": X})
            loc = ctx.loc(cls.module, fn)
            c = "%s.transform[%s]" % (cname, kind)
            s, ret = one_return(ctx, "R2", c + ":value", traces, loc)
            if ret is None:
                continue
            inner = ret
            if wrap is not None:
                ok = isinstance(ret, CallV) and ret.name == wrap and len(ret.args) == 1 and not ret.kwargs
                ctx.check(ok, "R2", c + ":renest", "the flattened table is nested again into one column",
                          "returns %r, expected %s(<flattened table>)" % (ret, wrap.split(".")[-1]), loc)
                if not ok:
                    continue
                inner = ret.args[0]
            if kind == "nested":
                good = isinstance(inner, Src) and inner.name == "X" and inner.kind == "frame2d"
                want = "from_nested_to_2d_array(X)"
            else:
                good = isinstance(inner, CallV) and inner.name == "sktime.utils.data_processing.from_3d_numpy_to_2d_array" \
                    and len(inner.args) == 1 and isinstance(inner.args[0], Src) and inner.args[0].name == "X" and not inner.kwargs
                want = "from_3d_numpy_to_2d_array(X)"
            ctx.check(good, "R2", c + ":converter", "%s input -> %s" % (kind, want),
                      "%s input is flattened by %r, expected %s" % (kind, inner, want), loc)
    # TabularToSeriesAdaptor
    cls = repo.cls(ADAPT + ":TabularToSeriesAdaptor")
    mod = cls.module
    it = mk_interp(repo, no_inline=NO_INLINE + ("_from_series_to_2d_numpy", "_from_2d_numpy_to_series"))
    sv = SelfV(cls)
    fn = repo.func(ADAPT, "TabularToSeriesAdaptor.fit")
    traces, fst, k, f2 = run_method(repo, it, sv, "fit", {astq.param_names(fn, skip_self=True)[0]: Z})
    loc = ctx.loc(mod, fn)
    tr = sv.attrs.get("transformer_")
    TO2D = "sktime.transformations.series.adapt._from_series_to_2d_numpy"
    TOSER = "sktime.transformations.series.adapt._from_2d_numpy_to_series"
    okc = isinstance(tr, CallV) and tr.name == "sklearn.base.clone" and tr.args == [Opq("self.transformer")]
    ctx.check(okc, "R2", "TabularToSeriesAdaptor.fit:clone", "transformer_ = clone(self.transformer)",
              "transformer_ is %r, expected a clone of the transformer option" % (tr,), loc)
    fits = [x for x in it.calls if x.name == "fit" and x.recv is not None and x.recv == tr]
    okf = len(fits) >= 1 and len(fits[-1].args) >= 1 and fits[-1].args[0] == CallV(TO2D, None, [Z], {})
    ctx.check(okf, "R2", "TabularToSeriesAdaptor.fit:data", "the clone is fitted on the 2-d view of the series",
              "the clone is fitted on %r" % ([x.args for x in fits],), loc)
    for meth, inner_m in (("transform", "transform"), ("inverse_transform", "inverse_transform")):
        it = mk_interp(repo, no_inline=NO_INLINE + ("_from_series_to_2d_numpy", "_from_2d_numpy_to_series"))
        sv = SelfV(cls)
        fn = repo.func(ADAPT, "TabularToSeriesAdaptor." + meth)
        traces, fst, k, f2 = run_method(repo, it, sv, meth, {astq.param_names(fn, skip_self=True)[0]: Z})
        loc = ctx.loc(mod, fn)
        c = "TabularToSeriesAdaptor.%s" % meth
        s, ret = one_return(ctx, "R2", c + ":value", traces, loc)
        if ret is None:
            continue
        ok = isinstance(ret, CallV) and ret.name == TOSER
        b = bound(ret, ["x", "index"]) if ok else {}
        zt = b.get("x")
        ok = ok and isinstance(zt, CallV) and zt.name == inner_m and zt.recv == Opq("self.transformer_") \
            and zt.args == [CallV(TO2D, None, [Z], {})] and not zt.kwargs
        ctx.check(ok, "R2", c + ":operator", "%s -> transformer_.%s(2-d view of Z)" % (meth, inner_m),
                  "%s returns %r, expected _from_2d_numpy_to_series(self.transformer_.%s(_from_series_to_2d_numpy(Z)), ...)"
                  % (meth, ret, inner_m), loc)
        if ok:
            ctx.check(b.get("index") == Opq("attr:index", [Z]), "R2", c + ":index", "result carries the index of the input series",
                      "result index is %r, expected Z.index" % (b.get("index"),), loc)


# ------------------------------------------------------------ R2: every option is read
OPTION_CLASSES = [
    (PADDER, "PaddingTransformer"), (TRUNC, "TruncationTransformer"), (INTERP, "TSInterpolator"),
    (SEGMENT, "IntervalSegmenter"), (SEGMENT, "RandomIntervalSegmenter"), (SEGMENT, "SlidingWindowSegmenter"),
    (PAA, "PAA"), (SLOPE, "SlopeTransformer"), (EXTRACT, "PlateauFinder"), (EXTRACT, "RandomIntervalFeatureExtractor"),
    (EXTRACT, "FittedParamExtractor"), (COMPOSE, "SeriesToPrimitivesRowTransformer"), (COMPOSE, "SeriesToSeriesRowTransformer"),
    (COMPOSE, "ColumnTransformer"), (IMPUTE, "Imputer"), (ACF, "AutoCorrelationTransformer"),
    (ACF, "PartialAutoCorrelationTransformer"), (ADAPT, "TabularToSeriesAdaptor"),
]
ENTRY = ("fit", "transform", "inverse_transform", "fit_transform", "update")


def reachable_reads(repo, cls):
    """Attributes of ``self`` read in methods reachable from the entry points through ``self.<method>`` references
    (concrete class resolution)."""
    seen, work, reads = set(), [m for m in ENTRY if repo.lookup_method(cls, m)], set()
    if any(isinstance(b, str) and not b.endswith("object") for b in cls.bases):
        # hooks called by an external base class (e.g. sklearn's ColumnTransformer calls _hstack)
        work += [m for m in cls.methods if m != "__init__"]
    while work:
        m = work.pop()
        if m in seen:
            continue
        seen.add(m)
        hit = repo.lookup_method(cls, m)
        if hit is None:
            continue
        k, fn = hit
        for nd in ast.walk(fn):
            if isinstance(nd, ast.Attribute) and isinstance(nd.value, ast.Name) and nd.value.id == "self" \
                    and isinstance(nd.ctx, ast.Load):
                if repo.lookup_method(cls, nd.attr) is not None and nd.attr != "__init__":
                    work.append(nd.attr)
                else:
                    reads.add(nd.attr)
            elif isinstance(nd, ast.Call) and isinstance(nd.func, ast.Attribute) and isinstance(nd.func.value, ast.Call) \
                    and dotted(nd.func.value.func) == "super":
                hit2 = repo.lookup_method(cls, nd.func.attr, after=k)
                if hit2 is not None:
                    # analyse the overridden definition as well
                    for nd2 in ast.walk(hit2[1]):
                        if isinstance(nd2, ast.Attribute) and isinstance(nd2.value, ast.Name) and nd2.value.id == "self" \
                                and isinstance(nd2.ctx, ast.Load):
                            if repo.lookup_method(cls, nd2.attr) is not None and nd2.attr != "__init__":
                                work.append(nd2.attr)
                            else:
                                reads.add(nd2.attr)
    return reads


def r2_options(ctx, repo):
    for rel, cname in OPTION_CLASSES:
        cls = repo.cls(rel + ":" + cname)
        hit = repo.lookup_method(cls, "__init__")
        if hit is None:
            ctx.undecided("R2", cname + ":options", "no constructor found in the repository", ctx.loc(cls.module, cls.node))
            continue
        k, init = hit
        consumed_ext = set()
        mro = repo.mro(cls)
        after = mro[[i for i, x in enumerate(mro) if x is k][0] + 1:]
        nxt = next((x for x in after if isinstance(x, str) and not x.endswith("object") or not isinstance(x, str) and "__init__" in x.methods), None)
        for nd in ast.walk(init):
            if isinstance(nd, ast.Call) and isinstance(nd.func, ast.Attribute) and nd.func.attr == "__init__" \
                    and isinstance(nd.func.value, ast.Call) and dotted(nd.func.value.func) == "super" \
                    and isinstance(nxt, str):
                for a in list(nd.args) + [kw.value for kw in nd.keywords]:
                    if isinstance(a, ast.Name):
                        consumed_ext.add(a.id)
        reads = reachable_reads(repo, cls)
        for p in astq.param_names(init, skip_self=True):
            if p in consumed_ext:
                ctx.ok("R2", "%s:option-read:%s" % (cname, p), "handed to the external base class constructor", ctx.loc(k.module, init),
                       nontrivial=False)
                continue
            ctx.check(p in reads, "R2", "%s:option-read:%s" % (cname, p), "self.%s is read on a path from fit/transform" % p,
                      "constructor option %r is never read by fit/transform or the methods they reach: it has no effect" % p,
                      ctx.loc(k.module, init))



# =============================================================================== R3
class _B:
    def __init__(self, body):
        self.body = body


def first_extent(v, it):
    """Extent of the first axis of a sequence-like abstract value (None if unknown)."""
    if isinstance(v, NDS):
        sh = shape_of(v)
        return sh[0] if sh else None
    if isinstance(v, Rng):
        return v.length() if v.lo == ZERO else None
    if isinstance(v, AccList):
        return it.acc_len(v)
    if isinstance(v, ListV):
        if isinstance(v.it, Rng):
            return v.it.length()
        return first_extent(v.it, it)
    return None


def r3_method(ctx, repo, rel, cname, meth, args, min_loops, attrs=None, extra_no_inline=(), via_init=False, n=None):
    """Row correspondence of every per-instance loop found in ``cname.meth``."""
    cls = repo.cls(rel + ":" + cname)
    it = mk_interp(repo, no_inline=NO_INLINE + tuple(extra_no_inline))
    sv = SelfV(cls)
    if via_init:
        hit = repo.lookup_method(cls, "__init__")
        if hit is not None:
            it.run_function(Frame(hit[0].module, hit[1], cls, hit[0]), {"self": sv}, State())
    sv.attrs.update(attrs or {})
    traces, fst, k, fn = run_method(repo, it, sv, meth, args)
    loc = ctx.loc(k.module, fn)
    base = "%s.%s" % (cname, meth)
    n = n if n is not None else sym("n(X)")
    rets = normal_returns(traces)
    if not rets:
        ctx.undecided("R3", base + ":return", "no normal return", loc)
        return
    events = dedupe(it.events)

    def aligned(v):
        e = first_extent(v, it)
        return e is not None and e == n

    # ---- candidate loops
    loops = {}
    for e in events:
        for l in e.loops:
            loops.setdefault(id(l), l)
    cands = []
    for l in loops.values():
        if l.var is None:
            continue
        direct = not isinstance(l.it, Rng) and (aligned(l.it) or reordered(l.it) is not None and aligned(reordered(l.it)))
        uses = False
        if isinstance(l.it, Rng):
            vs = _sym(l.var)
            for e in events:
                if l in e.loops and e.kind in ("load", "store") and e.spec and not isinstance(e.spec, str) \
                        and aligned_base(e, aligned) and e.spec[0][0] == "i" and vs in e.spec[0][1].symbols():
                    uses = True
        if direct or uses:
            cands.append(l)
    cands.sort(key=lambda l: (getattr(l.node, "lineno", 0), getattr(l.node, "col_offset", 0)))
    if len(cands) < min_loops:
        ctx.undecided("R3", base + ":loops", "expected at least %d per-instance loops, recognised %d" % (min_loops, len(cands)), loc)
    inst_vars = [l.var for l in cands]
    for idx, l in enumerate(cands):
        c = "%s:row-loop#%d" % (base, idx + 1)
        lloc = "%s:%s" % (k.module.relpath, getattr(l.node, "lineno", "?"))
        # (i) enumeration
        if isinstance(l.it, Rng):
            ctx.check(l.it == Rng(ZERO, n), "R3", c + ":range", "iterates range(n_instances): every instance once, in order",
                      "iterates %r, expected range(n_instances) = %r" % (l.it, Rng(ZERO, n)), lloc)
        elif reordered(l.it) is not None:
            ctx.violation("R3", c + ":range", "iterates a re-ordered view of the instances (%r): output rows no longer follow the input order"
                          % (l.it,), lloc)
        else:
            ctx.ok("R3", c + ":range", "iterates the instances themselves in order (%r)" % (l.it,), lloc)
        inside = [e for e in events if l in e.loops]
        # (ii) reads
        bad = []
        nreads = 0
        for e in inside:
            if e.kind == "load" and aligned_base(e, aligned) and e.spec and e.spec[0][0] == "i":
                nreads += 1
                if not any(e.spec[0][1] == v for v in inst_vars):
                    bad.append(e)
        if bad:
            ctx.violation("R3", c + ":reads", "row %r of the output is computed from input row %r (%r[%r])"
                          % (l.var, bad[0].spec[0][1], bad[0].base, bad[0].spec[0][1]), lloc,
                          witness={"index": repr(bad[0].spec[0][1]), "loop_var": repr(l.var)})
        else:
            ctx.ok("R3", c + ":reads", "%d reads of per-instance data, all at the loop's own instance" % nreads, lloc,
                   nontrivial=bool(nreads) or not isinstance(l.it, Rng))
        # (iii) writes
        outs = 0
        badw = None
        for e in inside:
            if e.kind == "store" and e.spec and e.spec[0][0] == "i" and (aligned_base(e, aligned) or _sym(l.var) in e.spec[0][1].symbols()):
                if innermost_inst(e, cands) is not l:
                    continue
                outs += 1
                if e.spec[0][1] != l.var:
                    badw = "result of instance %r is stored at position %r of %r" % (l.var, e.spec[0][1], e.base)
        accs = {}
        for e in inside:
            if e.kind == "append" and l not in e.base.created_loops and innermost_inst(e, cands) is l:
                accs.setdefault(id(e.base), (e.base, []))[1].append(e)
        for acc, evs in accs.values():
            outs += 1
            if len(evs) != 1:
                badw = "%d append sites add to the same result list in one iteration" % len(evs)
            elif isinstance(l.node, ast.For) and not must_execute(l.node.body, evs[0].node):
                badw = "the result of an instance is appended only on some paths through the loop body (rows would shift)"
            elif [m for m, _ in acc.other]:
                badw = "the result list is also modified by %s" % ", ".join(sorted({m for m, _ in acc.other}))
            elif via_init and acc.func is not None and acc.func is not fn and acc.func.name == "__init__":
                badw = "the result list is created in __init__ and never reset: a second call appends to the rows of the first"
        for e in inside:
            if e.kind == "append" and l in e.base.created_loops:
                continue
            if e.kind in ("append", "store") and e.value is not None:
                for x in walk(e.value):
                    if isinstance(x, AccList) and x is not e.base and l not in x.created_loops \
                            and any(l in lp for _, lp, _, _ in x.appends):
                        badw = "a list created outside the loop collects partial results of every instance and is emitted per row: " \
                               "row i contains the results of rows < i"
        if l.kind == "comp":
            outs += 1
        if badw:
            ctx.violation("R3", c + ":writes", badw, lloc)
        elif outs == 0:
            ctx.undecided("R3", c + ":writes", "no per-instance output (indexed store / append) recognised in the loop", lloc)
        else:
            ctx.ok("R3", c + ":writes", "output row = loop instance (%d indexed stores / ordered appends)" % outs, lloc)
        # (iv) state
        if isinstance(l.node, ast.For):
            if any(isinstance(x, (ast.Break, ast.Continue)) for x in own_level(l.node.body)):
                ctx.undecided("R3", c + ":state", "the per-instance loop contains break / continue", lloc)
            else:
                car = sorted(carried_names(l.node.body, target_names(l.node.target)))
                ctx.check(not car, "R3", c + ":state", "no local carries a value from one instance to the next",
                          "local(s) %s keep their value from the previous instance when the next one is processed: "
                          "output row i depends on rows < i" % ", ".join(car), lloc, witness={"carried": car})
    # ---- assembly: the per-instance results reach the return value in their order
    outs_ = []
    for e in events:
        if innermost_inst(e, cands) is None:
            continue
        if e.kind == "append" and e.base not in outs_:
            outs_.append(e.base)
        if e.kind == "store" and isinstance(e.base, Buf) and e.base not in outs_:
            outs_.append(e.base)
    for _, ret in rets[:1]:
        for v in walk_with_stores(ret, events):
            inner = reordered(v)
            if inner is not None and any(inner is o for o in outs_):
                ctx.violation("R3", base + ":assembly", "the per-instance results are re-ordered (%r) before they are returned" % (v,), loc)
            if isinstance(v, CallV) and v.name == "pandas.concat" and v.args and any(v.args[0] is o for o in outs_):
                ax = v.arg(1, "axis", ZERO)
                ok = ax == ZERO or ax == K("index") or ax == K("rows")
                ctx.check(ok if (isinstance(ax, Lin) or isinstance(ax, K)) else None, "R3", base + ":assembly",
                          "per-instance results are stacked as rows (axis=0) in loop order",
                          "per-instance results are concatenated along axis=%r: instances become columns" % (ax,), loc)
    return it, rets, cands


def walk_with_stores(v, events):
    """Values reachable from ``v`` including what was stored into the frames / buffers it contains."""
    seen, stack, out = set(), [v], []
    while stack:
        x = stack.pop()
        if x is None or id(x) in seen:
            continue
        seen.add(id(x))
        out.append(x)
        from ._c14_dom import children
        stack.extend(children(x))
        for e in events:
            if e.kind == "store" and e.base is x and e.value is not None:
                stack.append(e.value)
    return out


def _sym(lin):
    s = list(lin.symbols())
    return s[0] if len(s) == 1 else None


def aligned_base(e, aligned):
    try:
        return aligned(e.base)
    except Exception:
        return False


def innermost_inst(e, cands):
    for l in reversed(e.loops):
        if l in cands:
            return l
    return None


def own_level(stmts):
    """Statements of a loop body that belong to this loop (not to nested loops / functions)."""
    out = []
    stack = list(stmts)
    while stack:
        st = stack.pop()
        out.append(st)
        if isinstance(st, (ast.For, ast.While, ast.FunctionDef, ast.ClassDef)):
            continue
        for f in ("body", "orelse", "finalbody"):
            stack.extend(getattr(st, f, []) or [])
        for h in getattr(st, "handlers", []) or []:
            stack.extend(h.body)
    return out


def must_execute(body, call):
    g = CFG(_B(body))
    target = None
    for nd in g.nodes:
        for ex in nd.exprs:
            if ex is not None and any(x is call for x in ast.walk(ex)):
                target = nd
    if target is None:
        return False
    return g.must_pass(lambda nd: nd is target)


def r3_all(ctx, repo):
    X = Src("X", "raw")
    W = sym("w")
    r3_method(ctx, repo, COMPOSE, "SeriesToPrimitivesRowTransformer", "transform", {"X": X}, 1)
    r3_method(ctx, repo, COMPOSE, "SeriesToSeriesRowTransformer", "transform", {"X": X}, 1)
    r3_method(ctx, repo, PAA, "PAA", "_perform_paa_along_dim", {"X": Src("X", "nested")}, 1, attrs={"num_intervals": sym("k")})
    r3_method(ctx, repo, SLOPE, "SlopeTransformer", "transform", {"X": X}, 2, attrs={"num_intervals": sym("k")},
              extra_no_inline=("_get_gradients_of_lines", "_check_parameters"))
    r3_method(ctx, repo, EXTRACT, "DerivativeSlopeTransformer", "transform", {"X": X}, 1)
    r3_method(ctx, repo, EXTRACT, "PlateauFinder", "transform", {"X": X}, 1, via_init=True)
    r3_method(ctx, repo, SEGMENT, "SlidingWindowSegmenter", "transform", {"X": X}, 3, attrs={"window_length": W})
    r3_method(ctx, repo, PADDER, "PaddingTransformer", "transform", {"X": X}, 2, attrs={"pad_length_": sym("pad_length_")})
    r3_method(ctx, repo, TRUNC, "TruncationTransformer", "transform", {"X": X}, 2,
              attrs={"lower_": sym("lower_"), "upper": K(None)})


def run(ctx):
    repo = ctx.repo
    ctx.explain("C14 (partial): abstract interpretation of the anchored transformers into array terms; R1 length/position "
                "maps, R2 rule-name <-> operator tables and option forwarding, R3 row correspondence. Numeric formulas "
                "(PAA means, interpolated values, ACF, slopes) are not decided.")
    ctx.assume("numpy: np.full/zeros create fresh arrays of the given shape; slice assignment copies position-wise; np.pad(x, p, "
               "mode='edge') repeats the end values p times on both ends; as_strided(x, shape, (s, s)) has element (j, k) = x[j + k]; "
               "np.arange / range / np.linspace(a, b, n) grids; np.array_split yields consecutive index arrays covering the input; "
               "RandomState.randint(low, high) draws from [low, high); slices a:b are half-open and silently clamp")
    ctx.assume("pandas: .iloc is positional, .loc / fillna(value=Series) align by label; fillna(method=ffill) then backfill leaves no "
               "gap in a series with at least one observation; DataFrame.apply / Series.apply visit every column / element in order; "
               "pd.DataFrame(list of rows), pd.Series(list), pd.concat(list, axis=0) keep list order")
    ctx.assume("scipy interp1d(x, y, kind='linear') and statsmodels acf(x, adjusted, nlags, qstat, fft, alpha, missing) / "
               "pacf(x, nlags, method, alpha) signatures as pinned; sktime's own container converters keep the instance order (C15)")
    ctx.assume("options are integers where the code uses them as lengths (window_length, lower, pad_length, min_length >= 1)")
    r1_pad(ctx, repo)
    r1_truncate(ctx, repo)
    r1_sliding(ctx, repo)
    r1_interpolate(ctx, repo)
    r1_intervals(ctx, repo)
    r2_imputer(ctx, repo)
    r2_acf(ctx, repo)
    r2_simple(ctx, repo)
    r2_options(ctx, repo)
    r3_all(ctx, repo)
    ctx.floor("R1", 60)
    ctx.floor("R2", 105)
    ctx.floor("R3", 52)
