"""C14 -- closed-form transformers (partial): the clauses visible in the shape of the code.

Every anchored method is interpreted once, symbolically, into array terms (``_c14_dom.XInterp``); the rules are
identities / entailments over those terms, evaluated per configuration scenario (option None / given, container type,
rule name).

R1  length / position maps.  PaddingTransformer: fitted length (max over all cells / the option), ``_create_pad`` = fresh
    array of length pad_length_ filled with fill_value that receives series[0:len) at [0:len), tight rejecting guard,
    every cell padded from itself.  TruncationTransformer: index progression arange(lower_) / arange(lower_, upper),
    positional indexing, tight guard, in-bounds.  SlidingWindowSegmenter: edge padding of floor(w/2) on both ends,
    strided view (n_timepoints, w) with unit strides (element (j, k) = padded[j + k]), last read inside the padded row,
    buffer shapes, one window per time point, row i = instance i.  TSInterpolator: source grid linspace(0, 1, len(cell))
    on the cell's values, linear, target grid linspace(0, 1, length), applied to every cell.  Interval slices: every
    fitted (start, end) / index piece is sliced as the half-open range it denotes on the time axis, the random
    generators draw 0 <= start < end <= n_timepoints from non-empty ranges, the feature extractor delegates to a
    RandomIntervalSegmenter with its own options.
R2  rule-name <-> operator tables and option forwarding.  Imputer: every documented method name reaches the documented
    pandas operator with the documented argument (and never the unknown-method error), unknown names are rejected, the
    placeholder is replaced by NaN first, drift / forecaster predict the in-sample horizon -arange(len(Z)) with the
    documented forecaster and fill the gaps of the *input*; CosineTransformer, MeanTransformer; ACF / PACF keyword
    forwarding; Tabularizer / ColumnConcatenator converter per container; TabularToSeriesAdaptor; RandomIntervalSegmenter
    -> generator forwarding; every constructor option is read on a path from fit / transform.
R3  row correspondence.  Every per-instance loop (index loop, direct iteration, zip / enumerate, comprehension) enumerates
    all instances once in order, reads only its own instance, writes / appends its result at its own position
    unconditionally, carries no local or attribute state into the next instance, and the results are assembled in loop
    order.

Not decided (DESIGN 3/C14): the numeric formulas (PAA frame means, interpolated values, ACF, slopes).
"""
import ast
from fractions import Fraction

from ..absint import Frame, State, SelfV, Rng, Tup, K, Opq, Alt, Arr, as_lin_val
from ..cfg import CFG
from ..index import AnalysisError, dotted
from ..lin import Lin, Facts
from .. import astq
from ._c14_dom import (XInterp, Src, Cell, Sub, Buf, AccList, ListV, Pad, Strided, Lsp, Pieces, Piece, Rows, Row,
                       Cols, EVec, CallV, Inst, KS, NDS, ZipV, LocalFn, LamV, BoundM, carried_names, target_names,
                       reordered, as_listv, seq_len, children, relevant, shape_of, walk, ZERO, ONE)

PADDER = "sktime/transformations/panel/padder.py"
TRUNC = "sktime/transformations/panel/truncation.py"
INTERP = "sktime/transformations/panel/interpolate.py"
REDUCE = "sktime/transformations/panel/reduce.py"
COMPOSE = "sktime/transformations/panel/compose.py"
SEGMENT = "sktime/transformations/panel/segment.py"
PAA = "sktime/transformations/panel/dictionary_based/_paa.py"
EXTRACT = "sktime/transformations/panel/summarize/_extract.py"
SLOPE = "sktime/transformations/panel/slope.py"
IMPUTE = "sktime/transformations/series/impute.py"
COS = "sktime/transformations/series/cos.py"
ACF = "sktime/transformations/series/acf.py"
ADAPT = "sktime/transformations/series/adapt.py"
SUMMARIZE = "sktime/transformations/series/summarize.py"

NO_INLINE = ("check_is_fitted", "check_window_length", "check_random_state", "_concat_nested_arrays",
             "check_X", "check_series", "from_nested_to_2d_array", "from_2d_array_to_nested", "from_3d_numpy_to_2d_array",
             "_get_time_index", "clone")


CONSTRUCT = ("RandomIntervalSegmenter",)


def sym(name):
    return Lin.sym(name)


# --------------------------------------------------------------------- aggregate helpers
def row_aggregate(it, kind, seq, st):
    """``max`` / ``min`` over a list of cell lengths (one row) or over a list of such row aggregates (the panel):
    returns the symbol ``maxlen(X)`` / ``minlen(X)`` (``... part of X`` when not every row / column is visited)."""
    seq = as_listv(seq)
    if not (isinstance(seq, ListV) and not seq.filtered and isinstance(seq.elem, Lin)):
        return None
    rows = it.__dict__.setdefault("rowaggs", {})
    src = seq.it
    if seq.var is None:
        nm = _sym(seq.elem)
        if nm in rows and rows[nm][0] == kind:
            it.__dict__.setdefault("partial", set()).add("%slen(%s)" % (kind, rows[nm][1].name))
            return Lin.sym("%slen(part of %s)" % (kind, rows[nm][1].name))
        return None
    if isinstance(src, Sub) and isinstance(src.base, Src) and src.how == "iloc" and src.spec and src.spec[0][0] == "i":
        panel, row = src.base, src.spec[0][1]
        if seq.elem == Cell(panel, row, seq.var).length or (len(src.spec) == 2 and src.spec[1][0] == "s"
                                                            and any(seq.elem == Cell(panel, row, seq.var + d).length
                                                                    for d in (src.spec[1][1] or ZERO,))):
            full = len(src.spec) == 1
            r = Lin.sym("%slen(%s%s[%r])" % (kind, "" if full else "part of ", panel.name, row))
            rows[_sym(r)] = (kind, panel, row, full)
            return r
        return None
    nm = _sym(seq.elem)
    if nm in it.celllens and seq.elem == Lin.sym(nm):
        # the "row aggregate" is the length of one particular cell of the row: the other columns are not measured
        cell = it.celllens[nm]
        if cell.row == seq.var:
            it.__dict__.setdefault("partial", set()).add("%slen(%s)" % (kind, cell.src.name))
            return Lin.sym("%slen(part of %s)" % (kind, cell.src.name))
        return None
    if nm in rows:
        k2, panel, row, full = rows[nm]
        if row != seq.var:
            return None
        allrows = src == Rng(ZERO, panel.shape[0]) or all_rows_panel(src) is panel or all_rows_panel(src) == panel
        if k2 != kind:
            return Lin.sym("agg?(%s)" % panel.name)
        if full and allrows:
            r = Lin.sym("%slen(%s)" % (kind, panel.name))
            it.__dict__.setdefault("measures", set()).add(_sym(r))
            return r
        it.__dict__.setdefault("partial", set()).add("%slen(%s)" % (kind, panel.name))
        return Lin.sym("%slen(part of %s)" % (kind, panel.name))
    return None


def running_extreme(repo, module, fn, cls=None):
    """The explicit running-minimum / maximum idiom over a list of rows P::

        m = len(P[r0][c0]);  for row in P | P[k:]:  for s in row:  if len(s) < m: m = len(s);  return m

    Returns (kind, full): kind 'min' / 'max' by the direction of the comparison, full = every row is scanned (k == 0);
    None if the function is not this idiom."""
    params = astq.param_names(fn)
    if cls is not None and not cls.is_static(fn.name):
        params = params[1:]
    body = [st for st in fn.body if not (isinstance(st, ast.Expr) and isinstance(st.value, ast.Constant))]
    if len(params) != 1 or len(body) != 3:
        return None
    P = params[0]
    a0, loop, ret = body

    def is_len(e, of=None):
        ok = isinstance(e, ast.Call) and isinstance(e.func, ast.Name) and e.func.id == "len" and len(e.args) == 1 and not e.keywords \
            and repo.resolve_name(module, "len") is None
        return ok and (of is None or isinstance(e.args[0], ast.Name) and e.args[0].id == of)

    if not (isinstance(a0, ast.Assign) and len(a0.targets) == 1 and isinstance(a0.targets[0], ast.Name) and is_len(a0.value)):
        return None
    m = a0.targets[0].id
    cell = a0.value.args[0]
    if not (isinstance(cell, ast.Subscript) and isinstance(cell.value, ast.Subscript) and isinstance(cell.value.value, ast.Name)
            and cell.value.value.id == P and isinstance(cell.slice, ast.Constant) and isinstance(cell.value.slice, ast.Constant)):
        return None
    if not (isinstance(ret, ast.Return) and isinstance(ret.value, ast.Name) and ret.value.id == m):
        return None
    if not (isinstance(loop, ast.For) and isinstance(loop.target, ast.Name) and not loop.orelse and len(loop.body) == 1):
        return None
    start = None
    if isinstance(loop.iter, ast.Name) and loop.iter.id == P:
        start = 0
    elif isinstance(loop.iter, ast.Subscript) and isinstance(loop.iter.value, ast.Name) and loop.iter.value.id == P \
            and isinstance(loop.iter.slice, ast.Slice) and loop.iter.slice.upper is None and loop.iter.slice.step is None:
        lo = loop.iter.slice.lower
        start = 0 if lo is None else (lo.value if isinstance(lo, ast.Constant) and isinstance(lo.value, int) and lo.value >= 0 else None)
    inner = loop.body[0]
    if start is None or not (isinstance(inner, ast.For) and isinstance(inner.target, ast.Name) and isinstance(inner.iter, ast.Name)
                             and inner.iter.id == loop.target.id and not inner.orelse and len(inner.body) == 1):
        return None
    test = inner.body[0]
    sname = inner.target.id
    if not (isinstance(test, ast.If) and not test.orelse and len(test.body) == 1 and isinstance(test.test, ast.Compare)
            and len(test.test.ops) == 1):
        return None
    upd = test.body[0]
    if not (isinstance(upd, ast.Assign) and len(upd.targets) == 1 and isinstance(upd.targets[0], ast.Name) and upd.targets[0].id == m
            and is_len(upd.value, sname)):
        return None
    l_, r_, op = test.test.left, test.test.comparators[0], test.test.ops[0]
    if is_len(l_, sname) and isinstance(r_, ast.Name) and r_.id == m:
        kind = "min" if isinstance(op, (ast.Lt, ast.LtE)) else ("max" if isinstance(op, (ast.Gt, ast.GtE)) else None)
    elif is_len(r_, sname) and isinstance(l_, ast.Name) and l_.id == m:
        kind = "min" if isinstance(op, (ast.Gt, ast.GtE)) else ("max" if isinstance(op, (ast.Lt, ast.LtE)) else None)
    else:
        kind = None
    return (kind, start == 0) if kind else None


def helper_aggregate(repo, module, fn, cls=None):
    """What a length helper computes on the list of all rows of a panel P: 'max' / 'min' (of all cell lengths) or a
    description of something else / None when it cannot be interpreted."""
    it = mk_interp(repo)
    P = Src("P", "nested")
    v = Lin.sym("r#0")
    probe = ListV(Sub(P, [("i", v)], "iloc"), v, Rng(ZERO, P.shape[0]))
    params = astq.param_names(fn)
    static = cls is not None and cls.is_static(fn.name)
    if cls is not None and not static:
        params = params[1:]
    if len(params) != 1:
        return None
    args = {params[0]: probe}
    if cls is not None and not static:
        args["self"] = SelfV(cls)
    traces, _ = it.run_function(Frame(module, fn, cls, cls), args, State())
    vals = [x for _, x in distinct_returns(traces)]
    if len(vals) != 1 or not isinstance(vals[0], Lin):
        re_ = running_extreme(repo, module, fn, cls)
        if re_ is not None:
            return re_[0] if re_[1] else "%slen(part of P): the scan starts after the first row, of which only one cell is measured" % re_[0]
        return None
    for k in ("max", "min"):
        if vals[0] == Lin.sym("%slen(P)" % k):
            return k
    return repr(vals[0])


def all_rows_panel(v):
    """Name of the panel if ``v`` is the list of all its rows in order (``[X.iloc[i, :].values for i in range(n)]``)."""
    v = as_listv(v)
    if isinstance(v, ListV) and isinstance(v.it, Rng) and v.var is not None and isinstance(v.elem, Sub):
        s = v.elem
        if isinstance(s.base, Src) and s.how == "iloc" and len(s.spec) == 1 and s.spec[0] == ("i", v.var) \
                and v.it == Rng(ZERO, s.base.shape[0]):
            return s.base
    return None


# ------------------------------------------------------------------------------- hooks
def hooks(it, frame, call, fname, args, kwargs, st):
    simple = (fname or "").split(".")[-1]
    sym_ = it.resolve_sym(fname, frame)
    target = sym_.dotted if sym_ is not None else None
    if target == "sktime.utils.validation.panel.check_X":
        a = args[0] if args else kwargs.get("X")
        if isinstance(a, Src):
            def flag(k):
                v = kwargs.get(k)
                return isinstance(v, K) and v.v is True
            uni = flag("enforce_univariate")
            n, c, m = (Lin.sym("%s(%s)" % (d, a.name)) for d in "ncm")
            if uni:
                c = ONE
            if flag("coerce_to_numpy"):
                return Src(a.name, "np3", [n, c, m])
            if flag("coerce_to_pandas"):
                return Src(a.name, "nested", [n, c])
            if a.kind in ("nested", "np3"):
                return Src(a.name, a.kind, [n, c] if a.kind == "nested" else [n, c, m])
            return Src(a.name, "either", [n, c])
        return Opq("check_X", args)
    if target == "sktime.utils.validation.series.check_series":
        return args[0] if args else kwargs.get("Z", Opq("check_series"))
    if simple == "check_is_fitted":
        return K(None)
    if target in ("sktime.utils.data_processing.from_nested_to_2d_array",):
        a = args[0] if args else kwargs.get("X")
        rn = kwargs.get("return_numpy")
        src = a
        if isinstance(a, CallV) and a.name == "pandas.DataFrame" and len(a.args) == 1:
            src = a.args[0]
        if isinstance(src, Sub) and isinstance(src.base, Src) and src.how == "item" and len(src.spec) == 1 and src.spec[0][0] == "x":
            # X[column label] of a nested frame: one column, all rows in order
            b = src.base
            cname = "%s[%r]" % (b.name, src.spec[0][1])
            return Src(cname, "np2" if isinstance(rn, K) and rn.v is True else "frame2d", [b.shape[0], Lin.sym("m(%s)" % cname)])
        if isinstance(src, Src):
            return Src(src.name, "np2" if isinstance(rn, K) and rn.v is True else "frame2d",
                       [src.shape[0], Lin.sym("m(%s)" % src.name)])
        return NotImplemented
    if target == "sktime.utils.data_processing._get_time_index":
        a = args[0] if args else None
        if isinstance(a, Src):
            return Arr("time_index(%s)" % a.name, Lin.sym("m(%s)" % a.name), "index")
    callee = None
    if sym_ is not None and sym_.kind == "func":
        callee = (sym_.module, sym_.target, None)
    elif isinstance(call.func, ast.Attribute):
        rv = it.ev(call.func.value, st, frame)
        if isinstance(rv, SelfV) and rv.cls is not None:
            hit_ = it.repo.lookup_method(rv.cls, call.func.attr)
            if hit_ is not None:
                callee = (hit_[0].module, hit_[1], hit_[0])
    if callee is not None and len(args) == 1 and not kwargs:
        panel_ = all_rows_panel(args[0])
        if panel_ is not None:
            re_ = running_extreme(it.repo, callee[0], callee[1], callee[2])
            if re_ is not None:
                kind_, full_ = re_
                if full_:
                    it.__dict__.setdefault("measures", set()).add("%slen(%s)" % (kind_, panel_.name))
                    return Lin.sym("%slen(%s)" % (kind_, panel_.name))
                it.__dict__.setdefault("partial", set()).add("%slen(%s)" % (kind_, panel_.name))
                return Lin.sym("%slen(part of %s)" % (kind_, panel_.name))
    ext_ = it.ext_name(fname, frame)
    if ext_ in ("builtins.max", "builtins.min") and len(args) == 1 and not kwargs:
        r = row_aggregate(it, ext_[-3:], args[0], st)
        if r is not None:
            return r
    if sym_ is not None and sym_.kind == "class" and sym_.target.name in CONSTRUCT and "*" not in kwargs:
        cls = sym_.target
        hit = it.repo.lookup_method(cls, "__init__")
        if hit is not None and frame.depth < it.inline_depth:
            inst = Inst(cls)
            it.inline_fn(hit[0].module, hit[1], inst, hit[0], False, args, kwargs, st, frame)
            return inst
    if isinstance(call.func, ast.Attribute):
        recv = it.ev(call.func.value, st, frame)
        meth = call.func.attr
        if meth == "randint" and isinstance(recv, CallV) and recv.name.endswith("check_random_state"):
            return _randint(it, args, kwargs, st)
    return NotImplemented


def _randint(it, args, kwargs, st):
    """numpy RandomState.randint(low, high=None, size=None): integers in [low, high) (or [0, low))."""
    low = args[0] if args else kwargs.get("low")
    high = args[1] if len(args) > 1 else kwargs.get("high")
    if high is None or (isinstance(high, K) and high.v is None):
        low, high = ZERO, low

    def el(v):
        if isinstance(v, EVec):
            return v.elem
        return as_lin_val(v)

    lo, hi = el(low), el(high)
    if lo is None or hi is None:
        return NotImplemented
    it.uid += 1
    r = Lin.sym("rand#%d" % it.uid)
    if not hasattr(it, "randints"):
        it.randints = []
    it.randints.append((lo, hi, it.all_facts(st.facts)))  # facts known *before* the draw
    it.gfact(st, lo, "<=", r, "randint lower bound (inclusive)")
    it.gfact(st, r, "<=", hi - 1, "randint upper bound (exclusive)")
    ev = EVec(r)
    ev.size = kwargs.get("size", args[2] if len(args) > 2 else None)
    return ev


def mk_interp(repo, **kw):
    kw.setdefault("no_inline", NO_INLINE)
    return XInterp(repo, extra_hooks=hooks, **kw)


def run_method(repo, it, selfv, name, args, facts=None):
    hit = repo.lookup_method(selfv.cls, name)
    if hit is None:
        raise AnalysisError("method %s.%s missing" % (selfv.cls.name, name))
    k, fn = hit
    a = dict(args)
    if not k.is_static(name):
        a["self"] = selfv
    st = State(facts=facts if facts is not None else Facts())
    traces, fst = it.run_function(Frame(k.module, fn, selfv.cls, k), a, st)
    return traces, fst, k, fn


def attr_after(traces, sv, name):
    """Value of ``self.<name>`` at the normal returns of a method (None if unset or path-dependent)."""
    vals = []
    for s, o in traces:
        if o[0] in ("return", "fall"):
            v = s.heap.get((id(sv), name))
            if v is None:
                return None
            if not any(v is w or v == w for w in vals):
                vals.append(v)
    return vals[0] if len(vals) == 1 else None


def attr_verdict(traces, sv, name, want):
    """(verdict, values): True if ``self.<name>`` equals ``want`` at every normal return; False if on some path it is a
    different, decided value (that path is the witness); None if unset / not interpretable on some path."""
    vals = []
    for s, o in traces:
        if o[0] in ("return", "fall"):
            v = s.heap.get((id(sv), name))
            if not any(v is w or (v is not None and v == w) for w in vals):
                vals.append(v)
    if not vals:
        return None, vals
    if all(v is not None and v == want for v in vals):
        return True, vals
    if any(isinstance(v, Lin) and v != want for v in vals):
        return False, vals
    return None, vals


def match(v, target):
    """True: ``v`` is ``target``; None: ``v`` is some unmodelled function of ``target`` (undecided); False: unrelated."""
    if v is not None and (v is target or v == target):
        return True
    if v is not None and any(x is target or x == target for x in walk(v)):
        return None
    return False


def entailed(it, facts, q):
    """True if ``q <= 0`` follows; False if not; None if it does not follow but mentions a max/min-derived symbol whose
    lower bounds the affine facts cannot express."""
    if it.all_facts(facts, q).entails(q) is not None:
        return True
    if any(x.startswith(("max(", "min(")) for x in q.symbols()):
        return None
    return False


def normal_returns(traces):
    return [(s, o[1]) for s, o in traces if o[0] == "return"]


def distinct_returns(traces):
    vals = []
    for s, v in normal_returns(traces):
        if not any(v is w or v == w for _, w in vals):
            vals.append((s, v))
    return vals


def one_return(ctx, rule, construct, traces, loc):
    rets = normal_returns(traces)
    vals = []
    for s, v in rets:
        if not any(v is w or v == w for _, w in vals):
            vals.append((s, v))
    if len(vals) != 1:
        ctx.undecided(rule, construct, "expected one return value, found %d: %r" % (len(vals), [v for _, v in vals][:3]), loc)
        return None, None
    return vals[0]


def result_dtype(ctx, rule, construct, buf, loc):
    """A buffer that receives *computed* values (features, transformed primitives) must not take its dtype from the input:
    an integer panel would truncate every non-integral result."""
    d = getattr(buf, "dtype", None)
    verdict = True
    if d is not None:
        floats = (Opq("name:float"), K("float"), K("float64"), K("f8"), K("double"))
        is_float = d in floats or (isinstance(d, Opq) and d.tag in ("attr:float", "attr:float64", "attr:float_", "attr:double"))
        verdict = True if is_float else (False if any(isinstance(x, Src) for x in walk(d)) else None)
    ctx.check(verdict, rule, construct, "the result array is a float array whatever the type of the input panel",
              "the result array takes its dtype from the input (%r): for an integer panel every computed value (mean, slope, ...) is "
              "truncated to an integer when stored" % (d,), loc, witness={"dtype": repr(d)})


def cell_state(ctx, construct, it, loc):
    """A per-cell helper must not keep state on ``self`` that it reads back (it would leak from one cell to the next)."""
    stores = {e.spec for e in it.events if e.kind == "attr-store"}
    loads = {e.spec for e in it.events if e.kind == "attr-load"}
    car = sorted(stores & loads)
    ctx.check(not car, "R3", construct, "the per-cell helper keeps no state on self",
              "the per-cell helper stores self.%s and reads it back: what is computed for one cell depends on the cells "
              "processed before" % ", self.".join(car), loc, witness={"attributes": car})


# ----------------------------------------------------------------------------- R1: pad
def pos_how(how):
    """Positional access?  ``.iloc`` and plain slices are positional, ``.loc`` is by label."""
    return how in ("iloc", "item")


def r1_pad(ctx, repo):
    cls = repo.cls(PADDER + ":PaddingTransformer")
    mod = cls.module
    P, L = sym("pad_length_"), sym("L")
    # ---- _create_pad(series)
    series = Src("series", "series", [L])
    for pscen, pval in (("[pad_length=None]", K(None)), ("", sym("pad_length"))):
        it = mk_interp(repo)
        selfv = SelfV(cls)
        selfv.attrs.update(pad_length_=P, pad_length=pval)
        traces, fst, k, fn = run_method(repo, it, selfv, "_create_pad", {"series": series})
        loc = ctx.loc(mod, fn)
        c = "PaddingTransformer._create_pad" + pscen
        s, buf = one_return(ctx, "R1", c + ":value", traces, loc)
        if pscen:
            ctx.check(None if buf is None or not isinstance(buf, Buf) else buf.shape == [P], "R1", c + ":length",
                      "padded cell has the fitted length pad_length_ also when the option is None",
                      "with pad_length=None the padded cell has length %r, expected the fitted pad_length_"
                      % (getattr(buf, "shape", buf),), loc)
    if buf is not None:
        if not isinstance(buf, Buf):
            ctx.undecided("R1", c + ":value", "return value is not a fresh array: %r" % (buf,), loc)
        else:
            ctx.check(buf.shape == [P], "R1", c + ":length", "padded cell has length pad_length_",
                      "padded cell has length %r, expected the fitted pad_length_" % (buf.shape,), loc)
            ctx.check(match(buf.fill, Opq("self.fill_value")), "R1", c + ":fill", "unfilled positions hold self.fill_value",
                      "unfilled positions hold %r, expected self.fill_value" % (buf.fill,), loc)
            check_copy_map(ctx, c + ":map", buf, series, L, loc)
        if isinstance(buf, Buf):
            d = buf.dtype
            floats = (Opq("name:float"), K("float"), K("float64"), K("f8"), K("double"))
            is_float = d in floats or (isinstance(d, Opq) and d.tag in ("attr:float", "attr:float64", "attr:float_", "attr:double")
                                       and d.args and d.args[0] == Opq("global:numpy"))
            verdict = True if is_float else None
            why = "the padded array has dtype %r" % (d,)
            if d is None:
                verdict = False
                why = ("np.full is called without dtype: the array takes the type of the fill value (default 0, an integer) and the "
                       "series values are truncated when stored (series [0.5, 1.5], fill_value 0 -> [0, 1, 0, ...])")
            elif not is_float and any(x == series for x in walk(d)):
                verdict = False
                why = ("the padded array takes its dtype from the series (%r): an integer series padded with fill_value=0.5 (or nan) "
                       "gets the fill value truncated to 0 / raises" % (d,))
            elif not is_float and any(x == Opq("self.fill_value") for x in walk(d)):
                verdict = False
                why = "the padded array takes its dtype from the fill value (%r): a float series padded with an integer fill is truncated" % (d,)
            ctx.check(verdict, "R1", c + ":dtype", "the padded array is a float array whatever the series / fill value types are",
                      why, loc, witness={"dtype": repr(d)})
    cell_state(ctx, c + ":cell-state", it, loc)
    # ---- fit
    for scen, val, want in (("None", K(None), sym("maxlen(X)")), ("given", sym("pad_length"), sym("pad_length"))):
        it = mk_interp(repo)
        sv = SelfV(cls)
        sv.attrs.update(pad_length=val)
        traces, fst, k, fn = run_method(repo, it, sv, "fit", {"X": Src("X", "raw")})
        verdict, got = attr_verdict(traces, sv, "pad_length_", want)
        ctx.check(verdict, "R1", "PaddingTransformer.fit[pad_length=%s]:pad_length_" % scen,
                  "pad_length_ = %r" % (want,), "pad_length_ is %r on some path (e.g. the option value 0 taken for 'not given'), "
                  "expected %r on every path" % (got, want), ctx.loc(mod, fn))
    # ---- helper
    fn = repo.func(PADDER, "_get_max_length")
    shp = helper_aggregate(repo, mod, fn)
    ctx.check(None if shp is None else shp == "max", "R1", "padder._get_max_length:shape",
              "max over rows of max over cells of len", "helper computes %s, expected the maximum over all cell lengths" % (shp,),
              ctx.loc(mod, fn))
    # ---- transform
    it = mk_interp(repo)
    sv = SelfV(cls)
    sv.attrs.update(pad_length_=P, pad_length=sym("pad_length"))
    X = Src("X", "raw")
    traces, fst, k, fn = run_method(repo, it, sv, "transform", {"X": X})
    loc = ctx.loc(mod, fn)
    c = "PaddingTransformer.transform"
    s, ret = one_return(ctx, "R1", c + ":value", traces, loc)
    if ret is None:
        return
    guard_tight(ctx, c + ":guard", it, s.facts, sym("maxlen(X)") - P, "max cell length > pad_length_", loc)
    cells = per_cell(ctx, c + ":per-cell", ret, loc)
    if cells is not None:
        cell, val = cells
        ok = isinstance(val, Buf) and len(val.stores) == 1 and any(v == cell for v in walk(val.stores[0].value))
        ctx.check(ok, "R1", c + ":cell-padded", "every cell is replaced by the padding of that same cell",
                  "cell value %r is not the padding of cell %r" % (val, cell), loc)


def check_copy_map(ctx, construct, buf, series, L, loc):
    """The buffer receives the whole series at positions [0, len(series))."""
    if len(buf.stores) != 1:
        ctx.check(False if not buf.stores else None, "R1", construct, "", "expected exactly one store of the series into the padded "
                  "array, found %d" % len(buf.stores), loc)
        return
    st = buf.stores[0]
    src = st.value
    slo, shi, how = ZERO, L, "item"
    if isinstance(src, Sub) and src.base == series and len(src.spec) == 1 and src.spec[0][0] in ("s", "a"):
        if src.spec[0][0] == "s":
            slo = src.spec[0][1] if src.spec[0][1] is not None else ZERO
            shi = src.spec[0][2] if src.spec[0][2] is not None else L
        how = src.how
    elif src == series:
        pass
    else:
        ctx.undecided("R1", construct, "stored value is not a slice of the series: %r" % (src,), loc)
        return
    if len(st.spec) != 1 or st.spec[0][0] not in ("s", "a"):
        ctx.undecided("R1", construct, "store target is not a slice: %r" % (st.spec,), loc)
        return
    tlo = (st.spec[0][1] if st.spec[0][0] == "s" and st.spec[0][1] is not None else ZERO)
    thi = (st.spec[0][2] if st.spec[0][0] == "s" and st.spec[0][2] is not None else buf.shape[0])
    ok = tlo == ZERO and slo == ZERO and thi == L and shi == L and pos_how(how) and pos_how(st.how)
    ctx.check(ok, "R1", construct, "out[0:len) = series[0:len) (identity position map)",
              "store out[%r:%r] = series%s[%r:%r]; expected out[0:len(series)] = series[0:len(series)] by position"
              % (tlo, thi, "" if how == "item" else "." + how, slo, shi), loc,
              witness={"target": [repr(tlo), repr(thi)], "source": [repr(slo), repr(shi)]})


def guard_tight(ctx, construct, it, facts, lin, what, loc):
    """The surviving trace knows exactly ``lin <= 0`` (the guard rejects iff lin > 0)."""
    f = it.floor_facts(facts)
    sl = f.slack(lin)
    measured = [x for x in lin.symbols() if x.startswith(("maxlen(", "minlen("))]
    if sl is None and any(x in getattr(it, "partial", set()) for x in measured):
        ctx.violation("R1", construct, "the guard measures only a part of the panel (not every row / column): %s is not bounded for the "
                      "rest" % ", ".join(measured), loc)
    elif sl is None and any(x not in getattr(it, "measures", set()) for x in measured):
        ctx.undecided("R1", construct, "the length measured by transform is not understood (no %s computed)" % ", ".join(measured), loc)
    elif sl is None:
        ctx.violation("R1", construct, "transform does not reject %s (no dominating guard bounds %r)" % (what, lin), loc)
    else:
        ctx.check(sl == 0, "R1", construct, "rejects exactly when %s" % what,
                  "guard is off by %s: it %s" % (sl, "accepts inputs with %s" % what if sl > 0 else
                                                  "also rejects inputs that fit exactly"), loc, witness={"slack": str(sl)})


def per_cell(ctx, construct, ret, loc):
    """``pd.DataFrame([pd.Series([f(cell) for cell in row]) for row in rows])`` -> (Cell, f(cell)) with the
    obligations that rows / columns are enumerated completely and in order."""
    if not (isinstance(ret, CallV) and ret.name == "pandas.DataFrame" and ret.arg(0, "data") is not None):
        ctx.undecided("R1", construct, "transform does not return pd.DataFrame(rows): %r" % (ret,), loc)
        return None
    rows = as_listv(ret.arg(0, "data"))
    if not (isinstance(rows, ListV) and isinstance(rows.elem, CallV) and rows.elem.name == "pandas.Series"
            and isinstance(as_listv(rows.elem.arg(0, "data")), ListV)):
        ctx.undecided("R1", construct, "rows are not pd.Series(list of cells): %r" % (rows,), loc)
        return None
    inner = as_listv(rows.elem.arg(0, "data"))
    panel = all_rows_panel(as_listv(rows.it))
    if panel is None:
        inner_seq = reordered(rows.it)
        if inner_seq is not None or isinstance(as_listv(rows.it), ListV):
            ctx.violation("R1", construct, "the outer list does not enumerate all rows of X in their order: it iterates %r" % (rows.it,), loc)
        else:
            ctx.undecided("R1", construct, "cannot see which rows the outer list enumerates: %r" % (rows.it,), loc)
        return None
    want_row = Sub(panel, [("i", rows.var)], "iloc")
    if inner.it != want_row:
        if reordered(inner.it) is not None or isinstance(inner.it, (Sub, Cell)):
            ctx.violation("R1", construct, "the inner list enumerates %r, expected the cells of row %r in order" % (inner.it, want_row), loc)
        else:
            ctx.undecided("R1", construct, "cannot see which cells the inner list enumerates: %r" % (inner.it,), loc)
        return None
    ctx.ok("R1", construct, "every cell (all rows x all columns, in order) is transformed", loc)
    return Cell(panel, rows.var, inner.var), inner.elem


# ------------------------------------------------------------------------ R1: truncate
def r1_truncate(ctx, repo):
    cls = repo.cls(TRUNC + ":TruncationTransformer")
    mod = cls.module
    LO, UP = sym("lower_"), sym("upper")
    fn = cls.methods.get("get_min_length")
    if fn is None:
        raise AnalysisError("anchor missing: TruncationTransformer.get_min_length")
    shp = helper_aggregate(repo, mod, fn, cls)
    ctx.check(None if shp is None else shp == "min", "R1", "TruncationTransformer.get_min_length:shape",
              "min over rows of min over cells of len", "helper computes %s, expected the minimum over all cell lengths" % (shp,),
              ctx.loc(mod, fn))
    for scen, val, want in (("None", K(None), sym("minlen(X)")), ("given", sym("lower"), sym("lower"))):
        it = mk_interp(repo)
        sv = SelfV(cls)
        sv.attrs.update(lower=val)
        traces, fst, k, fn = run_method(repo, it, sv, "fit", {"X": Src("X", "raw")})
        verdict, got = attr_verdict(traces, sv, "lower_", want)
        ctx.check(verdict, "R1", "TruncationTransformer.fit[lower=%s]:lower_" % scen, "lower_ = %r" % (want,),
                  "lower_ is %r on some path (e.g. lower=0 -- truncate to range(0, upper) -- taken for 'not given'), expected %r on "
                  "every path" % (got, want), ctx.loc(mod, fn))
    # the fitted lower_ decides the truncation whatever the raw option was (None = fitted from the data, or given)
    for lscen, lval in (("given", sym("lower")), ("None", K(None))):
      for scen, up, want in (("None", K(None), Rng(ZERO, LO)), ("given", UP, Rng(LO, UP))):
        it = mk_interp(repo)
        sv = SelfV(cls)
        sv.attrs.update(lower_=LO, upper=up, lower=lval)
        traces, fst, k, fn = run_method(repo, it, sv, "transform", {"X": Src("X", "raw")})
        loc = ctx.loc(mod, fn)
        c = "TruncationTransformer.transform[%supper=%s]" % ("" if lscen == "given" else "lower=None,", scen)
        rets = distinct_returns(traces)
        if not rets:
            ctx.undecided("R1", c + ":value", "transform has no normal return", loc)
        for s, ret in rets:
            truncate_return(ctx, c, it, s, ret, scen, want, LO, loc)


def truncate_return(ctx, c, it, s, ret, scen, want, LO, loc):
    guard_tight(ctx, c + ":guard", it, s.facts, LO - sym("minlen(X)"), "min cell length < lower_", loc)
    cells = per_cell(ctx, c + ":per-cell", ret, loc)
    if cells is None:
        return
    cell, val = cells
    if not (isinstance(val, Sub) and val.base == cell and len(val.spec) == 1):
        ctx.undecided("R1", c + ":cell-index", "cell value is not an indexing of that cell: %r" % (val,), loc)
        return
    sp = val.spec[0]
    got = sp[1] if sp[0] == "v" else (Rng(sp[1] if sp[1] is not None else ZERO, sp[2]) if sp[0] == "s" and sp[2] is not None else None)
    verdict = None
    if got is not None and val.how == "loc":
        verdict = False
    elif got is not None and (val.how == "iloc" or sp[0] == "s"):
        verdict = got == want
    ctx.check(verdict, "R1", c + ":cell-index",
              "every cell is indexed by position with %r" % (want,),
              "cells are indexed %s with %r, expected positions %r"
              % ("by label" if val.how != "iloc" else "by position", got, want), loc, witness={"index": repr(got)})
    if scen == "None" and isinstance(got, Rng):
        f = it.all_facts(s.facts)
        f.add_cmp(sym("minlen(X)"), "<=", cell.length, "shortest cell <= cell length")
        inb = f.entails((got.hi - 1) - (cell.length - 1)) is not None
        if not inb and "minlen(X)" not in getattr(it, "measures", set()):
            inb = None
        ctx.check(inb, "R1", c + ":in-bounds",
                  "last kept position < len(cell) follows from the guard",
                  "last kept position %r is not bounded by the cell length" % (got.hi - 1,), loc)


# ------------------------------------------------------------------- R1: sliding windows
def dedupe(events):
    seen, out = set(), []
    for e in events:
        k = (e.kind, id(e.node), tuple(id(l.node) for l in e.loops))
        if k not in seen:
            seen.add(k)
            out.append(e)
    return out


def concrete(it, lin, env):
    """Value of an affine form on a concrete instance (floor symbols are evaluated from their definitions), or None."""
    total = lin.const
    for s_, cf in lin.terms.items():
        if s_ in env:
            v = env[s_]
        elif s_ in it.floordefs:
            num, den = it.floordefs[s_]
            nv = concrete(it, num, env)
            if nv is None:
                return None
            v = nv // den
        else:
            return None
        total += cf * v
    return total


def differ_witness(it, a, b):
    """A small concrete configuration on which two affine forms differ (description) or None."""
    for w in (1, 2, 3, 4, 5):
        env = {"w": w, "n(X)": 2, "m(X)": 4, "c(X)": 1}
        va, vb = concrete(it, a, env), concrete(it, b, env)
        if va is not None and vb is not None and va != vb:
            return "window_length=%d, n_timepoints=4: %s vs %s" % (w, va, vb)
    return None


def r1_sliding(ctx, repo):
    cls = repo.cls(SEGMENT + ":SlidingWindowSegmenter")
    mod = cls.module
    W = sym("w")
    it = mk_interp(repo)
    sv = SelfV(cls)
    sv.attrs.update(window_length=W)
    X = Src("X", "raw")
    traces, fst, k, fn = run_method(repo, it, sv, "transform", {"X": X})
    loc = ctx.loc(mod, fn)
    c = "SlidingWindowSegmenter.transform"
    s, ret = one_return(ctx, "R1", c + ":value", traces, loc)
    if ret is None:
        return
    n, m = sym("n(X)"), sym("m(X)")
    X2 = Src("X", "np2", [n, m])
    df = None
    if isinstance(ret, CallV) and ret.name == "transpose" and not ret.args and not ret.kwargs:
        df = ret.recv
    elif isinstance(ret, Opq) and ret.tag == "attr:T" and len(ret.args) == 1:
        df = ret.args[0]
    if not (isinstance(df, CallV) and df.name == "pandas.DataFrame" and not df.args and not df.kwargs):
        ctx.undecided("R1", c + ":output", "return value is not the transpose of a frame filled column by column: %r" % (ret,), loc)
        return
    stores = dedupe([e for e in it.events if e.kind == "store" and e.base is df])
    if len(stores) != 1 or len(stores[0].spec) != 1 or stores[0].spec[0][0] != "i" \
            or not isinstance(as_listv(stores[0].value), ListV):
        ctx.undecided("R1", c + ":output", "expected one column store df[i] = <list of windows>, found %r" % (stores,), loc)
        return
    e = stores[0]
    ivar = e.spec[0][1]
    lp = [l for l in e.loops if l.var is not None and l.var == ivar]
    ctx.check(len(lp) == 1 and position_loop(lp[0], n, it), "R1", c + ":output",
              "column i of the frame (row i after the transpose) is instance i, i in range(n_instances)",
              "frame columns are keyed by %r in %r, expected the instance index over range(n_instances)" % (ivar, [l.it for l in lp]), loc)
    wl = as_listv(e.value)
    val = wl.elem
    win = val.arg(0, "data") if isinstance(val, CallV) and val.name == "pandas.Series" else val
    whole_view = None
    if isinstance(win, Sub) and isinstance(win.base, Strided) and len(win.base.shape) == 3 and isinstance(win.base.base, Buf) \
            and len(win.spec) == 2 and win.spec[0] == ("i", ivar) and win.spec[1][0] == "i":
        # one view (instances x windows x window) over the whole padded buffer: instance i of the view must start at row i
        whole_view = win.base
        pbuf = whole_view.base
        steps = whole_view.steps
        rowlen = pbuf.shape[1] if len(pbuf.shape) == 2 else None
        verdict = None
        detail = "row stride %r" % ((steps or [None])[0],)
        if steps and steps[0] is not None and rowlen is not None:
            verdict = steps[0] == rowlen
            if not verdict:
                wit = differ_witness(it, steps[0], rowlen)
                verdict = False if wit else None
                detail = ("instance i of the view starts %r items after instance i-1 but a padded row has %r items%s: windows of "
                          "instance i >= 1 are read from shifted positions (partly from the neighbouring row)"
                          % (steps[0], rowlen, (" (e.g. %s)" % wit) if wit else ""))
        ctx.check(verdict, "R1", c + ":row-stride", "the instance stride of the view is the length of a padded row", detail, loc)
        row = it.buf_row(pbuf, ivar)
        inner_unit = None if not steps or None in steps[1:] else all(x == ONE for x in steps[1:])
        if row is not None:
            win = Sub(Strided(row, whole_view.shape[1:], inner_unit, (steps or [None, None, None])[1:]), [win.spec[1]])
    if not (wl.var is not None and not wl.filtered and isinstance(win, Sub) and isinstance(win.base, Strided)
            and len(win.spec) == 1 and win.spec[0][0] == "i"):
        ctx.undecided("R1", c + ":windows", "list element is not row j of a strided view: %r over %r" % (val, wl.it), loc)
        return
    jvar, sv_ = wl.var, win.base
    jlen = wl.it.length() if isinstance(wl.it, Rng) and wl.it.lo == ZERO else (seq_len(wl.it, it) if not isinstance(wl.it, Rng) else None)
    ctx.check(jlen is not None and jlen == m and reordered(wl.it) is None and win.spec[0][1] == jvar, "R1", c + ":window-count",
              "one window per time point, window j = view[j], j in range(n_timepoints)",
              "windows are enumerated as view[%r] for %r, expected view[j], j in range(n_timepoints)" % (win.spec[0][1], wl.it), loc)
    ctx.check(sv_.shape == [m, W], "R1", c + ":view-shape", "strided view has shape (n_timepoints, window_length)",
              "strided view has shape %r, expected (n_timepoints, window_length)" % (sv_.shape,), loc)
    ctx.check(sv_.unit, "R1", c + ":hop", "both strides are one item: element (j, k) = padded[j + k] (hop size 1)",
              "strides are not (itemsize, itemsize) of the padded row: element (j, k) is not padded[j + k]", loc)
    pad = sv_.base
    if not isinstance(pad, Pad):
        ctx.undecided("R1", c + ":pad", "strided base is not the padded row: %r" % (pad,), loc)
        return
    want_p = it.floor_sym(W.scale(Fraction(1, 2)), State())
    pv = pad.left == want_p and pad.right == want_p
    wit = None
    if not pv:
        wit = differ_witness(it, pad.left, want_p) or differ_witness(it, pad.right, want_p)
        pv = False if wit else None
    ctx.check(pv, "R1", c + ":pad-amount",
              "both ends are padded floor(window_length / 2) times",
              "padding is (%r, %r), documented floor(window_length/2) = %r on both ends%s: the windows are not centred on their "
              "time point" % (pad.left, pad.right, want_p, (" (e.g. %s)" % wit) if wit else ""), loc,
              witness={"left": repr(pad.left), "right": repr(pad.right)})
    ctx.check(pad.mode == "edge", "R1", c + ":pad-mode", "padding repeats the edge values",
              "padding mode is %r, documented: repeat the first / last value" % (pad.mode,), loc)
    src_ok = pad.base == Sub(X2, [("i", ivar)])
    if not src_ok and not (isinstance(pad.base, Sub) and pad.base.base == X2):
        src_ok = None
    ctx.check(src_ok, "R1", c + ":pad-source", "row i of the padded data is the padding of X[i]",
              "row %r of the output is built from %r, expected X[%r]" % (ivar, pad.base, ivar), loc)
    plen = shape_of(pad)
    f = it.all_facts(s.facts)
    if plen and plen[0] is not None and sv_.unit:
        last = (sv_.shape[0] - 1) + (sv_.shape[1] - 1)
        q = last - (plen[0] - 1)
        ctx.check(it.all_facts(s.facts, q).entails(q) is not None, "R1", c + ":in-bounds",
                  "last element read (n-1)+(w-1) lies inside the padded row of length %r" % (plen[0],),
                  "the strided view reads position %r of a padded row of length %r (out-of-bounds memory, silently)"
                  % (last, plen[0]), loc, witness={"last_read": repr(last), "padded_length": repr(plen[0])})
    bufs = []
    for ev_ in it.events:
        if ev_.kind == "store" and isinstance(ev_.base, Buf) and ev_.base not in bufs:
            bufs.append(ev_.base)
    pb = [b for b in bufs if any(isinstance(x.value, Pad) for x in b.stores)]
    sb = [b for b in bufs if any(isinstance(x.value, Strided) for x in b.stores)]
    if len(pb) == 1 and plen:
        ctx.check(pb[0].shape == [n, plen[0]], "R1", c + ":padded-shape", "padded buffer is (n_instances, n_timepoints + 2*pad)",
                  "padded buffer has shape %r but each padded row has length %r" % (pb[0].shape, plen[0]), loc)
    elif not pb and not any(isinstance(x.value, Pad) for b in bufs for x in b.stores):
        ctx.ok("R1", c + ":padded-shape", "the rows are padded by one np.pad call along the time axis (no intermediate buffer)", loc,
               nontrivial=False)
    else:
        ctx.undecided("R1", c + ":padded-shape", "padded buffer not identified", loc)
    if whole_view is not None:
        ctx.check(whole_view.shape == [n] + sv_.shape, "R1", c + ":subsequence-shape",
                  "the view is (n_instances, n_timepoints, window_length)",
                  "the view has shape %r, expected (n_instances, n_timepoints, window_length)" % (whole_view.shape,), loc)
    elif len(sb) == 1:
        ctx.check(sb[0].shape == [n] + sv_.shape, "R1", c + ":subsequence-shape",
                  "subsequence buffer is (n_instances, n_timepoints, window_length)",
                  "subsequence buffer has shape %r, each strided view %r" % (sb[0].shape, sv_.shape), loc)
    else:
        ctx.undecided("R1", c + ":subsequence-shape", "subsequence buffer not identified", loc)
    _ = f


# ------------------------------------------------------------------ R1: interpolation
def r1_interpolate(ctx, repo):
    cls = repo.cls(INTERP + ":TSInterpolator")
    mod = cls.module
    LEN, L = sym("length"), sym("L")
    it = mk_interp(repo)
    sv = SelfV(cls)
    sv.attrs.update(length=LEN)
    cell = Src("cell", "series", [L])
    traces, fst, k, fn = run_method(repo, it, sv, "_resize_cell", {"cell": cell})
    loc = ctx.loc(mod, fn)
    c = "TSInterpolator._resize_cell"
    s, ret = one_return(ctx, "R1", c + ":value", traces, loc)
    if ret is not None:
        f = ret.recv if isinstance(ret, CallV) and ret.name == "__call__" else None
        if not (isinstance(f, CallV) and f.name == "scipy.interpolate.interp1d"):
            ctx.undecided("R1", c + ":value", "return value is not interp1d(...)(grid): %r" % (ret,), loc)
        else:
            sig = ["x", "y", "kind", "axis", "copy", "bounds_error", "fill_value", "assume_sorted"]
            b = dict(f.kwargs)
            for nm, a in zip(sig, f.args):
                b.setdefault(nm, a)
            xs, ys = b.get("x"), b.get("y")
            ctx.check(None if not isinstance(xs, Lsp) else (xs.start == ZERO and xs.stop == ONE and as_lin_val(xs.num) == L
                                                           and xs.endpoint == K(True)),
                      "R1", c + ":source-grid", "source grid = linspace(0, 1, len(cell))",
                      "source grid is %r, expected linspace(0, 1, len(cell))" % (xs,), loc)
            ctx.check(False if reordered(ys) == cell else match(ys, cell), "R1", c + ":source-values", "interpolant is fitted on the values of that cell",
                      "interpolant is fitted on %r, expected the cell's values" % (ys,), loc)
            kind = b.get("kind", K("linear"))
            ctx.check(kind == K("linear"), "R1", c + ":kind", "linear interpolation",
                      "interpolation kind is %r, documented linear" % (kind,), loc)
            extra = sorted(set(b) - {"x", "y", "kind"})
            ctx.check(not extra, "R1", c + ":options", "no extrapolation / axis options",
                      "interp1d is called with extra options %r" % (extra,), loc)
            g = ret.args[0] if len(ret.args) == 1 and not ret.kwargs else None
            ok = None
            if isinstance(g, Lsp) and isinstance(xs, Lsp):
                ok = g.start == xs.start and g.stop == xs.stop and as_lin_val(g.num) == LEN and g.endpoint == K(True)
            ctx.check(ok, "R1", c + ":target-grid", "target grid = linspace(0, 1, self.length): same end points, requested length",
                      "target grid is %r; expected %r points sharing the end points of the source grid %r" % (g, LEN, xs), loc)
    cell_state(ctx, c + ":cell-state", it, loc)
    # cell-wise application chain: transform applies, column by column, a function that applies _resize_cell to every cell
    it = mk_interp(repo)
    sv = SelfV(cls)
    sv.attrs.update(length=LEN)
    tf = cls.methods.get("transform")
    if tf is None:
        raise AnalysisError("anchor missing: TSInterpolator.transform")
    Xr = Src("X", "raw")
    traces, fst, k, fn = run_method(repo, it, sv, "transform", {"X": Xr})
    tloc = ctx.loc(mod, fn)
    s, ret = one_return(ctx, "R1", "TSInterpolator.transform:apply", traces, tloc)
    if ret is not None:
        ok = None
        if isinstance(ret, CallV) and ret.name == "apply" and isinstance(ret.recv, Src) and ret.recv.name == "X":
            extra = {k_: v_ for k_, v_ in ret.kwargs.items() if k_ != "func"}
            if extra.get("axis") in (ZERO, K("index")):
                extra.pop("axis")
            colf = ret.arg(0, "func")
            probe_col = Src("col", "series", [sym("n(X)")])
            fr = Frame(k.module, fn, cls, k)
            v = it.call_value(colf, [probe_col], {}, None, State(), fr) if isinstance(colf, (LamV, LocalFn, BoundM)) else NotImplemented
            if v is not NotImplemented and isinstance(v, CallV) and v.name == "apply" and v.recv == probe_col \
                    and not (set(v.kwargs) - {"func"}) and len(v.args) <= 1:
                fsame = same_function(it, v.arg(0, "func"), BoundM(sv, "_resize_cell"), Src("probe", "series", [sym("Lp")]), fr)
                ok = fsame if fsame is None else (fsame and not extra and len(ret.args) <= 1)
            elif v is not NotImplemented and isinstance(v, CallV) and v.name == "apply" and v.recv == probe_col:
                ok = False  # the per-cell function receives extra arguments shared by all cells of the column
            elif v is not NotImplemented and not any(isinstance(x, (LamV, LocalFn, BoundM)) for x in walk(v)):
                ok = False
        ctx.check(ok, "R1", "TSInterpolator.transform:apply", "every cell of every column goes through self._resize_cell",
                  "transform returns %r, expected X.apply(column -> column.apply(self._resize_cell))" % (ret,), tloc)
    # (H4) the requested length is read when a cell is resized, not frozen at construction: build the instance through
    # __init__ with one value of the option, change the option (set_params) and resize a cell
    init = repo.lookup_method(cls, "__init__")
    if init is not None and "length" in astq.param_names(init[1]):
        it = mk_interp(repo)
        sv = SelfV(cls)
        L0 = sym("length@init")
        pre = Facts()
        pre.add_cmp(L0, ">=", 1, "a valid length")
        it.run_function(Frame(init[0].module, init[1], cls, init[0]), {"self": sv, "length": L0}, State(facts=pre))
        sv.attrs["length"] = LEN  # set_params(length=...)
        cell2 = Src("cell", "series", [L])
        st0 = State()
        for nm, val in sv.attrs.items():
            st0.heap[(id(sv), nm)] = val
        hit = repo.lookup_method(cls, "_resize_cell")
        traces, _ = it.run_function(Frame(hit[0].module, hit[1], cls, hit[0]), {"self": sv, "cell": cell2}, st0)
        vals = [v for _, v in distinct_returns(traces)]
        stale = [x for v in vals for x in walk(v) if isinstance(x, Lsp) and any("length@init" in y for y in (as_lin_val(x.num).symbols()
                                                                                    if as_lin_val(x.num) is not None else ()))]
        ctx.check(None if not vals else not stale, "R1", "TSInterpolator._resize_cell:length-at-use",
                  "the target grid is built from the current value of the length option",
                  "the target grid %r was computed in __init__ from the constructor argument: after set_params(length=...) (or "
                  "clone + set_params) cells are still resized to the old length" % (stale[:1],), ctx.loc(hit[0].module, hit[1]),
                  witness={"history": "TSInterpolator(5).set_params(length=9).fit_transform(X) returns cells of length 5"})


def same_function(it, f, g, probe, frame):
    """Do two function values compute the same abstract result on a probe argument (eta-equivalence included)?"""
    if f == g:
        return True
    st1, st2 = State(), State()
    a = it.call_value(f, [probe], {}, None, st1, frame)
    b = it.call_value(g, [probe], {}, None, st2, frame)
    if a is NotImplemented or b is NotImplemented:
        return None if isinstance(f, (LamV, LocalFn, BoundM)) else False
    return a == b


# -------------------------------------------------------------------- R1: interval slices
def table_of(l):
    """The fitted interval table a loop runs over: directly, by position (``for k in range(len(T))``) or inside
    ``enumerate`` / ``zip``; None if the loop is not over a table."""
    it_ = l.it
    if isinstance(it_, (Rows, Pieces, Cols)) or isinstance(it_, ListV) and isinstance(it_.it, Pieces):
        return it_
    if getattr(l, "over", None) is not None and isinstance(l.over, (Rows, Pieces, Cols)):
        return l.over
    if isinstance(it_, ZipV):
        ts = [x for x in it_.items if isinstance(x, (Rows, Pieces, Cols))]
        if len(ts) == 1:
            return ts[0]
    return None


def extent_of(elem_loop):
    """Half-open extent [lo, hi) that the generic element of the fitted interval table denotes, with a description."""
    itv, var = table_of(elem_loop), elem_loop.var
    if isinstance(itv, Rows):
        r = Row(itv, var)
        return r.start(), r.end(), "row (start, end) of %s" % itv.name
    if isinstance(itv, Pieces):
        p = Piece(itv, var)
        return p.first(), p.last() + 1, "index array first..last (a piece of np.array_split)"
    if isinstance(itv, Cols) and len(itv.items) == 2:
        a, b = itv.items
        ea = a.elem if isinstance(a, EVec) else None
        eb = b.elem if isinstance(b, EVec) else None
        if ea is not None and eb is not None:
            return ea, eb, "row (start, end) of column_stack([starts, ends])"
    return None


def generic_cols(it, cols):
    return [it._generic_elem(x) for x in cols.items]


def check_slices(ctx, construct, it, panel, time_axis, facts, loc, fitted_len=None, collected=None):
    """Every slice of ``panel`` along the time axis made while iterating the fitted intervals is start:end."""
    for ev_ in it.events:
        for l in ev_.loops:
            if isinstance(l.it, Sub) and isinstance(l.it.base, (Rows, Pieces, Cols)):
                ctx.violation("R1", construct, "only a part of the fitted intervals is used: the loop iterates %r" % (l.it,), loc)
                return
            inner = reordered(l.it)
            if inner is not None and any(isinstance(x, (Rows, Pieces, Cols)) for x in walk(inner)):
                ctx.violation("R1", construct, "the fitted intervals are re-ordered / de-duplicated before use (%r): output columns "
                              "no longer correspond to the fitted intervals in their order" % (l.it,), loc)
                return
    loads = dedupe([e for e in it.events if e.kind == "load" and e.base == panel and any(x[0] == "s" for x in e.spec)])
    if len(loads) != 1:
        ctx.undecided("R1", construct, "expected one interval slice of the input, found %d" % len(loads), loc)
        return
    e = loads[0]
    spec = list(e.spec) + [("a",)] * (len(panel.shape) - len(e.spec))
    others = [x for i, x in enumerate(spec) if i != time_axis]
    part = [l for l in e.loops if isinstance(l.it, Sub) and isinstance(l.it.base, (Rows, Pieces, Cols))]
    if part:
        ctx.violation("R1", construct, "only a part of the fitted intervals is used: the loop iterates %r" % (part[0].it,), loc)
        return
    if any(x == ("x", Opq("reversed-axis", [])) for i, x in enumerate(spec) if i != time_axis):
        ctx.violation("R1", construct, "the interval slice %r reverses an axis other than time: instances / columns of the segment are "
                      "emitted in reverse order" % (e.spec,), loc)
        return
    if any(x[0] == "x" for x in spec):
        ctx.undecided("R1", construct, "interval slice with an index that is not understood: %r" % (e.spec,), loc)
        return
    if len(spec) != len(panel.shape) or spec[time_axis][0] != "s" or any(x != ("a",) for x in others):
        ctx.violation("R1", construct, "the interval slice %r does not select all instances and a range of the time axis (axis %d)"
                      % (e.spec, time_axis), loc)
        return
    lo = spec[time_axis][1] if spec[time_axis][1] is not None else ZERO
    hi = spec[time_axis][2]
    lp = [l for l in e.loops if table_of(l) is not None]
    if len(lp) != 1 or hi is None:
        ctx.undecided("R1", construct, "slice is not made inside one loop over the fitted intervals: %r" % (e.loops,), loc)
        return
    itv = table_of(lp[0])
    if isinstance(itv, Cols):
        g = generic_cols(it, itv)
        ext = (g[0], g[1], "row (start, end) of column_stack([starts, ends])") if len(g) == 2 and all(isinstance(x, Lin) for x in g) else None
    elif isinstance(itv, ListV):
        pc = Piece(itv.it, itv.var)
        ext = (pc.first(), pc.last() + 1, "index array first..last (a piece of np.array_split)")
    else:
        ext = extent_of(lp[0])
    if ext is None:
        ctx.undecided("R1", construct, "fitted interval table not understood: %r" % (itv,), loc)
        return
    wlo, whi, what = ext
    for ev_ in it.events:
        if ev_.kind == "mutate" and lp[0] in ev_.loops and isinstance(ev_.base, AccList) and lp[0] not in ev_.base.created_loops \
                and ev_.spec in ("insert", "pop", "remove", "sort", "reverse"):
            ctx.violation("R1", construct, "the segments are collected with %s(): their order is not the order of the fitted intervals "
                          "(and of the column names)" % ev_.spec, loc)
            return
    for ev_ in it.events:
        if ev_.kind == "load" and lp[0] in ev_.loops and isinstance(ev_.value, Sub) and ev_.value.base == panel \
                and len(ev_.value.spec) == len(panel.shape):
            tsel = ev_.value.spec[time_axis]
            if tsel[0] == "s" and (tsel[1] if tsel[1] is not None else ZERO, tsel[2]) != (lo, hi):
                ctx.violation("R1", construct, "inside the interval loop the time axis is sliced again: a feature is computed on "
                              "X[.., %r:%r] instead of the fitted interval [%r:%r) (the slice is applied twice)"
                              % (tsel[1], tsel[2], lo, hi), loc, witness={"time_slice": [repr(tsel[1]), repr(tsel[2])]})
                return
    for cv in it.calls:
        if lp[0] in cv.loops:
            for a in list(cv.args) + list(cv.kwargs.values()):
                if a == panel:
                    ctx.violation("R1", construct, "inside the interval loop %s(...) receives the whole input instead of the interval slice"
                                  % cv.name, loc)
                    return
                inner = reordered(a)
                if isinstance(inner, Sub) and inner.base == panel:
                    ctx.violation("R1", construct, "the interval slice is re-ordered (%r) before the features are computed" % (a,), loc)
                    return
    if lo == wlo and hi + 1 == whi:
        # its own construct key: the generic ':slice' key stays available for any other mismatch
        ctx.violation("R1", construct + ":last-point", "slice [%r : %r) but the fitted interval (%s) covers [%r : %r) -- the last point "
                      "of every interval is dropped" % (lo, hi, what, wlo, whi), loc,
                      witness={"slice": [repr(lo), repr(hi)], "fitted": [repr(wlo), repr(whi)]})
        return
    if collected is not None:
        sl_val = e.value
        accs = [x for x in walk_with_stores(collected, it.events) if isinstance(x, AccList)
                and any(v is sl_val or v == sl_val for v, _, _, _ in x.appends)]
        ctx.check(bool(accs) and all(not a.other for a in accs), "R1", construct + ":collected",
                  "every interval slice is appended to the list the output frame is built from",
                  "the interval slices are not collected into the returned frame (no append of the slice reaches the return value)", loc)
    ctx.check(lo == wlo and hi == whi, "R1", construct,
              "slice [%r : %r) covers exactly the fitted interval (%s)" % (lo, hi, what),
              "slice [%r : %r) but the fitted interval (%s) covers [%r : %r)%s"
              % (lo, hi, what, wlo, whi, " -- the last point of every interval is dropped" if hi + 1 == whi else ""), loc,
              witness={"slice": [repr(lo), repr(hi)], "fitted": [repr(wlo), repr(whi)]})
    if isinstance(itv, Cols) and fitted_len is not None and lo == wlo and hi == whi:
        for nm, q in (("start>=0", ZERO - lo), ("end<=n_timepoints", hi - fitted_len), ("non-empty", lo + 1 - hi)):
            ctx.check(entailed(it, facts, q), "R1", construct + ":" + nm,
                      "fitted random interval satisfies %s" % nm,
                      "the bounds of the random draws do not entail %s (obligation %r <= 0)" % (nm, q), loc)


def r1_intervals(ctx, repo):
    seg = repo.cls(SEGMENT + ":IntervalSegmenter")
    rseg = repo.cls(SEGMENT + ":RandomIntervalSegmenter")
    mod = seg.module
    n, m = sym("n(X)"), sym("m(X)")
    X2 = Src("X", "np2", [n, m])
    scen = [
        (seg, "IntervalSegmenter[intervals=ndarray]", {"intervals": Rows("intervals")}),
        (seg, "IntervalSegmenter[intervals=int]", {"intervals": sym("intervals")}),
        (rseg, "RandomIntervalSegmenter[n_intervals=random]",
         {"n_intervals": K("random"), "min_length": K(None), "max_length": K(None)}),
        (rseg, "RandomIntervalSegmenter[n_intervals=other]",
         {"n_intervals": K("sqrt"), "min_length": sym("min_length"), "max_length": K(None)}),
        (rseg, "RandomIntervalSegmenter[n_intervals=other,min_length=None]",
         {"n_intervals": K("sqrt"), "min_length": K(None), "max_length": K(None)}),
    ]
    for cls, tag, attrs in scen:
        it = mk_interp(repo, no_inline=NO_INLINE + ("_get_n_from_n_timepoints",))
        sv = SelfV(cls)
        sv.attrs.update(attrs)
        pre = Facts()
        pre.add_cmp(sym("min_length"), ">=", 1, "min_length validated by check_window_length")
        pre.add_cmp(m, ">=", 2, "series have at least two points")
        pre.add_cmp(m, ">=", sym("min_length"), "series are at least min_length long")
        traces, fst, k, fn = run_method(repo, it, sv, "fit", {"X": Src("X", "raw")}, pre)
        fit_rets = normal_returns(traces)
        locf = ctx.loc(k.module, fn)
        if len(fit_rets) != 1:
            ctx.undecided("R1", tag + ":fit", "expected one normal path through fit, found %d" % len(fit_rets), locf)
            continue
        fs = fit_rets[0][0]
        table = sv.attrs.get("intervals_")
        if tag.endswith("[intervals=int]"):
            half = it.floor_sym(m.scale(Fraction(1, 2)), State())
            sl = it.all_facts(fs.facts).slack(sym("intervals") - half)
            if sl is not None and sl < 0:
                ctx.violation("R1", tag + ":fit-guard", "the guard on the number of intervals rejects intervals = n_timepoints // 2 "
                              "(off by %s): a configuration its own message calls valid (`must be half the number of time points`) "
                              "produces no output" % (-sl,), locf, witness={"intervals": "n_timepoints // 2"})
            else:
                ctx.ok("R1", tag + ":fit-guard", "intervals = n_timepoints // 2 is accepted (guard slack %s)" % (sl,), locf)
            pcs = [v for v in walk(table) if isinstance(v, Pieces)] if table is not None else []
            ok = len(pcs) == 1 and pcs[0].base == Rng(ZERO, m) and pcs[0].k == sym("intervals")
            ctx.check(ok if len(pcs) == 1 else None, "R1", tag + ":fit-pieces",
                      "fitted pieces = np.array_split(arange(n_timepoints), intervals): a partition of the whole series",
                      "fitted pieces are %r, expected array_split(arange(n_timepoints), intervals)" % (table,), locf)
        if tag.endswith("[n_intervals=other]") and isinstance(table, Cols) and table.items and isinstance(table.items[0], EVec):
            size = getattr(table.items[0], "size", None)
            cnt = size.items[0] if isinstance(size, Tup) and len(size.items) == 1 else size
            good = None
            if isinstance(cnt, CallV) and cnt.name.endswith("._get_n_from_n_timepoints"):
                b = bound(cnt, ["n_timepoints", "n"])
                good = b.get("n_timepoints") == m and b.get("n") == attrs["n_intervals"]
            elif cnt is not None and not any(isinstance(x, CallV) and x.name.endswith("._get_n_from_n_timepoints") for x in walk(cnt)):
                good = False
            ctx.check(good, "R1", tag + ":count", "the number of fitted intervals is _get_n_from_n_timepoints(n_timepoints, n_intervals)",
                      "the number of fitted intervals is %r, expected _get_n_from_n_timepoints(n_timepoints, self.n_intervals)" % (cnt,), locf)
        for j, (lo_, hi_, before) in enumerate(getattr(it, "randints", [])):
            q = lo_ - (hi_ - 1)
            ctx.check(relevant(before, q).entails(q) is not None, "R1", tag + ":draw-range#%d" % (j + 1),
                      "randint(%r, %r) always has a non-empty range" % (lo_, hi_),
                      "randint(%r, %r) can be asked for an empty range (low > high - 1 is possible): the earlier draw is not "
                      "bounded so that the interval fits into the series" % (lo_, hi_), locf)
        st0 = State(facts=fs.facts, heap=fs.heap)
        hit = repo.lookup_method(cls, "transform")
        kt, ft = hit
        traces, _ = it.run_function(Frame(kt.module, ft, cls, kt), {"self": sv, "X": Src("X", "raw")}, st0)
        loct = ctx.loc(kt.module, ft)
        rets = normal_returns(traces)
        if not rets:
            ctx.undecided("R1", tag + ":slice", "transform has no normal return", loct)
            continue
        check_slices(ctx, tag + ":slice", it, X2, 1, rets[0][0].facts, loct, fitted_len=m, collected=rets[0][1])
        ctx.count("scenarios")
    # RandomIntervalFeatureExtractor: fit delegates to a RandomIntervalSegmenter, transform slices the 3-d array
    fe = repo.cls(EXTRACT + ":RandomIntervalFeatureExtractor")
    it = mk_interp(repo, no_inline=NO_INLINE + ("_get_n_from_n_timepoints", "_check_features"))
    sv = SelfV(fe)
    opts = {"n_intervals": K("sqrt"), "min_length": sym("min_length"), "max_length": K(None),
            "random_state": Opq("random_state")}
    sv.attrs.update(opts)
    pre = Facts()
    pre.add_cmp(sym("min_length"), ">=", 1, "min_length validated by check_window_length")
    pre.add_cmp(m, ">=", 2, "series have at least two points")
    pre.add_cmp(m, ">=", sym("min_length"), "series are at least min_length long")
    traces, fst, k, fn = run_method(repo, it, sv, "fit", {"X": Src("X", "raw"), "y": Opq("y")}, pre)
    locf = ctx.loc(k.module, fn)
    tag = "RandomIntervalFeatureExtractor"
    fit_rets = normal_returns(traces)
    inner = sv.attrs.get("_interval_segmenter")
    if len(fit_rets) != 1 or not isinstance(inner, SelfV) or inner.cls is not rseg:
        ctx.undecided("R1", tag + ".fit:delegate", "fit does not build one RandomIntervalSegmenter: %r" % (inner,), locf)
    else:
        for p, v in opts.items():
            ctx.check(inner.attrs.get(p) == v, "R1", tag + ".fit:option:" + p,
                      "segmenter option %s = self.%s" % (p, p),
                      "the inner segmenter receives %s=%r, expected self.%s" % (p, inner.attrs.get(p), p), locf)
        ctx.check(sv.attrs.get("intervals_") is not None and sv.attrs.get("intervals_") == inner.attrs.get("intervals_")
                  and isinstance(inner.attrs.get("intervals_"), Cols), "R1", tag + ".fit:intervals_",
                  "intervals_ are the intervals fitted by the inner segmenter on X",
                  "intervals_ is %r, inner segmenter fitted %r" % (sv.attrs.get("intervals_"), inner.attrs.get("intervals_")), locf)
        fs = fit_rets[0][0]
        st0 = State(facts=fs.facts, heap=fs.heap)
        kt, ft = repo.lookup_method(fe, "transform")
        traces, _ = it.run_function(Frame(kt.module, ft, fe, kt), {"self": sv, "X": Src("X", "raw")}, st0)
        rets = normal_returns(traces)
        loct = ctx.loc(kt.module, ft)
        if not rets:
            ctx.undecided("R1", tag + ".transform:slice", "transform has no normal return", loct)
        else:
            X3 = Src("X", "np3", [n, ONE, m])
            check_slices(ctx, tag + ".transform:slice", it, X3, 2, rets[0][0].facts, loct, fitted_len=m)



def r1_paa_length(ctx, repo):
    """PAA: the frames of a column are formed over all time points of *that* column's series: the inner loop runs over
    range(series length of the array being processed) and reads series[n]."""
    cls = repo.cls(PAA + ":PAA")
    it = mk_interp(repo, no_inline=NO_INLINE + ("_check_parameters",))
    sv = SelfV(cls)
    sv.attrs.update(num_intervals=sym("k"))
    traces, fst, k, fn = run_method(repo, it, sv, "transform", {"X": Src("X", "raw")})
    loc = ctx.loc(k.module, fn)
    c = "PAA.transform:series-length"
    reads = dedupe([e for e in it.events if e.kind == "load" and isinstance(e.base, Sub) and isinstance(e.base.base, Src)
                    and e.base.base.kind == "np2" and len(e.base.spec) == 1 and e.base.spec[0][0] == "i"
                    and len(e.spec) == 1 and e.spec[0][0] == "i"])
    if not reads:
        ctx.undecided("R1", c, "no read series[n] of the 2-d column array inside a loop over the time points was found", loc)
        return
    for e in reads:
        arr = e.base.base
        tl = [l for l in e.loops if l.var is not None and l.var == e.spec[0][1]]
        if len(tl) != 1 or not isinstance(tl[0].it, Rng):
            ctx.undecided("R1", c, "the time index %r of the read is not a loop variable over a range" % (e.spec[0][1],), loc)
            continue
        want = Rng(ZERO, arr.shape[1])
        got = tl[0].it
        verdict = got == want
        if not verdict and not (got.lo.is_const() and got.step == ONE and all(
                x.startswith(("len(", "m(", "n(", "c(")) for x in got.hi.symbols())):
            verdict = None
        ctx.check(verdict, "R1", c, "the frames of a column are accumulated over range(length of that column's series)",
                  "the time loop runs over %r but the array being processed (%s) has %r time points: with columns of different series "
                  "length (or a length taken from another column) frames are cut short or read beyond the series"
                  % (got, arr.name, arr.shape[1]), loc, witness={"loop": repr(got), "series_length": repr(arr.shape[1])})


def r1_paa_frames(ctx, repo):
    """PAA frame loop as a weighted running sum, decided by polynomial symbolic execution of the loop body: running size
    and sum start at 0 for every series; every point contributes total weight 1 (weight a to the frame being closed,
    1 - a carried into the next); the running size is the weight accumulated in the open frame; a frame is emitted
    exactly when its weight reaches frame_length = n_timepoints / num_intervals and its value is sum / frame_length."""
    from ._c14_poly import PolyExec, Path, Poly, Ratio, Unknown
    cls = repo.cls(PAA + ":PAA")
    fn = repo.func(PAA, "PAA._perform_paa_along_dim")
    loc = ctx.loc(cls.module, fn)
    c = "PAA._perform_paa_along_dim:frames"
    # the frame loop is found by what it does (a loop over range(..) that reads <series>[loop variable] and appends), in
    # the method itself or in a helper method it calls on self
    cands, work, seen = [], [fn], set()
    while work:
        g = work.pop()
        if id(g) in seen:
            continue
        seen.add(id(g))
        for nd in ast.walk(g):
            if isinstance(nd, ast.For) and isinstance(nd.target, ast.Name) and isinstance(nd.iter, ast.Call) \
                    and dotted(nd.iter.func) == "range" \
                    and any(isinstance(x, ast.Call) and isinstance(x.func, ast.Attribute) and x.func.attr == "append" for x in ast.walk(nd)) \
                    and any(isinstance(x, ast.Subscript) and isinstance(x.slice, ast.Name) and x.slice.id == nd.target.id
                            for x in ast.walk(nd)) \
                    and not any(isinstance(x, ast.For) for b_ in nd.body for x in ast.walk(b_)):
                cands.append((g, nd))
            if isinstance(nd, ast.Call) and isinstance(nd.func, ast.Attribute) and isinstance(nd.func.value, ast.Name) \
                    and nd.func.value.id == "self" and len(seen) < 6:
                hit = repo.lookup_method(cls, nd.func.attr)
                if hit is not None:
                    work.append(hit[1])
    if len(cands) != 1:
        ctx.undecided("R1", c, "expected one loop over the time points that reads series[n] and emits frames, found %d" % len(cands), loc)
        return
    host, inner = cands[0]
    loc = ctx.loc(cls.module, host)
    ex = PolyExec()

    def lenient(stmts, path):
        for st in stmts:
            try:
                res = ex.stmt(st, path)
                if len(res) != 1:
                    raise Unknown("branch before the frame loop")
                path = res[0]
            except Unknown:
                for x in ast.walk(st):
                    if isinstance(x, ast.Name) and isinstance(x.ctx, ast.Store):
                        path.env[x.id] = Poly.sym("<%s>" % x.id)
        return path

    try:
        pre = Path({})
        block = host.body
        for st_ in astq.enclosing_stmts(host, inner):
            pre = lenient(block[:block.index(st_)], pre)
            if st_ is inner:
                break
            block = st_.body if inner in list(ast.walk(ast.Module(body=list(st_.body), type_ignores=[]))) else getattr(st_, "orelse", [])
        carried = sorted(carried_names(inner.body, target_names(inner.target)))
        init = {v: pre.env.get(v) for v in carried}
        start = pre.copy()
        tvar = inner.target.id
        start.env[tvar] = Poly.sym(tvar)
        for v in carried:
            start.env[v] = Poly.sym(v + "@pre")
        bound_v = None
        ra = inner.iter.args
        if len(ra) == 1 or len(ra) == 2 and isinstance(ra[0], ast.Constant) and ra[0].value == 0:
            bound_v = ex.atom(ex.ev(ra[-1], pre.env))
        paths = ex.run(inner.body, [start])
    except (Unknown, ValueError) as e:
        ctx.undecided("R1", c, "the frame loop is not interpretable as polynomial updates (%s)" % e, loc)
        return
    xs = sorted({s_ for p_ in paths for v in p_.env.values() if isinstance(v, Poly) for s_ in v.symbols()
                 if s_.endswith("[%s]" % tvar)})
    emitting = [p_ for p_ in paths if p_.emits]
    if len(xs) != 1 or not emitting or not all(isinstance(p_.emits[-1][1], Ratio) for p_ in emitting):
        ctx.undecided("R1", c, "no single series[n] read / no emitted sum / length found in the frame loop", loc)
        return
    x = xs[0]
    V0 = emitting[0].emits[-1][1]
    F = V0.den
    sums = [v for v in carried if (v + "@pre") in V0.num.symbols()]
    eqs = [d for p_ in emitting for op, d, _ in p_.cons if op == "=="][:1]
    sizes = [v for v in carried if eqs and (v + "@pre") in eqs[-1].symbols() and v not in sums]
    if len(sums) != 1 or len(sizes) != 1:
        ctx.undecided("R1", c, "running sum / running size of the open frame not identified (%r / %r)" % (sums, sizes), loc)
        return
    fsyms = [y for y in eqs[-1].symbols() if y in ex.defs] if eqs else []
    if len(fsyms) == 1:
        F = Poly.sym(fsyms[0])  # the length the running size is compared with
    sv_, zv = sums[0], sizes[0]
    S0, s0 = Poly.sym(sv_ + "@pre"), Poly.sym(zv + "@pre")
    X = Poly.sym(x)
    ZP = Poly()
    # (a) initial state
    ctx.check(None if init[sv_] is None or init[zv] is None else (init[sv_] == ZP and init[zv] == ZP), "R1", c + ":init",
              "for every series the running sum and the running frame size start at 0",
              "before the first point the running sum is %r and the running frame size %r (expected 0 and 0): the first frame of "
              "every series is biased" % (init[sv_], init[zv]), loc)
    # (b) frame length
    fdef = ex.defs.get(list(F.symbols())[0]) if len(F.symbols()) == 1 and F == Poly.sym(list(F.symbols())[0]) else None
    ok = None
    if fdef is not None and bound_v is not None:
        ok = fdef[0] == bound_v and fdef[1] == Poly.sym("<self.num_intervals>")
    ctx.check(ok, "R1", c + ":frame-length", "frame_length = n_timepoints / num_intervals (the loop runs over all n_timepoints points)",
              "frame length is %r over a loop of %r points, expected n_timepoints / self.num_intervals" % (fdef, bound_v), loc)

    def facts_of(p_):
        f = Facts()
        for op, d, _ in p_.cons:
            l_ = d.to_lin()
            if l_ is None:
                return None
            if op == "!=":
                continue
            # rational comparisons: the facts engine is integral; scale strict comparisons conservatively (no +1)
            if op in ("<", "<="):
                f.add_le0(l_, "path condition")
            elif op in (">", ">="):
                f.add_le0(-l_, "path condition")
            else:
                f.add_le0(l_, "path condition")
                f.add_le0(-l_, "path condition")
        return f

    def strictly(p_, lin_pos):
        """Do the path conditions imply ``lin_pos > 0`` (some strict condition has exactly this form)?"""
        for op, d, _ in p_.cons:
            l_ = d.to_lin()
            if l_ is None:
                continue
            if op == ">" and (l_ - lin_pos).is_const() and (l_ - lin_pos).const <= 0:
                return True
            if op == "<" and ((-l_) - lin_pos).is_const() and ((-l_) - lin_pos).const <= 0:
                return True
        return False

    verdicts = {"point-weight": True, "size": True, "mass": True, "mean": True, "no-overfill": True, "weight-range": True}
    notes = {}

    def fail(key, why, hard=True):
        if verdicts[key] is True or (hard and verdicts[key] is None):
            verdicts[key] = False if hard else None
            notes[key] = why

    for p_ in paths:
        S1, s1 = p_.env.get(sv_), p_.env.get(zv)
        if not isinstance(S1, Poly) or not isinstance(s1, Poly):
            fail("point-weight", "state not numeric on a path", hard=False)
            continue
        arithmetic = [ex.ops[y] for y in (S1.symbols() | s1.symbols()) if y in ex.ops]
        if p_.emits:
            V = p_.emits[-1][1]
            eq = [d for op, d, _ in p_.cons if op == "=="]
            if eq and (eq[-1].degree_in(zv + "@pre") != 1 or not eq[-1].coeff(zv + "@pre").is_const()):
                fail("mass", "the emission condition is not an equality that fixes the running size", hard=False)
                continue
            if eq:
                d = eq[-1]
                c0 = d.coeff(zv + "@pre").const()
                sol = d.without(zv + "@pre") * Poly.c(Fraction(-1) / c0)  # the running size that makes the frame complete
            else:
                sol = s0  # the emission condition holds identically on this path: the identities must hold as they are

            def mod(q, sol=sol):
                return q.subst(zv + "@pre", sol)
            a = V.num.coeff(x)
            if a is None or (V.num - a * X) != S0:
                fail("point-weight", "the emitted sum is %r, not running sum + weight * series[n]%s"
                     % (V.num, (" (uses %s where a product is needed)" % ", ".join(arithmetic + [ex.ops[y] for y in V.num.symbols() if y in ex.ops])) if
                        [y for y in V.num.symbols() if y in ex.ops] or arithmetic else ""))
                continue
            if V.den != F:
                fail("mean", "a frame is emitted as sum / %r, expected sum / frame_length" % (V.den,))
            b = S1.coeff(x)
            if b is None or (S1 - b * X) != ZP:
                fail("point-weight", "after a frame is closed the running sum restarts as %r, expected (carried weight) * series[n]" % (S1,))
                continue
            if mod(a + b - Poly.c(1)) != ZP:
                fail("point-weight", "a point that closes a frame contributes weight %r to it and %r to the next one: together %r, "
                     "expected 1" % (mod(a), mod(b), mod(a + b)))
            if mod(s1 - b) != ZP:
                fail("size", "after a frame is closed the running size is %r but the weight carried into the new frame is %r"
                     % (mod(s1), mod(b)))
            al, f = (a - Poly.c(1)).to_lin(), facts_of(p_)
            if al is not None and f is not None and not al.is_const():
                sl = f.slack(al)
                if sl is None:
                    fail("weight-range", "the weight %r given to the closing frame is not bounded by the path condition" % (a,), hard=False)
                elif sl > 0:
                    fail("weight-range", "a point can enter the closing frame with weight up to %s (weight %r under %s): more than the "
                         "point itself, the surplus is carried into the next frame with a negative sign"
                         % (sl + 1, a, " and ".join("%r %s 0" % (d_, op) for op, d_, _ in p_.cons)))
            elif al is not None and al.is_const() and al.const > 0:
                fail("weight-range", "a point enters the closing frame with weight %r > 1" % (a,))
            if mod(s0 + a - F) != ZP:
                fail("mass", "a frame is emitted when its accumulated weight is %r, expected exactly frame_length" % (mod(s0 + a),))
        else:
            w = S1.coeff(x)
            if w is None or (S1 - w * X) != S0:
                fail("point-weight", "the running sum becomes %r, not running sum + weight * series[n]%s"
                     % (S1, (" (uses %s where a product is needed)" % ", ".join(arithmetic)) if arithmetic else ""))
                continue
            if (s1 - s0) != w:
                fail("size", "a point adds weight %r to the running sum but %r to the running frame size" % (w, s1 - s0))
            if w != Poly.c(1):
                # a fractional contribution without closing the frame loses the rest of the point
                fail("point-weight", "a point contributes weight %r without closing a frame: the remaining %r of the point is lost"
                     % (w, Poly.c(1) - w))
                continue
            room = (F - s1).to_lin()
            f = facts_of(p_)
            if room is None or f is None:
                fail("no-overfill", "path condition not affine", hard=False)
            elif f.entails(-room) is not None or strictly(p_, room):
                pass  # frame_length - new size >= 0 follows
            elif f.entails(room) is not None and not (room.is_const() and room.const == 0) or strictly(p_, -room):
                fail("no-overfill", "a whole point is added although the open frame has less than one unit of room left (path "
                     "condition %s): the frame overfills past frame_length and is never closed"
                     % " and ".join("%r %s 0" % (d, op) for op, d, _ in p_.cons))
            else:
                fail("no-overfill", "cannot relate the new frame size %r to frame_length on a path" % (s1,), hard=False)
    texts = {"point-weight": "every point contributes total weight 1 (weight to the closing frame + weight carried over)",
             "size": "the running size is the weight accumulated in the open frame",
             "mass": "a frame is emitted exactly when its weight reaches frame_length",
             "mean": "an emitted frame is its weighted sum divided by frame_length",
             "no-overfill": "a whole point is only added while the open frame has more than one unit of room",
             "weight-range": "the weight with which a point enters the frame it closes is at most 1"}
    for key in ("point-weight", "size", "mass", "mean", "no-overfill", "weight-range"):
        ctx.check(verdicts[key], "R1", c + ":" + key, texts[key], notes.get(key, ""), loc)


def r1_feature_columns(ctx, repo):
    """RandomIntervalFeatureExtractor.transform: one output column per (feature, interval) pair, filled in loop order."""
    fe = repo.cls(EXTRACT + ":RandomIntervalFeatureExtractor")
    fn = repo.func(EXTRACT, "RandomIntervalFeatureExtractor.transform")
    loc = ctx.loc(fe.module, fn)
    it = mk_interp(repo, no_inline=NO_INLINE + ("_check_features",))
    sv = SelfV(fe)
    sv.attrs.update(intervals_=Rows("intervals_"))
    traces, fst, k, f2 = run_method(repo, it, sv, "transform", {"X": Src("X", "raw")})
    tag = "RandomIntervalFeatureExtractor.transform"
    def feat_seq(l):
        cs = [l.it] + (list(l.it.items) if isinstance(l.it, ZipV) else []) + ([l.over] if getattr(l, "over", None) is not None else [])
        cs = [x for x in cs if isinstance(x, CallV) and x.name.endswith("._check_features")]
        return cs[0] if len(cs) == 1 else None

    all_loops = list({id(l.node): l for e in it.events for l in e.loops}.values())
    floops = [l for l in all_loops if feat_seq(l) is not None]
    if len(floops) != 1:
        ctx.undecided("R2", tag + ":features", "the loop over _check_features(self.features) was not found", loc)
    else:
        fs_ = feat_seq(floops[0])
        a = fs_.args[0] if len(fs_.args) == 1 and not fs_.kwargs else None
        ctx.check(match(a, Opq("self.features")), "R2", tag + ":features", "the features applied are _check_features(self.features)",
                  "the features applied are _check_features(%r), expected the features option" % (a,), loc)
    iloops = [l for l in all_loops if isinstance(table_of(l), Rows)]
    stores = dedupe([e for e in it.events if e.kind == "store" and iloops and iloops[0] in e.loops and len(e.spec) == 2
                     and e.spec[0] == ("a",)])
    c = tag + ":column-counter"
    if len(iloops) != 1 or not stores or not floops or any(floops[0] not in x.loops or x.spec[1] != stores[0].spec[1] for x in stores):
        ctx.undecided("R1", c, "the store of one feature column per (feature, interval) pair was not found", loc)
        return
    # the column is stored on the normal path (not only in the exception fallback)
    ctx.check(any(not getattr(x, "handler", False) for x in stores), "R1", tag + ":column-store",
              "each (feature, interval) column is stored on the normal path",
              "the feature column is stored only inside the exception handler: on the normal path nothing is written", loc)
    inner_node = iloops[0].node
    if isinstance(inner_node, ast.For) and any(isinstance(x, ast.Try) and x.handlers for x in ast.walk(inner_node)):
        ctx.check(any(getattr(x, "handler", False) for x in stores), "R1", tag + ":fallback-store",
                  "the fallback for features without an axis argument stores the same column",
                  "the exception fallback inside the interval loop swallows the error without storing the feature column: the column "
                  "silently stays zero for features that take no axis argument", loc)
    # the features aggregate over the time axis of the interval
    n, m = sym("n(X)"), sym("m(X)")
    X3 = Src("X", "np3", [n, ONE, m])
    for cv in it.calls:
        if iloops[0] not in cv.loops:
            continue
        vals = list(cv.args) + list(cv.kwargs.values())
        if not any(isinstance(a, Sub) and a.base == X3 for a in vals):
            continue
        if cv.name == "numpy.apply_along_axis":
            b = bound(cv, ["func1d", "axis", "arr"])
            ax = b.get("axis")
        elif cv.name == "__call__":
            ax = cv.kwargs.get("axis")
        else:
            continue
        ctx.check(None if not isinstance(ax, Lin) else ax in (Lin.c(-1), Lin.c(2)), "R1", tag + ":feature-axis",
                  "features are computed along the time axis of the interval (axis=-1 / 2 of (instances, columns, time))",
                  "%s(...) aggregates the interval along axis=%r, not along time: one value per time point / column instead of one per "
                  "instance" % (cv.name, ax), loc)
    # width of the output: one column per (feature, interval) pair
    xb = stores[0].base
    if isinstance(xb, Buf) and len(xb.shape) == 2:
        nf, ni = Lin.sym("len(%r)" % (feat_seq(floops[0]),)), Lin.sym("len(%r)" % (table_of(iloops[0]),))
        want_w = it.binop(ast.Mult(), nf, ni, State())
        result_dtype(ctx, "R1", tag + ":output-dtype", xb, loc)
        ctx.check(xb.shape == [n, want_w], "R1", tag + ":output-shape", "the output has n_instances rows and n_features * n_intervals columns",
                  "the output array has shape %r, expected (n_instances, n_features * n_intervals) = %r" % (xb.shape, [n, want_w]), loc)
    else:
        ctx.undecided("R1", tag + ":output-shape", "the output array is not a fresh 2-d buffer: %r" % (xb,), loc)
    sel = stores[0].spec[1]
    if sel[0] == "i":
        # an explicit column formula: the pair (feature k, interval j) goes to column k * n_intervals + j
        kpos, jpos = it._position(floops[0]), it._position(iloops[0])
        ni_ = Lin.sym("len(%r)" % (table_of(iloops[0]),))
        good = None
        if kpos is not None and jpos is not None:
            want_col = it.binop(ast.Mult(), kpos, ni_, State()) + jpos
            good = sel[1] == want_col
        ctx.check(good, "R1", c, "the (feature k, interval j) pair is stored in column k * n_intervals + j",
                  "the (feature k, interval j) pair is stored in column %r, expected k * n_intervals + j: with 2 features and 3 "
                  "intervals columns are overwritten / left empty" % (sel[1],), loc, witness={"column": repr(sel[1])})
        return
    name = sel[1].tag[len("loop-carried:"):] if sel[0] == "x" and isinstance(sel[1], Opq) and sel[1].tag.startswith("loop-carried:") else None
    if name is None:
        ctx.undecided("R1", c, "the column index %r is not a running counter" % (sel,), loc)
        return
    outer, inner = floops[0].node, iloops[0].node
    plain, aug, other = [], [], []
    for nd in ast.walk(fn):
        if isinstance(nd, ast.Assign) and any(isinstance(t, ast.Name) and t.id == name for t in nd.targets):
            plain.append(nd)
        elif isinstance(nd, ast.AugAssign) and isinstance(nd.target, ast.Name) and nd.target.id == name:
            aug.append(nd)
        elif isinstance(nd, ast.Name) and nd.id == name and isinstance(nd.ctx, (ast.Store, ast.Del)) \
                and not any(nd in ast.walk(x) for x in plain + aug):
            other.append(nd)
    ok = (len(plain) == 1 and plain[0] in fn.body and isinstance(plain[0].value, ast.Constant) and plain[0].value.value == 0
          and outer in fn.body and fn.body.index(plain[0]) < fn.body.index(outer)
          and len(aug) == 1 and isinstance(aug[0].op, ast.Add) and isinstance(aug[0].value, ast.Constant) and aug[0].value.value == 1
          and isinstance(inner, ast.For) and aug[0] in inner.body and not other)
    why = "the counter starts at 0 before the feature loop and advances by one per (feature, interval) pair"
    if ok:
        g = CFG(_B(inner.body))
        tgt = [nd for nd in g.nodes if nd.stmt is aug[0]]
        ok = bool(tgt) and g.must_pass(lambda nd: nd is tgt[0])
        for x in stores:
            st_node = g.node_of(x.node)
            ok = ok and st_node is not None and any(nd is tgt[0] for nd in g.may_reach_after(st_node, lambda nd: True))
    ctx.check(ok, "R1", c, why, "the column counter %r is not initialised once before the feature loop and advanced by exactly one after "
              "each (feature, interval) column is stored: columns are overwritten or skipped" % name, loc)


# =============================================================================== R2
FILLNA_SIG = ["value", "method", "axis", "inplace", "limit", "downcast"]
INTERPOLATE_SIG = ["method", "axis", "limit", "inplace", "limit_direction", "limit_area", "downcast"]
EDGE = ("ffill", "backfill", "bfill", "pad")


def bound(cv, sig):
    b = dict(cv.kwargs)
    for nm, a in zip(sig, cv.args):
        b.setdefault(nm, a)
    return b


def is_edge_fill(v):
    """``x.fillna(method=<literal edge method>)`` -- the documented clean-up of leading / trailing gaps."""
    if isinstance(v, CallV) and v.name == "fillna":
        b = bound(v, FILLNA_SIG)
        mth = b.get("method")
        return set(b) == {"method"} and isinstance(mth, K) and not isinstance(mth, KS) and mth.v in EDGE
    return False


def peel_edge(v, n=2):
    while n and is_edge_fill(v) and isinstance(v.recv, CallV):
        v = v.recv
        n -= 1
    return v


def edge_filled_of(v, z0):
    """Is ``v`` = z0 with leading/trailing fills applied (ffill and backfill in some order)?"""
    seen = []
    while is_edge_fill(v):
        seen.append(bound(v, FILLNA_SIG)["method"].v)
        v = v.recv
    fw = any(x in ("ffill", "pad") for x in seen)
    bw = any(x in ("backfill", "bfill") for x in seen)
    return v == z0 and fw and bw


IMPUTER_TABLE = {
    "constant": ("fillna", "value", "self.value"),
    "backfill": ("fillna", "method", "self.method"),
    "bfill": ("fillna", "method", "self.method"),
    "pad": ("fillna", "method", "self.method"),
    "ffill": ("fillna", "method", "self.method"),
    "mean": ("fillna", "value", "Z.mean()"),
    "median": ("fillna", "value", "Z.median()"),
    "nearest": ("interpolate", "method", "self.method"),
    "linear": ("interpolate", "method", "self.method"),
    "random": ("apply", None, "self._get_random"),
    "drift": ("forecast", None, "PolynomialTrendForecaster(degree=1)"),
    "forecaster": ("forecast", None, "self.forecaster"),
}


def r2_imputer(ctx, repo):
    cls = repo.cls(IMPUTE + ":Imputer")
    mod = cls.module
    fn = repo.func(IMPUTE, "Imputer.transform")
    loc = ctx.loc(mod, fn)
    pname = astq.param_names(fn, skip_self=True)[0]
    literals = set()
    for nd in ast.walk(fn):
        if isinstance(nd, ast.Compare):
            for x in [nd.left] + list(nd.comparators):
                for y in (x.elts if isinstance(x, (ast.List, ast.Tuple, ast.Set)) else [x]):
                    if isinstance(y, ast.Constant) and isinstance(y.value, str):
                        literals.add(y.value)
    names = ["<unknown>"] + sorted(set(IMPUTER_TABLE) | literals)
    default_raises = set()
    for name in names:
        c = "Imputer.transform[method=%s]" % name
        it = mk_interp(repo, no_inline=NO_INLINE + ("_check_method",))
        sv = SelfV(cls)
        sv.attrs.update(method=KS(name, "self.method"), missing_values=K(None))
        Z = Src("Z", "series")
        traces, fst, k, f2 = run_method(repo, it, sv, "transform", {pname: Z})
        rets = distinct_returns(traces)
        raised = {id(e.node) for e in it.events if e.kind == "raise" and e.func is fn}
        if name == "<unknown>":
            ctx.check(not rets, "R2", c + ":rejected", "an unknown rule name is rejected on every path",
                      "an unknown rule name is not rejected: transform returns %r" % ([v for _, v in rets][:1],), loc)
            default_raises = raised
            continue
        if name not in IMPUTER_TABLE:
            ctx.info("Imputer.transform compares self.method with the undocumented literal %r (not judged)" % name)
            continue
        if not rets:
            ctx.violation("R2", c + ":operator", "the documented rule name %r is rejected on every path" % name, loc)
            continue
        ctx.check(not (raised & default_raises), "R2", c + ":total", "the documented name never reaches the unknown-method error",
                  "for some option values the documented rule name %r falls through the dispatch to the unknown-method error" % name, loc)
        for s, ret in rets:
            imputer_return(ctx, repo, it, c, name, ret, Z, loc)
            if name in ("backfill", "bfill", "pad", "ffill", "nearest", "linear"):
                # these rules cannot fill a leading and / or trailing gap: the documented clean-up must follow on every path
                core = peel_edge(ret)
                ctx.check(edge_filled_of(ret, core) if isinstance(core, CallV) and core is not ret else False, "R2", c + ":complete",
                          "leading / trailing gaps the rule cannot reach are closed by a final forward and backward fill",
                          "after %r no final forward + backward fill follows (%r): a series that starts or ends with missing values "
                          "keeps them" % (name, ret), loc)
    # missing_values placeholder replacement
    it = mk_interp(repo, no_inline=NO_INLINE + ("_check_method",))
    sv = SelfV(cls)
    sv.attrs.update(method=KS("mean", "self.method"), missing_values=sym("missing_values"))
    Z = Src("Z", "series")
    traces, fst, k, f2 = run_method(repo, it, sv, "transform", {pname: Z})
    c = "Imputer.transform[missing_values given]"
    cands = [v for _, v in normal_returns(traces) if any(isinstance(x, CallV) and x.name == "replace" for x in walk(v))]
    ret = cands[0] if cands and all(x == cands[0] for x in cands) else None
    if ret is None:
        ctx.check(False if not cands else None, "R2", c + ":replace", "",
                  "no path replaces the placeholder self.missing_values before imputing", loc)
    if ret is not None:
        core = peel_edge(ret)
        rep = core.recv if isinstance(core, CallV) else None
        ok = isinstance(rep, CallV) and rep.name == "replace" and rep.recv == Z
        if ok:
            b = bound(rep, ["to_replace", "value", "inplace", "limit", "regex", "method"])
            nan = b.get("value")
            ok = b.get("to_replace") == sym("missing_values") and isinstance(nan, Opq) and nan.tag == "attr:nan" \
                and set(b) == {"to_replace", "value"}
        ctx.check(ok, "R2", c + ":replace", "placeholder values are replaced by NaN before the rule is applied",
                  "the rule is applied to %r, expected Z.replace(to_replace=self.missing_values, value=np.nan)" % (rep,), loc)


def imputer_return(ctx, repo, it, c, name, ret, Z, loc):
    op, kw, what = IMPUTER_TABLE[name]
    core = peel_edge(ret)
    if not isinstance(core, CallV):
        ctx.violation("R2", c + ":operator", "no imputation operator is applied for %r: transform returns %r" % (name, ret), loc)
        return
    if op == "fillna" and what == "self.method":
        # forward / backward fill: fillna(method=<a name of the same direction>) or the direct pandas operator
        direction = {"backfill": "b", "bfill": "b", "pad": "f", "ffill": "f"}
        got_dir, shown = None, core
        if core.recv == Z and core.name in direction and not core.args and not core.kwargs:
            got_dir = direction[core.name]
        elif core.recv == Z and core.name == "fillna":
            b = bound(core, FILLNA_SIG)
            mth = b.get("method")
            if set(b) == {"method"} and isinstance(mth, K) and mth.v in direction:
                got_dir = direction[mth.v]
                shown = "fillna(method=%r)" % (mth.v,)
        ctx.check(core.recv == Z and core.name in ("fillna",) + tuple(direction), "R2", c + ":operator",
                  "%r -> forward / backward fill of Z" % name,
                  "%r dispatches to %s on %r, documented a forward / backward fill of Z" % (name, core.name, core.recv), loc)
        ctx.check(got_dir == direction[name], "R2", c + ":argument", "%r fills %s" % (name, "backward" if direction[name] == "b" else "forward"),
                  "%r is documented as a %s fill but dispatches to %s" % (name, "backward" if direction[name] == "b" else "forward", shown),
                  loc, witness={"operator": repr(core)})
        return
    if op in ("fillna", "interpolate"):
        ok = core.name == op and core.recv == Z
        b = bound(core, FILLNA_SIG if op == "fillna" else INTERPOLATE_SIG) if core.name == op else {}
        ctx.check(ok, "R2", c + ":operator", "%r -> Z.%s(...)" % (name, op),
                  "%r dispatches to %s on %r, documented Z.%s" % (name, core.name, core.recv, op), loc)
        if not ok:
            return
        got = b.get(kw)
        if what == "self.value":
            good = match(got, Opq("self.value"))
        elif what == "self.method":
            good = isinstance(got, KS) and got.origin == "self.method"
        else:
            agg = what[2:-2]
            good = isinstance(got, CallV) and got.name == agg and got.recv == Z and not got.args and not got.kwargs
        ctx.check(good and (set(b) == {kw}), "R2", c + ":argument", "%s(%s=%s)" % (op, kw, what),
                  "%s is called with %r, documented %s=%s only" % (op, b, kw, what), loc, witness={"bound": repr(b)})
    elif op == "apply":
        a0 = core.arg(0, "func")
        good = core.name == "apply" and core.recv == Z
        draws = []
        if good:
            fr = Frame(it.repo.module(IMPUTE), it.repo.func(IMPUTE, "Imputer.transform"), None, None)
            res = it.call_value(a0, [Opq("probe")], {}, None, State(), fr) if isinstance(a0, (LamV, LocalFn, BoundM)) else NotImplemented
            if res is NotImplemented:
                good = None if a0 is not None and not isinstance(a0, (K, Lin)) else False
            else:
                # the helper the element function calls is found by what it does: a draw from a random state
                draws = [x for x in walk(res) if isinstance(x, CallV) and x.name in ("uniform", "randint", "random_sample", "choice",
                                                                                       "normal", "rand")
                         and isinstance(x.recv, CallV) and x.recv.name.endswith("check_random_state")]
                unresolved = [x for x in walk(res) if isinstance(x, CallV) and isinstance(x.recv, SelfV)]
                good = True if draws else (None if unresolved else False)
        ctx.check(good, "R2", c + ":operator", "'random' -> element-wise replacement of missing values by a random draw",
                  "'random' dispatches to %r: no draw from a random state replaces the missing values" % (core,), loc)
        if draws:
            ok = True
            for x in draws:
                a = list(x.args)
                seeded = x.recv.args == [Opq("self.random_state")] and not x.recv.kwargs
                lo_ok = len(a) == 2 and isinstance(a[0], CallV) and a[0].name == "min" and a[0].recv == Z and not a[0].args
                hi_ok = len(a) == 2 and isinstance(a[1], CallV) and a[1].name == "max" and a[1].recv == Z and not a[1].args
                if x.name not in ("uniform", "randint") or x.kwargs:
                    ok = None if ok else ok
                elif not (lo_ok and hi_ok and seeded):
                    ok = False
            ctx.check(ok, "R2", c + ":range", "random values are drawn between Z.min() and Z.max() of the series being imputed, "
                      "from check_random_state(self.random_state), on every branch",
                      "random values are drawn as %r, documented between Z.min() and Z.max() of the imputed series from "
                      "check_random_state(self.random_state)" % (draws,), loc)
    else:
        imputer_forecast(ctx, repo, it, c, name, ret, Z, loc)


def progression(v):
    """(first, step, count) of an arithmetic progression value: ``arange(lo, hi, +-1)`` or its negation; None if not one."""
    if isinstance(v, Opq) and v.tag == "neg-range" and len(v.args) == 1 and isinstance(v.args[0], Rng):
        p = progression(v.args[0])
        return None if p is None else (-p[0], -p[1], p[2])
    if isinstance(v, Rng) and v.step.is_const() and v.step.const in (1, -1):
        return (v.lo, v.step, (v.hi - v.lo).scale(v.step.const))
    return None


def imputer_forecast(ctx, repo, it, c, name, ret, Z, loc):
    core = peel_edge(ret)
    if not (isinstance(core, CallV) and core.name == "fillna"):
        ctx.violation("R2", c + ":operator", "%r does not end in fillna(value=<in-sample prediction>): %r" % (name, ret), loc)
        return
    b = bound(core, FILLNA_SIG)
    pred = b.get("value")
    if not (isinstance(pred, CallV) and pred.name == "predict" and set(b) == {"value"}):
        ctx.violation("R2", c + ":operator", "%r fills with %r, documented the in-sample prediction of the forecaster" % (name, pred), loc)
        return
    fc = pred.recv
    if name == "forecaster":
        good = fc == Opq("self.forecaster")
    else:
        good = isinstance(fc, CallV) and fc.name.endswith(".PolynomialTrendForecaster") and not fc.args \
            and fc.kwargs == {"degree": ONE}
    ctx.check(good, "R2", c + ":forecaster", "%r uses %s" % (name, IMPUTER_TABLE[name][2]),
              "%r predicts with %r, documented %s" % (name, fc, IMPUTER_TABLE[name][2]), loc)
    pb = bound(pred, ["fh", "X", "return_pred_int", "alpha"])
    fh = pb.get("fh")
    prog = progression(fh)
    hv = None if prog is None else prog == (ZERO, Lin.c(-1), sym("m(Z)"))
    ctx.check(hv and set(pb) == {"fh"}, "R2", c + ":horizon", "in-sample horizon -arange(len(Z)): one step per observation",
              "prediction horizon is %r, expected -arange(len(Z))" % (fh,), loc)
    fits = [x for x in it.calls if x.name == "fit" and x.recv == fc]
    fitted = None
    if fits:
        fb = bound(fits[-1], ["y", "X", "fh"])
        fitted = fb.get("y")
    ctx.check(None if not fits else edge_filled_of(fitted, Z), "R2", c + ":fit-data",
              "the forecaster is fitted on the series itself with its gaps bridged by ffill and backfill",
              "the forecaster is fitted on %r, expected the input with its gaps closed by forward and backward fill (a forecaster "
              "cannot be fitted on missing values)" % (fitted,), loc)
    ctx.check(core.recv == Z, "R2", c + ":filled-series",
              "the prediction fills the gaps of the input series",
              "fillna(value=<prediction>) is applied to %r, a copy whose gaps were already closed by ffill/backfill, so the "
              "prediction fills nothing: method=%r returns forward/backward fills, not %s values"
              % (core.recv, name, "trend" if name == "drift" else "forecaster"), loc,
              witness={"receiver": repr(core.recv)})


ACF_SIG = {"acf": ["x", "adjusted", "nlags", "qstat", "fft", "alpha", "missing"],
           "pacf": ["x", "nlags", "method", "alpha"]}
ACF_MAP = {"n_lags": "nlags"}


def r2_acf(ctx, repo):
    for cname, func in (("AutoCorrelationTransformer", "acf"), ("PartialAutoCorrelationTransformer", "pacf")):
        cls = repo.cls(ACF + ":" + cname)
        mod = cls.module
        init = cls.methods.get("__init__")
        if init is None:
            raise AnalysisError("anchor missing: %s.__init__" % cname)
        opts = astq.param_names(init, skip_self=True)
        it = mk_interp(repo)
        sv = SelfV(cls)
        Z = Src("Z", "series")
        fn = repo.func(ACF, cname + ".transform")
        pname = astq.param_names(fn, skip_self=True)[0]
        traces, fst, k, f2 = run_method(repo, it, sv, "transform", {pname: Z})
        loc = ctx.loc(mod, fn)
        c = "%s.transform" % cname
        s, ret = one_return(ctx, "R2", c + ":value", traces, loc)
        if ret is None:
            continue
        inner = ret.arg(0, "data") if isinstance(ret, CallV) and ret.name == "pandas.Series" else ret
        ok = isinstance(inner, CallV) and inner.name == "statsmodels.tsa.stattools." + func
        ctx.check(ok, "R2", c + ":operator", "%s -> statsmodels %s" % (cname, func),
                  "%s returns %r, expected statsmodels.tsa.stattools.%s" % (cname, inner, func), loc)
        if not ok:
            continue
        b = bound(inner, ACF_SIG[func])
        ctx.check(match(b.get("x"), Z), "R2", c + ":data", "applied to the validated input series",
                  "%s is applied to %r" % (func, b.get("x")), loc)
        for o in opts:
            kw = ACF_MAP.get(o, o)
            ctx.check(match(b.get(kw), Opq("self." + o)), "R2", c + ":option:" + o, "%s=self.%s" % (kw, o),
                      "option %s is forwarded as %s=%r, expected %s=self.%s" % (o, kw, b.get(kw), kw, o), loc)
        al = b.get("alpha", K(None))
        ctx.check(al == K(None), "R2", c + ":alpha", "alpha=None (no confidence intervals: a single series is returned)",
                  "alpha=%r makes %s return confidence intervals as well" % (al, func), loc)
        extra = sorted(set(b) - {"x", "alpha"} - {ACF_MAP.get(o, o) for o in opts})
        ctx.check(not extra, "R2", c + ":extra", "no unmapped keyword", "keywords %r do not correspond to a constructor option" % extra, loc)


def r2_simple(ctx, repo):
    """name <-> operator of the one-line transformers and container <-> converter tables."""
    Z = Src("Z", "series")
    for rel, cname, ext, kwargs in ((COS, "CosineTransformer", "numpy.cos", {}), (SUMMARIZE, "MeanTransformer", "numpy.mean", {"axis": ZERO})):
        cls = repo.cls(rel + ":" + cname)
        fn = repo.func(rel, cname + ".transform")
        it = mk_interp(repo)
        traces, fst, k, f2 = run_method(repo, it, SelfV(cls), "transform", {astq.param_names(fn, skip_self=True)[0]: Z})
        loc = ctx.loc(cls.module, fn)
        s, ret = one_return(ctx, "R2", cname + ".transform:value", traces, loc)
        if ret is None:
            continue
        sig = {"numpy.cos": ["x"], "numpy.mean": ["a", "axis", "dtype", "out", "keepdims"]}[ext]
        b = bound(ret, sig) if isinstance(ret, CallV) else {}
        want = dict(kwargs)
        want[sig[0]] = Z
        ok = isinstance(ret, CallV) and ret.name == ext and b == want
        ctx.check(ok, "R2", cname + ".transform:operator", "%s -> %s(validated input)" % (cname, ext),
                  "%s returns %r, expected %s(Z%s)" % (cname, ret, ext, "".join(", %s=%r" % kv for kv in kwargs.items())), loc)
    # Tabularizer / ColumnConcatenator
    n, c_, m = sym("n(X)"), sym("c(X)"), sym("m(X)")
    for rel, cname, wrap in ((REDUCE, "Tabularizer", None), (COMPOSE, "ColumnConcatenator", "sktime.utils.data_processing.from_2d_array_to_nested")):
        cls = repo.cls(rel + ":" + cname)
        fn = repo.func(rel, cname + ".transform")
        for kind in ("nested", "np3"):
            it = mk_interp(repo)
            X = Src("X", kind)
            traces, fst, k, f2 = run_method(repo, it, SelfV(cls), "transform", {"X": X})
            loc = ctx.loc(cls.module, fn)
            c = "%s.transform[%s]" % (cname, kind)
            s, ret = one_return(ctx, "R2", c + ":value", traces, loc)
            if ret is None:
                continue
            inner = ret
            if wrap is not None:
                ok = isinstance(ret, CallV) and ret.name == wrap and len(ret.args) == 1 and not ret.kwargs
                ctx.check(ok, "R2", c + ":renest", "the flattened table is nested again into one column",
                          "returns %r, expected %s(<flattened table>)" % (ret, wrap.split(".")[-1]), loc)
                if not ok:
                    continue
                inner = ret.args[0]
            if kind == "nested":
                good = isinstance(inner, Src) and inner.name == "X" and inner.kind == "frame2d"
                want = "from_nested_to_2d_array(X)"
            else:
                good = isinstance(inner, CallV) and inner.name == "sktime.utils.data_processing.from_3d_numpy_to_2d_array" \
                    and len(inner.args) == 1 and isinstance(inner.args[0], Src) and inner.args[0].name == "X" and not inner.kwargs
                want = "from_3d_numpy_to_2d_array(X)"
            ctx.check(good, "R2", c + ":converter", "%s input -> %s" % (kind, want),
                      "%s input is flattened by %r, expected %s" % (kind, inner, want), loc)
    # model conformance of from_3d_numpy_to_2d_array: rows = instances, row-major (column-then-time) flattening that does not
    # depend on the memory layout of the input
    DP = "sktime/utils/data_processing.py"
    hf = repo.func(DP, "from_3d_numpy_to_2d_array")
    it = mk_interp(repo, no_inline=())
    X3 = Src("X", "np3")
    traces, _ = it.run_function(Frame(repo.module(DP), hf), {astq.param_names(hf)[0]: X3}, State())
    vals = [v for _, v in distinct_returns(traces)]
    good, why = None, "returns %r" % (vals,)
    if len(vals) == 1 and isinstance(vals[0], CallV) and vals[0].name in ("reshape", "numpy.reshape"):
        cv = vals[0]
        base_v = cv.recv if cv.name == "reshape" else (cv.args[0] if cv.args else None)
        dims = list(cv.args if cv.name == "reshape" else cv.args[1:])
        if len(dims) == 1 and isinstance(dims[0], Tup):
            dims = list(dims[0].items)
        order = cv.kwargs.get("order", K("C"))
        if base_v == X3 and len(dims) == 2 and as_lin_val(dims[0]) == X3.shape[0] and set(cv.kwargs) <= {"order"}:
            rest = as_lin_val(dims[1])
            if rest == Lin.c(-1) or rest is not None and rest.symbols() and not rest.is_const():
                good = order == K("C")
                why = ("the instances are flattened with order=%r: the column-then-time order of the result then depends on the memory "
                       "layout of the input (a Fortran-ordered / transposed-view panel is flattened time-then-column)" % (order,))
                if not isinstance(order, K):
                    good = None
    ctx.check(good, "R2", "data_processing.from_3d_numpy_to_2d_array:row-major",
              "X.reshape(n_instances, -1) in C order: one row per instance, columns then time", why, ctx.loc(repo.module(DP), hf))
    # TabularToSeriesAdaptor
    cls = repo.cls(ADAPT + ":TabularToSeriesAdaptor")
    mod = cls.module
    hb = repo.func(ADAPT, "_from_2d_numpy_to_series")
    it = mk_interp(repo, no_inline=())
    xm = Src("x", "np2", [sym("m(x)"), sym("c(x)")])
    pre = Facts()
    pre.add_cmp(sym("c(x)"), ">=", 2, "scenario: several columns")
    pre.add_cmp(sym("m(x)"), ">=", 1, "at least one time point")
    hp = astq.param_names(hb)
    traces, _ = it.run_function(Frame(mod, hb), {hp[0]: xm, hp[1] if len(hp) > 1 else "index": Opq("index")}, State(facts=pre))
    vals = [v for _, v in distinct_returns(traces)]
    good, why = None, "for a (n_timepoints, n_columns >= 2) array the helper returns %r" % (vals,)
    if vals:
        good = True
        for v in vals:
            if isinstance(v, CallV) and v.name == "pandas.DataFrame" and v.arg(0, "data") == xm:
                continue
            inner = v.arg(0, "data") if isinstance(v, CallV) and v.name in ("pandas.DataFrame", "pandas.Series") else None
            shapers = [x for x in walk(inner) if isinstance(x, CallV) and x.name.split(".")[-1] in
                       ("squeeze", "ravel", "flatten", "reshape")] if inner is not None else []
            if shapers and any(x == xm for x in walk(inner)):
                good = False
                why = ("for several columns the array is passed through %s before it is wrapped (%r): a (1, k) result -- one time "
                       "point, k columns -- loses its time axis and comes back as a series of k values" % (shapers[0].name, v))
                break
            good = None
    ctx.check(good, "R2", "adapt._from_2d_numpy_to_series:shape", "a multi-column 2-d result is wrapped unchanged in a DataFrame "
              "(rows = time points)", why, ctx.loc(mod, hb))
    hf = repo.func(ADAPT, "_from_series_to_2d_numpy")
    it = mk_interp(repo)
    traces, _ = it.run_function(Frame(mod, hf), {astq.param_names(hf)[0]: Z}, State())
    vals = [v for _, v in distinct_returns(traces)]
    good = None
    if len(vals) == 1 and isinstance(vals[0], CallV) and vals[0].name == "reshape" and vals[0].recv == Z and not vals[0].kwargs:
        a = vals[0].args[0].items if len(vals[0].args) == 1 and isinstance(vals[0].args[0], Tup) else vals[0].args
        good = [as_lin_val(x) for x in a] == [Lin.c(-1), ONE]
    ctx.check(good, "R2", "adapt._from_series_to_2d_numpy:shape", "a univariate series becomes one column (n_timepoints, 1)",
              "the 2-d view of a univariate series is %r, expected reshape(-1, 1): time points are the samples" % (vals,), ctx.loc(mod, hf))
    it = mk_interp(repo, no_inline=NO_INLINE + ("_from_series_to_2d_numpy", "_from_2d_numpy_to_series"))
    sv = SelfV(cls)
    fn = repo.func(ADAPT, "TabularToSeriesAdaptor.fit")
    traces, fst, k, f2 = run_method(repo, it, sv, "fit", {astq.param_names(fn, skip_self=True)[0]: Z})
    loc = ctx.loc(mod, fn)
    tr = sv.attrs.get("transformer_")
    TO2D = "sktime.transformations.series.adapt._from_series_to_2d_numpy"
    TOSER = "sktime.transformations.series.adapt._from_2d_numpy_to_series"
    okc = isinstance(tr, CallV) and tr.name == "sklearn.base.clone" and tr.args == [Opq("self.transformer")]
    ctx.check(okc, "R2", "TabularToSeriesAdaptor.fit:clone", "transformer_ = clone(self.transformer)",
              "transformer_ is %r, expected a clone of the transformer option" % (tr,), loc)
    fits = [x for x in it.calls if x.name == "fit" and x.recv is not None and x.recv == tr]
    okf = len(fits) >= 1 and len(fits[-1].args) >= 1 and fits[-1].args[0] == CallV(TO2D, None, [Z], {})
    ctx.check(okf, "R2", "TabularToSeriesAdaptor.fit:data", "the clone is fitted on the 2-d view of the series",
              "the clone is fitted on %r" % ([x.args for x in fits],), loc)
    for meth, inner_m in (("transform", "transform"), ("inverse_transform", "inverse_transform")):
        it = mk_interp(repo, no_inline=NO_INLINE + ("_from_series_to_2d_numpy", "_from_2d_numpy_to_series"))
        sv = SelfV(cls)
        fn = repo.func(ADAPT, "TabularToSeriesAdaptor." + meth)
        traces, fst, k, f2 = run_method(repo, it, sv, meth, {astq.param_names(fn, skip_self=True)[0]: Z})
        loc = ctx.loc(mod, fn)
        c = "TabularToSeriesAdaptor.%s" % meth
        s, ret = one_return(ctx, "R2", c + ":value", traces, loc)
        if ret is None:
            continue
        ok = isinstance(ret, CallV) and ret.name == TOSER
        b = bound(ret, ["x", "index"]) if ok else {}
        zt = b.get("x")
        ok = ok and isinstance(zt, CallV) and zt.name == inner_m and zt.recv == Opq("self.transformer_") \
            and zt.args == [CallV(TO2D, None, [Z], {})] and not zt.kwargs
        ctx.check(ok, "R2", c + ":operator", "%s -> transformer_.%s(2-d view of Z)" % (meth, inner_m),
                  "%s returns %r, expected _from_2d_numpy_to_series(self.transformer_.%s(_from_series_to_2d_numpy(Z)), ...)"
                  % (meth, ret, inner_m), loc)
        if ok:
            ctx.check(b.get("index") == Opq("attr:index", [Z]), "R2", c + ":index", "result carries the index of the input series",
                      "result index is %r, expected Z.index" % (b.get("index"),), loc)


def r2_segmenter_forwarding(ctx, repo):
    """RandomIntervalSegmenter.fit hands its options to the interval generators under the right names."""
    cls = repo.cls(SEGMENT + ":RandomIntervalSegmenter")
    mod = cls.module
    gens = {"fixed": repo.func(SEGMENT, "_rand_intervals_fixed_n"), "random": repo.func(SEGMENT, "_rand_intervals_rand_n")}
    for scen, nint in (("fixed", KS("log", "self.n_intervals")), ("random", KS("random", "self.n_intervals"))):
        it = mk_interp(repo, no_inline=NO_INLINE + ("_rand_intervals_fixed_n", "_rand_intervals_rand_n"))
        sv = SelfV(cls)
        attrs = {"n_intervals": nint, "min_length": sym("min_length") if scen == "fixed" else K(None),
                 "max_length": sym("max_length") if scen == "fixed" else K(None)}
        sv.attrs.update(attrs)
        traces, fst, k, fn = run_method(repo, it, sv, "fit", {"X": Src("X", "raw")})
        loc = ctx.loc(mod, fn)
        c = "RandomIntervalSegmenter.fit[%s]" % scen
        gname = "sktime.transformations.panel.segment." + gens[scen].name
        calls = [x for x in it.calls if x.name == gname]
        table = attr_after(traces, sv, "intervals_")
        if not calls or table is None or not any(table == x for x in calls):
            ctx.check(None if calls else False, "R2", c + ":generator", "", "intervals_ is %r, expected the result of %s" % (table, gens[scen].name), loc)
            continue
        cv = [x for x in calls if table == x][0]
        b = bound(cv, astq.param_names(gens[scen]))
        want = {"x": Arr("time_index(X)", sym("m(X)"), "index"), "random_state": Opq("self.random_state")}
        if scen == "fixed":
            want.update(min_length=sym("min_length"), max_length=sym("max_length"))
        for p, w in want.items():
            ctx.check(match(b.get(p), w), "R2", c + ":forward:" + p, "%s receives %s" % (gens[scen].name, p),
                      "%s is called with %s=%r, expected %r" % (gens[scen].name, p, b.get(p), w), loc)
        if scen == "fixed":
            g = b.get("n_intervals")
            ctx.check(None if isinstance(g, Alt) else (isinstance(g, KS) and g.origin == "self.n_intervals"), "R2", c + ":forward:n_intervals",
                      "n_intervals receives self.n_intervals", "n_intervals=%r, expected self.n_intervals" % (g,), loc)


# ------------------------------------------------------------ R2: every option is read
OPTION_CLASSES = [
    (PADDER, "PaddingTransformer"), (TRUNC, "TruncationTransformer"), (INTERP, "TSInterpolator"),
    (SEGMENT, "IntervalSegmenter"), (SEGMENT, "RandomIntervalSegmenter"), (SEGMENT, "SlidingWindowSegmenter"),
    (PAA, "PAA"), (SLOPE, "SlopeTransformer"), (EXTRACT, "PlateauFinder"), (EXTRACT, "RandomIntervalFeatureExtractor"),
    (EXTRACT, "FittedParamExtractor"), (COMPOSE, "SeriesToPrimitivesRowTransformer"), (COMPOSE, "SeriesToSeriesRowTransformer"),
    (COMPOSE, "ColumnTransformer"), (IMPUTE, "Imputer"), (ACF, "AutoCorrelationTransformer"),
    (ACF, "PartialAutoCorrelationTransformer"), (ADAPT, "TabularToSeriesAdaptor"),
]
ENTRY = ("fit", "transform", "inverse_transform", "fit_transform", "update")


def reachable_reads(repo, cls):
    """Attributes of ``self`` read in methods reachable from the entry points through ``self.<method>`` references
    (concrete class resolution)."""
    seen, work, reads = set(), [m for m in ENTRY if repo.lookup_method(cls, m)], set()
    if any(isinstance(b, str) and not b.endswith("object") for b in cls.bases):
        # hooks called by an external base class (e.g. sklearn's ColumnTransformer calls _hstack)
        work += [m for m in cls.methods if m != "__init__"]
    while work:
        m = work.pop()
        if m in seen:
            continue
        seen.add(m)
        hit = repo.lookup_method(cls, m)
        if hit is None:
            continue
        k, fn = hit
        for nd in ast.walk(fn):
            if isinstance(nd, ast.Attribute) and isinstance(nd.value, ast.Name) and nd.value.id == "self" \
                    and isinstance(nd.ctx, ast.Load):
                if repo.lookup_method(cls, nd.attr) is not None and nd.attr != "__init__":
                    work.append(nd.attr)
                else:
                    reads.add(nd.attr)
            elif isinstance(nd, ast.Call) and isinstance(nd.func, ast.Attribute) and isinstance(nd.func.value, ast.Call) \
                    and dotted(nd.func.value.func) == "super":
                hit2 = repo.lookup_method(cls, nd.func.attr, after=k)
                if hit2 is not None:
                    # analyse the overridden definition as well
                    for nd2 in ast.walk(hit2[1]):
                        if isinstance(nd2, ast.Attribute) and isinstance(nd2.value, ast.Name) and nd2.value.id == "self" \
                                and isinstance(nd2.ctx, ast.Load):
                            if repo.lookup_method(cls, nd2.attr) is not None and nd2.attr != "__init__":
                                work.append(nd2.attr)
                            else:
                                reads.add(nd2.attr)
    return reads


def r2_options(ctx, repo):
    for rel, cname in OPTION_CLASSES:
        cls = repo.cls(rel + ":" + cname)
        hit = repo.lookup_method(cls, "__init__")
        if hit is None:
            ctx.undecided("R2", cname + ":options", "no constructor found in the repository", ctx.loc(cls.module, cls.node))
            continue
        k, init = hit
        consumed_ext = set()
        mro = repo.mro(cls)
        after = mro[[i for i, x in enumerate(mro) if x is k][0] + 1:]
        nxt = next((x for x in after if isinstance(x, str) and not x.endswith("object") or not isinstance(x, str) and "__init__" in x.methods), None)
        for nd in ast.walk(init):
            if isinstance(nd, ast.Call) and isinstance(nd.func, ast.Attribute) and nd.func.attr == "__init__" \
                    and isinstance(nd.func.value, ast.Call) and dotted(nd.func.value.func) == "super" \
                    and isinstance(nxt, str):
                for a in list(nd.args) + [kw.value for kw in nd.keywords]:
                    if isinstance(a, ast.Name):
                        consumed_ext.add(a.id)
        reads = reachable_reads(repo, cls)
        for p in astq.param_names(init, skip_self=True):
            if p in consumed_ext:
                ctx.ok("R2", "%s:option-read:%s" % (cname, p), "handed to the external base class constructor", ctx.loc(k.module, init),
                       nontrivial=False)
                continue
            ctx.check(p in reads, "R2", "%s:option-read:%s" % (cname, p), "self.%s is read on a path from fit/transform" % p,
                      "constructor option %r is never read by fit/transform or the methods they reach: it has no effect" % p,
                      ctx.loc(k.module, init))



# =============================================================================== R3
class _B:
    def __init__(self, body):
        self.body = body


def first_extent(v, it):
    """Extent of the first axis of a sequence-like abstract value (None if unknown)."""
    if isinstance(v, NDS):
        sh = shape_of(v)
        return sh[0] if sh else None
    if isinstance(v, Rng):
        return v.length() if v.lo == ZERO else None
    if isinstance(v, AccList):
        return it.acc_len(v)
    if isinstance(v, ListV):
        if v.filtered:
            return None
        if isinstance(v.it, Rng):
            return v.it.length()
        return first_extent(v.it, it)
    if isinstance(v, ZipV):
        return seq_len(v, it)
    return None


def position_loop(l, n, it):
    """Does the loop variable run over the positions 0..n-1 of the instances, in order?"""
    if l.var is None:
        return False
    if isinstance(l.it, Rng):
        return l.it == Rng(ZERO, n)
    if reordered(l.it) is not None:
        return False
    e = first_extent(l.it, it)
    return e is not None and e == n


def r3_method(ctx, repo, rel, cname, meth, args, min_loops, attrs=None, extra_no_inline=(), via_init=False, n=None):
    """Row correspondence of every per-instance loop found in ``cname.meth``."""
    cls = repo.cls(rel + ":" + cname)
    it = mk_interp(repo, no_inline=NO_INLINE + tuple(extra_no_inline))
    sv = SelfV(cls)
    if via_init:
        hit = repo.lookup_method(cls, "__init__")
        if hit is not None:
            it.run_function(Frame(hit[0].module, hit[1], cls, hit[0]), {"self": sv}, State())
    sv.attrs.update(attrs or {})
    traces, fst, k, fn = run_method(repo, it, sv, meth, args)
    loc = ctx.loc(k.module, fn)
    base = "%s.%s" % (cname, meth)
    n = n if n is not None else sym("n(X)")
    rets = normal_returns(traces)
    if not rets:
        ctx.undecided("R3", base + ":return", "no normal return", loc)
        return
    events = dedupe(it.events)

    def aligned(v):
        e = first_extent(v, it)
        return e is not None and e == n

    # ---- candidate loops
    loops, instances = {}, {}
    for e in events:
        for l in e.loops:
            loops.setdefault(id(l.node), l)
            if not any(x is l for x in instances.setdefault(id(l.node), [])):
                instances[id(l.node)].append(l)
    cands = []
    for l in loops.values():
        if l.var is None:
            continue
        direct = not isinstance(l.it, Rng) and (aligned(l.it) or reordered(l.it) is not None and aligned(reordered(l.it)))
        uses = False
        if isinstance(l.it, Rng):
            for e in events:
                own = [x for x in e.loops if x == l and x.var is not None]
                if own and e.kind in ("load", "store") and e.spec and not isinstance(e.spec, str) \
                        and aligned_base(e, aligned) and e.spec[0][0] == "i" and it.depends(e.spec[0][1], _sym(own[0].var)):
                    uses = True
        if direct or uses:
            cands.append(l)
    cands.sort(key=lambda l: (getattr(l.node, "lineno", 0), getattr(l.node, "col_offset", 0)))
    if len(cands) < min_loops:
        ctx.undecided("R3", base + ":loops", "expected at least %d per-instance loops, recognised %d" % (min_loops, len(cands)), loc)
    inst_vars = [x.var for l in cands for x in instances[id(l.node)] if x.var is not None]
    for idx, l in enumerate(cands):
        c = "%s:row-loop#%d" % (base, idx + 1)
        lloc = "%s:%s" % (k.module.relpath, getattr(l.node, "lineno", "?"))
        # (i) enumeration
        if isinstance(l.it, Rng):
            ctx.check(l.it == Rng(ZERO, n), "R3", c + ":range", "iterates range(n_instances): every instance once, in order",
                      "iterates %r, expected range(n_instances) = %r" % (l.it, Rng(ZERO, n)), lloc)
        elif l.kind == "comp-filtered":
            ctx.violation("R3", c + ":range", "the comprehension filters the instances: the output has fewer rows than the input", lloc)
        elif reordered(l.it) is not None:
            ctx.violation("R3", c + ":range", "iterates a re-ordered view of the instances (%r): output rows no longer follow the input order"
                          % (l.it,), lloc)
        else:
            ctx.ok("R3", c + ":range", "iterates the instances themselves in order (%r)" % (l.it,), lloc)
        inside = [e for e in events if l in e.loops]
        # (ii) reads
        bad = []
        nreads = 0
        for e in inside:
            if e.kind == "load" and aligned_base(e, aligned) and e.spec and e.spec[0][0] == "i":
                nreads += 1
                if not any(e.spec[0][1] == v for v in inst_vars):
                    bad.append(e)
        if bad:
            ctx.violation("R3", c + ":reads", "row %r of the output is computed from input row %r (%r[%r])"
                          % (l.var, bad[0].spec[0][1], bad[0].base, bad[0].spec[0][1]), lloc,
                          witness={"index": repr(bad[0].spec[0][1]), "loop_var": repr(l.var)})
        else:
            ctx.ok("R3", c + ":reads", "%d reads of per-instance data, all at the loop's own instance" % nreads, lloc,
                   nontrivial=bool(nreads) or not isinstance(l.it, Rng))
        # (iii) writes
        outs = 0
        badw = None
        for e in inside:
            if e.kind == "store" and e.spec and e.spec[0][0] == "i" and (aligned_base(e, aligned) or any(
                    it.depends(e.spec[0][1], _sym(x.var)) for x in instances[id(l.node)] if x.var is not None)):
                if innermost_inst(e, cands) is not l:
                    continue
                outs += 1
                own_var = next((x.var for x in e.loops if x == l), l.var)
                if e.spec[0][1] != own_var:
                    badw = "result of instance %r is stored at position %r of %r" % (own_var, e.spec[0][1], e.base)
        accs = {}
        for e in inside:
            if e.kind == "append" and l not in e.base.created_loops and innermost_inst(e, cands) is l:
                accs.setdefault(id(e.base), (e.base, []))[1].append(e)
        for acc, evs in accs.values():
            outs += 1
            if acc.persist:
                badw = "the result list outlives the call (%s): rows of an earlier call / instance are still in it" % acc.persist
            elif len(evs) != 1:
                badw = "%d append sites add to the same result list in one iteration" % len(evs)
            elif isinstance(l.node, (ast.For, ast.While)) and not must_execute(l.node.body, evs[0].node):
                badw = "the result of an instance is appended only on some paths through the loop body (rows would shift)"
            elif [m for m, _ in acc.other]:
                badw = "the result list is also modified by %s" % ", ".join(sorted({m for m, _ in acc.other}))
            elif via_init and acc.func is not None and acc.func is not fn and acc.func.name == "__init__":
                badw = "the result list is created in __init__ and never reset: a second call appends to the rows of the first"
        for e in inside:
            if e.kind == "append" and l in e.base.created_loops:
                continue
            if e.kind in ("append", "store") and e.value is not None:
                for x in walk(e.value):
                    if isinstance(x, AccList) and x is not e.base and l not in x.created_loops \
                            and any(l in lp for _, lp, _, _ in x.appends):
                        badw = "a list created outside the loop collects partial results of every instance and is emitted per row: " \
                               "row i contains the results of rows < i"
        shared = [b for b in {id(e.base): e.base for e in inside if e.kind == "store" and isinstance(e.base, Buf)}.values()
                  if l not in b.created_loops and any(l in x.loops for x in b.stores)
                  and not any(x.spec and x.spec[0][0] == "i" for x in b.stores)]
        for e in inside:
            if e.kind in ("append", "comp-elem", "store") and e.value is not None and shared:
                if any(any(x is b for x in walk(e.value)) for b in shared if b is not e.base):
                    badw = "one array allocated outside the loop is overwritten and emitted for every instance: all output rows " \
                           "alias the same buffer (and keep residue of longer earlier rows)"
        for e in inside:
            if e.kind == "append" and e.base.persist and innermost_inst(e, cands) is l and l in e.base.created_loops:
                badw = "a list that outlives the call (%s) collects the values of this row" % e.base.persist
        for e in inside:
            if e.kind == "mutate" and isinstance(e.base, AccList) and l not in e.base.created_loops \
                    and e.spec in ("insert", "pop", "remove", "sort", "reverse", "clear"):
                outs += 1
                badw = "the result list is modified by %s() inside the loop: its order is not the order of the instances" % e.spec
        if l.kind == "comp":
            outs += 1
        if badw:
            ctx.violation("R3", c + ":writes", badw, lloc)
        elif outs == 0:
            ctx.undecided("R3", c + ":writes", "no per-instance output (indexed store / append) recognised in the loop", lloc)
        else:
            ctx.ok("R3", c + ":writes", "output row = loop instance (%d indexed stores / ordered appends)" % outs, lloc)
        # (iv) state
        if isinstance(l.node, (ast.For, ast.While)):
            if any(isinstance(x, (ast.Break, ast.Continue)) for x in own_level(l.node.body)):
                ctx.undecided("R3", c + ":state", "the per-instance loop contains break / continue", lloc)
            else:
                header = tuple(getattr(l, "bound_names", ())) or (target_names(l.node.target) if isinstance(l.node, ast.For) else ())
                counters = {nm for x in instances[id(l.node)] for nm in getattr(x, "counters", ())}
                car = sorted(set(carried_names(l.node.body, header)) - counters)
                ctx.check(not car, "R3", c + ":state", "no local carries a value from one instance to the next",
                          "local(s) %s keep their value from the previous instance when the next one is processed: "
                          "output row i depends on rows < i" % ", ".join(car), lloc, witness={"carried": car})
    # ---- column loops: column d of the output is computed from column d of the input
    ccount = Lin.sym("c(X)")
    cidx = 0
    for l in sorted(loops.values(), key=lambda l: (getattr(l.node, "lineno", 0), getattr(l.node, "col_offset", 0))):
        by_pos = isinstance(l.it, Rng) and l.it == Rng(ZERO, ccount) and l.var is not None
        by_label = isinstance(l.it, Opq) and l.it.tag == "attr:columns" and l.it.args and isinstance(l.it.args[0], Src)
        if not (by_pos or by_label):
            continue
        own = ("i", l.var) if by_pos else ("x", Opq("elem", [l.it]))
        sels = []
        for e in events:
            if l in e.loops and e.kind == "load" and isinstance(e.base, Src) and e.base.kind in ("nested", "raw", "either") and e.spec:
                sel = (e.spec[1] if len(e.spec) > 1 else None) if e.how == "iloc" else (e.spec[0] if len(e.spec) == 1 else None)
                if sel is not None and sel != ("a",):
                    sels.append(sel)
        if not sels:
            continue
        cidx += 1
        c = "%s:column-loop#%d:reads" % (base, cidx)
        lloc = "%s:%s" % (k.module.relpath, getattr(l.node, "lineno", "?"))
        wrong = [x for x in sels if x != own]
        verdict = True
        if wrong:
            verdict = False if any(x[0] == "i" for x in wrong) else None
        delivers = False
        for _, ret_ in rets[:1]:
            reach_ = walk_with_stores(ret_, events)
            for e in events:
                if l in e.loops and e.kind == "store" and any(x is e.base for x in reach_):
                    delivers = True
                if l in e.loops and e.kind == "append" and l not in e.base.created_loops and innermost_inst(e, cands) is None \
                        and any(x is e.base for x in reach_):
                    delivers = True
        ctx.check(delivers, "R3", "%s:column-loop#%d:writes" % (base, cidx), "the result of every column is put into the returned frame",
                  "the loop over the columns computes a result per column but never stores it in the returned frame / list", lloc)
        ctx.check(verdict, "R3", c, "every read of the input inside the column loop selects the loop's own column",
                  "inside the loop over the columns the input is read at column %r instead of the loop's own column: output "
                  "column d is not computed from input column d" % ((wrong or [None])[0],), lloc)
    # ---- assembly: the per-instance results reach the return value in their order
    outs_ = []
    for e in events:
        if innermost_inst(e, cands) is None:
            continue
        if e.kind == "append" and e.base not in outs_:
            outs_.append(e.base)
        if e.kind == "store" and isinstance(e.base, Buf) and e.base not in outs_:
            outs_.append(e.base)
    col_accs = []
    for l in loops.values():
        by_pos = isinstance(l.it, Rng) and l.it == Rng(ZERO, Lin.sym("c(X)")) and l.var is not None
        by_label = isinstance(l.it, Opq) and l.it.tag == "attr:columns" and l.it.args and isinstance(l.it.args[0], Src)
        if by_pos or by_label:
            for e in events:
                if e.kind == "append" and l in e.loops and l not in e.base.created_loops and innermost_inst(e, cands) is None \
                        and e.base not in col_accs:
                    col_accs.append(e.base)
    for _, ret in rets[:1]:
        reach = walk_with_stores(ret, events)
        for v in reach:
            if isinstance(v, AccList) and v.func is fn and not v.appends and not v.other and not v.persist:
                ctx.violation("R3", base + ":assembly", "a list that is returned as a column of per-instance results is never filled "
                              "(no append reaches it)", loc)
            if isinstance(v, CallV) and v.name == "pandas.concat" and v.args and any(v.args[0] is o for o in col_accs):
                ax = v.arg(1, "axis", ZERO)
                ok = ax == ONE or ax == K("columns")
                ctx.check(ok if isinstance(ax, (Lin, K)) else None, "R3", base + ":column-assembly",
                          "per-column results are put side by side (axis=1): one row per instance",
                          "per-column results are concatenated along axis=%r: the output no longer has one row per instance" % (ax,), loc)
        used = set()
        for e in events:
            if e.kind == "load" and isinstance(e.base, (AccList, Buf)):
                used.add(id(e.base))
            for l in e.loops:
                for x in walk(l.it):
                    if isinstance(x, (AccList, Buf)):
                        used.add(id(x))
            if e.kind in ("append", "store", "comp-elem") and e.value is not None:
                for x in walk(e.value):
                    if isinstance(x, (AccList, Buf)) and x is not e.base:
                        used.add(id(x))
        for cv in it.calls:
            for a in list(cv.args) + list(cv.kwargs.values()) + [cv.recv]:
                for x in walk(a) if a is not None else ():
                    if isinstance(x, (AccList, Buf)):
                        used.add(id(x))
        for o in outs_:
            if isinstance(o, AccList) and (o.persist or o.func is not fn):
                continue
            if not any(x is o for x in reach) and id(o) not in used:
                ctx.violation("R3", base + ":assembly", "per-instance results are collected (%r) but neither returned nor used: the "
                              "output does not contain them" % (o,), loc)
        for v in reach:
            inner = reordered(v)
            if inner is not None and any(inner is o for o in outs_):
                ctx.violation("R3", base + ":assembly", "the per-instance results are re-ordered (%r) before they are returned" % (v,), loc)
            if isinstance(v, CallV) and v.name == "pandas.concat" and v.args and any(v.args[0] is o for o in outs_):
                ax = v.arg(1, "axis", ZERO)
                ok = ax == ZERO or ax == K("index") or ax == K("rows")
                ctx.check(ok if (isinstance(ax, Lin) or isinstance(ax, K)) else None, "R3", base + ":assembly",
                          "per-instance results are stacked as rows (axis=0) in loop order",
                          "per-instance results are concatenated along axis=%r: instances become columns" % (ax,), loc)
    return it, rets, cands


def walk_with_stores(v, events):
    """Values reachable from ``v`` including what was stored into the frames / buffers it contains."""
    seen, stack, out = set(), [v], []
    while stack:
        x = stack.pop()
        if x is None or id(x) in seen:
            continue
        seen.add(id(x))
        out.append(x)
        stack.extend(children(x))
        for e in events:
            if e.kind == "store" and e.base is x and e.value is not None:
                stack.append(e.value)
    return out


def _sym(lin):
    s = list(lin.symbols())
    return s[0] if len(s) == 1 else None


def aligned_base(e, aligned):
    try:
        return aligned(e.base)
    except Exception:
        return False


def innermost_inst(e, cands):
    for l in reversed(e.loops):
        for c in cands:
            if c == l:
                return c
    return None


def own_level(stmts):
    """Statements of a loop body that belong to this loop (not to nested loops / functions)."""
    out = []
    stack = list(stmts)
    while stack:
        st = stack.pop()
        out.append(st)
        if isinstance(st, (ast.For, ast.While, ast.FunctionDef, ast.ClassDef)):
            continue
        for f in ("body", "orelse", "finalbody"):
            stack.extend(getattr(st, f, []) or [])
        for h in getattr(st, "handlers", []) or []:
            stack.extend(h.body)
    return out


def must_execute(body, call):
    g = CFG(_B(body))
    target = None
    for nd in g.nodes:
        for ex in nd.exprs:
            if ex is not None and any(x is call for x in ast.walk(ex)):
                target = nd
    if target is None:
        return False
    return g.must_pass(lambda nd: nd is target)


def is_transpose(v):
    """Inner value if ``v`` is ``x.T`` / ``x.transpose()`` / ``np.transpose(x)`` (axes reversed), else None."""
    if isinstance(v, Opq) and v.tag == "attr:T" and len(v.args) == 1:
        return v.args[0]
    if isinstance(v, CallV) and v.name == "transpose" and v.recv is not None and not v.args and not v.kwargs:
        return v.recv
    if isinstance(v, CallV) and v.name == "numpy.transpose" and len(v.args) == 1 and not v.kwargs:
        return v.args[0]
    return None


def row_layout(ctx, repo, cname, res):
    """The wrapped series transformer receives instance i as a (time x column) array: the *transpose* of X[i]
    (columns x time), so that cell (i, c) becomes column c; a reshape to the same shape is not a transpose."""
    if res is None:
        return
    it, rets, cands = res
    cls = repo.cls(COMPOSE + ":" + cname)
    fn = cls.methods["transform"]
    loc = ctx.loc(cls.module, fn)
    c = "%s.transform:cell-layout" % cname
    n, cc, m = sym("n(X)"), sym("c(X)"), sym("m(X)")
    X3 = Src("X", "np3", [n, cc, m])
    calls = {id(x.node): x for x in it.calls if x.name == "fit_transform" and x.loops}
    if len(calls) != 1:
        ctx.undecided("R3", c, "expected one fit_transform call per instance, found %d" % len(calls), loc)
        return
    cv = list(calls.values())[0]
    arg = cv.arg(0, "X")
    inst = [l.var for l in cv.loops if l in cands]
    inner = is_transpose(arg)
    verdict = None
    why = "the wrapped transformer receives %r" % (arg,)
    if inner is not None:
        all_vars = [x.var for l_ in cv.loops for x in [l_] if x.var is not None]
        verdict = any(inner == Sub(X3, [("i", v)]) for v in (inst + all_vars))
        if not verdict and not (isinstance(inner, Sub) and inner.base == X3 and len(inner.spec) == 1 and inner.spec[0][0] == "i"):
            verdict = None
    elif isinstance(arg, Sub) and arg.base == X3:
        verdict = False
        why = "the wrapped transformer receives X[i] as (columns x time) without the transpose"
    elif isinstance(arg, CallV) and arg.name in ("reshape", "numpy.reshape", "resize"):
        base_v = arg.recv if arg.name != "numpy.reshape" else (arg.args[0] if arg.args else None)
        if isinstance(base_v, Sub) and base_v.base == X3:
            verdict = False
            why = ("X[i] (columns x time) is reshaped, not transposed: element (t, c) of the result is the flat element t*C + c of "
                   "the instance, e.g. for 2 columns x 2 points [[a0, a1], [b0, b1]] the transformer sees rows (a0, a1), (b0, b1) "
                   "instead of (a0, b0), (a1, b1) -- identical only for univariate panels")
    ctx.check(verdict, "R3", c, "instance i is handed over as the transpose of X[i]: cell (i, c) is column c, time runs along the rows",
              why, loc, witness={"argument": repr(arg)})
    if cname == "SeriesToPrimitivesRowTransformer":
        bufs = []
        for e in it.events:
            if e.kind == "store" and isinstance(e.base, Buf) and innermost_inst(e, cands) is not None and e.base not in bufs:
                bufs.append(e.base)
        if len(bufs) == 1:
            result_dtype(ctx, "R3", "%s.transform:output-dtype" % cname, bufs[0], loc)
        ctx.check(None if len(bufs) != 1 else bufs[0].shape == [n, cc], "R3", "%s.transform:output-shape" % cname,
                  "the output has one row per instance and one value per column",
                  "the output array has shape %r, expected (n_instances, n_columns)" % ([b.shape for b in bufs],), loc)
    if cname == "SeriesToSeriesRowTransformer":
        c2 = "%s.transform:result-layout" % cname
        outs = [e for e in it.events if e.kind in ("append", "comp-elem") and e.value is not None]
        verdict, shown = None, None
        for e in dedupe(outs):
            v = is_transpose(e.value)
            if isinstance(v, CallV) and v.name.endswith(".from_2d_array_to_nested") and len(v.args) == 1:
                shown = v.args[0]
                back = is_transpose(shown)
                verdict = back is not None and (back is cv or back == cv)
                if not verdict and not any(x is cv or x == cv for x in walk(shown)):
                    verdict = None
        ctx.check(verdict, "R3", c2, "the transformed instance goes back as (columns x time): one nested row, cell c = column c",
                  "the transformed instance is nested from %r, expected the transpose of the transformer's result" % (shown,), loc)


STATE_CLASSES = OPTION_CLASSES + [(REDUCE, "Tabularizer"), (COMPOSE, "ColumnConcatenator"), (COS, "CosineTransformer"),
                                  (SUMMARIZE, "MeanTransformer"), (EXTRACT, "DerivativeSlopeTransformer")]


def reachable_methods(repo, cls):
    """(defining class, FunctionDef) of the methods reachable from the entry points through ``self.<method>`` references."""
    seen, out = set(), []
    work = [m for m in ENTRY if repo.lookup_method(cls, m)]
    if any(isinstance(b, str) and not b.endswith("object") for b in cls.bases):
        work += [m for m in cls.methods if m != "__init__"]
    while work:
        m = work.pop()
        if m in seen or m == "__init__":
            continue
        seen.add(m)
        hit = repo.lookup_method(cls, m)
        if hit is None:
            continue
        out.append(hit)
        for nd in ast.walk(hit[1]):
            if isinstance(nd, ast.Attribute) and isinstance(nd.value, ast.Name) and nd.value.id == "self" \
                    and isinstance(nd.ctx, ast.Load) and repo.lookup_method(cls, nd.attr) is not None:
                work.append(nd.attr)
    return out


def mentions_attr(test, attr):
    """Does a condition read ``self.<attr>`` (directly, or through hasattr / getattr with the literal name)?"""
    for nd in ast.walk(test):
        if isinstance(nd, ast.Attribute) and nd.attr == attr and isinstance(nd.value, ast.Name) and nd.value.id == "self":
            return True
        if isinstance(nd, ast.Call) and isinstance(nd.func, ast.Name) and nd.func.id in ("hasattr", "getattr") and len(nd.args) >= 2 \
                and isinstance(nd.args[0], ast.Name) and nd.args[0].id == "self" and isinstance(nd.args[1], ast.Constant) \
                and nd.args[1].value == attr:
            return True
    return False


def r3_history(ctx, repo):
    """(H1) State that fit / transform establish on ``self`` is re-established by every call: a store ``self.a = <computed>``
    dominated by a test of ``self.a``'s own previous value (is None / hasattr / len unchanged ...) keeps what an earlier
    call computed from other data or other parameters."""
    done = set()
    for rel, cname in STATE_CLASSES:
        cls = repo.cls(rel + ":" + cname)
        for k, fn in reachable_methods(repo, cls):
            if id(fn) in done:
                continue
            done.add(id(fn))
            memo = [dotted(d.func if isinstance(d, ast.Call) else d) for d in fn.decorator_list]
            memo = [d for d in memo if d and d.split(".")[-1] in ("lru_cache", "cache", "cached_property", "memoize", "memoized")]
            if memo:
                ctx.violation("R3", "%s.%s:memoised" % (k.name, fn.name), "the method is memoised (%s): a later call with the same "
                              "arguments after the instance's parameters / fitted state changed returns the stale result"
                              % ", ".join(memo), ctx.loc(k.module, fn))
            stores = []
            for nd in ast.walk(fn):
                if isinstance(nd, (ast.Assign, ast.AugAssign, ast.AnnAssign)):
                    tgts = nd.targets if isinstance(nd, ast.Assign) else [nd.target]
                    for t in tgts:
                        for tt in ([t] if not isinstance(t, (ast.Tuple, ast.List)) else t.elts):
                            if isinstance(tt, ast.Attribute) and isinstance(tt.value, ast.Name) and tt.value.id == "self":
                                stores.append((tt.attr, nd))
            if not stores:
                continue
            g = CFG(fn)
            c0 = "%s.%s:first-call-only" % (k.name, fn.name)
            bad = []
            for attr, st_ in stores:
                val = getattr(st_, "value", None)
                trivial = val is None or isinstance(val, ast.Constant) or (isinstance(val, (ast.List, ast.Dict, ast.Tuple, ast.Set))
                                                                           and not getattr(val, "elts", getattr(val, "keys", None)))
                node = g.node_of(st_)
                if node is None or trivial:
                    continue
                for test, branch in g.guards_of(node):
                    if mentions_attr(test, attr):
                        bad.append((attr, st_, test))
                        break
            for attr, st_, test in bad:
                ctx.violation("R3", c0 + ":" + attr, "self.%s is (re)computed only when a test of its own previous value allows it (%s): "
                              "call twice -- the second call, on other data or after set_params, keeps the value the first call computed"
                              % (attr, astq.canon(test)[:120]), ctx.loc(k.module, st_), witness={"attribute": attr})
            if not bad:
                ctx.ok("R3", c0, "%d stores to self, none guarded by the attribute's own previous value" % len(stores), ctx.loc(k.module, fn))


def r3_all(ctx, repo):
    X = Src("X", "raw")
    W = sym("w")
    row_layout(ctx, repo, "SeriesToPrimitivesRowTransformer",
               r3_method(ctx, repo, COMPOSE, "SeriesToPrimitivesRowTransformer", "transform", {"X": X}, 1))
    row_layout(ctx, repo, "SeriesToSeriesRowTransformer",
               r3_method(ctx, repo, COMPOSE, "SeriesToSeriesRowTransformer", "transform", {"X": X}, 1))
    r3_method(ctx, repo, PAA, "PAA", "_perform_paa_along_dim", {"X": Src("X", "nested")}, 1, attrs={"num_intervals": sym("k")})
    r3_method(ctx, repo, PAA, "PAA", "transform", {"X": X}, 1, attrs={"num_intervals": sym("k")}, extra_no_inline=("_check_parameters",))
    r3_method(ctx, repo, SLOPE, "SlopeTransformer", "transform", {"X": X}, 1, attrs={"num_intervals": sym("k")},
              extra_no_inline=("_get_gradients_of_lines", "_check_parameters"))
    r3_method(ctx, repo, EXTRACT, "DerivativeSlopeTransformer", "transform", {"X": X}, 1)
    r3_method(ctx, repo, EXTRACT, "PlateauFinder", "transform", {"X": X}, 1, via_init=True)
    r3_method(ctx, repo, SEGMENT, "SlidingWindowSegmenter", "transform", {"X": X}, 1, attrs={"window_length": W})
    r3_method(ctx, repo, PADDER, "PaddingTransformer", "transform", {"X": X}, 1, attrs={"pad_length_": sym("pad_length_")})
    r3_method(ctx, repo, TRUNC, "TruncationTransformer", "transform", {"X": X}, 1,
              attrs={"lower_": sym("lower_"), "upper": K(None)})


def run(ctx):
    repo = ctx.repo
    ctx.explain("C14 (partial): every anchored transformer method is interpreted symbolically (affine index domain + array terms: "
                "fresh buffers with their slice stores, normalised subscripts, np.pad, as_strided, linspace grids, array_split "
                "pieces, random draws with their bounds, lists built by comprehension / append) per configuration scenario. "
                "R1 decides the length / position maps of pad, truncate, sliding windows, interpolation grids and interval slices "
                "(identities of affine normal forms, guards tight, reads in bounds, random draws feasible); R2 the rule-name <-> "
                "operator tables of the imputer and the one-line transformers, keyword forwarding to statsmodels / the interval "
                "generators / the wrapped estimators and that every constructor option is read; R3 that every per-instance loop "
                "reads and writes its own row, in input order, without state carried between rows. The numeric formulas "
                "(PAA means, interpolated values, autocorrelations, slopes) are not decided.")
    ctx.assume("numpy: np.full/zeros create fresh arrays of the given shape; slice assignment copies position-wise; np.pad(x, p, "
               "mode='edge') repeats the end values p times on both ends; as_strided(x, shape, (s, s)) has element (j, k) = x[j + k]; "
               "np.arange / range / np.linspace(a, b, n) grids; np.array_split yields consecutive index arrays covering the input; "
               "RandomState.randint(low, high) draws from [low, high); slices a:b are half-open and silently clamp")
    ctx.assume("pandas: .iloc is positional, .loc / fillna(value=Series) align by label; fillna(method=ffill) then backfill leaves no "
               "gap in a series with at least one observation; DataFrame.apply / Series.apply visit every column / element in order; "
               "pd.DataFrame(list of rows), pd.Series(list), pd.concat(list, axis=0) keep list order")
    ctx.assume("scipy interp1d(x, y, kind='linear') and statsmodels acf(x, adjusted, nlags, qstat, fft, alpha, missing) / "
               "pacf(x, nlags, method, alpha) signatures as pinned; sktime's own container converters keep the instance order (C15)")
    ctx.assume("options are integers where the code uses them as lengths (window_length, lower, pad_length, min_length >= 1)")
    r1_pad(ctx, repo)
    r1_truncate(ctx, repo)
    r1_sliding(ctx, repo)
    r1_interpolate(ctx, repo)
    r1_intervals(ctx, repo)
    r1_feature_columns(ctx, repo)
    r1_paa_length(ctx, repo)
    r1_paa_frames(ctx, repo)
    r2_imputer(ctx, repo)
    r2_acf(ctx, repo)
    r2_simple(ctx, repo)
    r2_segmenter_forwarding(ctx, repo)
    r2_options(ctx, repo)
    r3_all(ctx, repo)
    r3_history(ctx, repo)
    ctx.floor("R1", 99)
    ctx.floor("R2", 134)
    ctx.floor("R3", 87)
