"""C06 -- forecasting metrics: forwarding and agreement clauses (DESIGN 3/C06).

R1 class <-> function bijection (E3/E7)        R2 wrapper call conformance (E3 + E1)
R3 role / option preservation in _functions    R4 sibling (weighted / unweighted) agreement
R5 name <-> operator table                     R6 kernels as canonical expression trees
R7 declared direction (all shipped metrics are losses)

Engines: ``_c06_ctor.CtorFlow`` (E3: constructor / attribute flow per concrete class) and
``_c06_sym.SymExec`` (path-enumerating symbolic executor producing canonical expression trees:
locals, temporaries, keyword-vs-positional passing, commutative operand order and extracted
repo-local helpers do not change a term).  Nothing is matched on source text.

Verdict discipline: a role / option obligation is a VIOLATION only when the actual is *another* datum
(another role's parameter, a literal, an attribute holding something else, nothing at all); the expected
datum wrapped in an operation outside the transfer table is UNDECIDED.

Not decided: numeric values, shapes and broadcasting (e.g. whether ``sample_weight * np.log(x)`` in
``_weighted_geometric_mean`` lines up a 1-D weight vector with the 2-D errors), input validation guards,
sklearn's own aggregators.
"""
import ast

from ..index import AnalysisError
from .. import astq
from . import _c06_sym as S
from ._c06_shape import ShapeEval
from ._c06_ctor import CtorFlow, PARAM, CONST
from ._c06_sym import K, P, F, NONE, Undecidable, call, sub, neg, mk_cmp, mk_is, mk_not, mk_prod, kwargs_of, show

PKG = "sktime/performance_metrics/forecasting/"
FN, CL, PK = PKG + "_functions.py", PKG + "_classes.py", PKG + "__init__.py"
FMOD = "sktime.performance_metrics.forecasting._functions"
CMOD = "sktime.performance_metrics.forecasting._classes"
KERNELS = ("_percentage_error", "_relative_error", "_asymmetric_error", "_weighted_geometric_mean")
CHECK_REG = "sklearn.metrics._regression._check_reg_targets"

YT, YP, YB, YTR = P("y_true"), P("y_pred"), P("y_pred_benchmark"), P("y_train")
HW, MO, SQ, SP = P("horizon_weight"), P("multioutput"), P("square_root"), P("sp")
A_HW_NONE = mk_is(HW, NONE)
A_MO_STR = ("call", F("builtins.isinstance"), (MO, F("builtins.str")), ())
A_RAW = mk_cmp("==", MO, K("raw_values"))
A_UNI = mk_cmp("==", MO, K("uniform_average"))
ROLES = ("y_true", "y_pred", "y_pred_benchmark")
AGG_TOKENS = ("geometric_mean", "mean", "median")
VOCAB = ("absolute", "squared", "percentage", "relative", "scaled", "asymmetric")

# aggregator table: dotted -> (family, data parameter, weight parameter, axis parameter, default axis)
AGGS = {
    "numpy.average": ("mean", "a", "weights", "axis", NONE),
    "numpy.mean": ("mean", "a", None, "axis", NONE),
    "numpy.median": ("median", "a", None, "axis", NONE),
    "sklearn.utils.stats._weighted_percentile": ("median", "array", "sample_weight", None, K(0)),
    "scipy.stats.gmean": ("geometric_mean", "a", None, "axis", K(0)),
    FMOD + "._weighted_geometric_mean": ("geometric_mean", "x", "sample_weight", "axis", NONE),
}
EPS_OK = (
    ("attr", ("call", F("numpy.finfo"), (F("numpy.float64"),), ()), "eps"),
    ("attr", ("call", F("numpy.finfo"), (F("builtins.float"),), ()), "eps"),
    ("attr", ("call", F("numpy.finfo"), (F("numpy.float_"),), ()), "eps"),
    ("attr", ("call", F("numpy.finfo"), (F("numpy.double"),), ()), "eps"),
)


# =========================================================================================
# discovery
# =========================================================================================
def _all_list(ctx, rule, mod):
    node = mod.defs.get("__all__")
    names = astq.str_consts(node) if node is not None else None
    if names is None:
        ctx.undecided(rule, "%s:__all__" % mod.relpath, "__all__ is not a literal list of strings", ctx.loc(mod, node))
        return []
    return names


class MetricExec(S.SymExec):
    """Records, per path, which terms went through sklearn's _check_reg_targets (they are 2-D (n, k) afterwards)."""

    def _call(self, e, st, module, depth):
        r = super()._call(e, st, module, depth)
        if r[0] == "tuple" and len(r[1]) == 4 and r[1][0] == ("k", "<y_type>"):
            st.effects.append(("rank2", r[1][1]))
            st.effects.append(("rank2", r[1][2]))
        return r


FULL_SLICE = ("slice", NONE, NONE, NONE)


def strip_reshape(t):
    """Remove shape-only wrappers (x[:, None], x.reshape(-1, 1), np.reshape/expand_dims/asarray): same values."""
    while True:
        if t[0] == "idx" and t[2][0] == "tuple" and all(i in (FULL_SLICE, NONE, F("numpy.newaxis")) for i in t[2][1]):
            t = t[1]
        elif t[0] == "call" and t[1][0] == "attr" and t[1][2] == "reshape":
            t = t[1][1]
        elif t[0] == "call" and t[1] in (F("numpy.reshape"), F("numpy.expand_dims"), F("numpy.asarray")) and (t[2] or "a" in dict(t[3])):
            t = t[2][0] if t[2] else dict(t[3])["a"]
        else:
            return t


class World:
    """Everything the rules share: modules, executors, constructor flow, discovered tables."""

    def __init__(self, ctx):
        repo = self.repo = ctx.repo
        self.fmod, self.cmod, self.pmod = repo.module(FN), repo.module(CL), repo.module(PK)
        if self.fmod.name != FMOD:
            raise AnalysisError("unexpected module name for %s" % FN)
        for k in KERNELS:
            repo.func(FN, k)
        self.cf = CtorFlow(repo)
        self.fnames = _all_list(ctx, "R1", self.fmod)
        self.funcs = {}
        for n in self.fnames:
            node = self.fmod.defs.get(n)
            if isinstance(node, ast.FunctionDef):
                self.funcs[n] = node
        keep = {FMOD + "." + n for n in list(self.funcs) + list(KERNELS)}
        identity = {"numpy.asarray", "numpy.expand_dims", "numpy.reshape"}
        self.identity_note = []
        sym = repo.resolve_name(self.fmod, "check_series")
        if sym is not None and sym.kind == "func" and self.cf.is_identity(sym.module, sym.target):
            self.identity_note.append(sym.dotted)
        self.ex_shape = S.SymExec(repo, identity={"numpy.asarray"})  # nothing inlined, shape-changing calls kept
        self.ex = MetricExec(repo, identity=identity, transfers={CHECK_REG: _check_reg_targets},
                            keep=lambda d: d in keep, inline_modules={FMOD}, identity_pred=self.cf.is_identity, drop_reshape=True)
        # shape level: same executor, but reshapes / expand_dims / x[:, None] are kept in the terms
        self.ex_pub_shape = MetricExec(repo, identity={"numpy.asarray"}, transfers={CHECK_REG: _check_reg_targets},
                                       keep=lambda d: d in keep, inline_modules={FMOD}, identity_pred=self.cf.is_identity)
        self._shape_paths = {}
        self.ex_plain = S.SymExec(repo, identity=identity, identity_pred=self.cf.is_identity, drop_reshape=True)
        self.eps = self.ex.module_const(self.fmod, "EPS")
        self.base = repo.cls(CL + ":_MetricFunctionWrapper")
        self._paths = {}

    def paths(self, name, fn=None, args=None):
        if name not in self._paths:
            fn = fn or self.repo.func(FN, name)
            self._paths[name] = self.ex.run(self.fmod, fn, args)
        return self._paths[name]

    def shape_paths(self, name, fn):
        if name not in self._shape_paths:
            self._shape_paths[name] = self.ex_pub_shape.run(self.fmod, fn)
        return self._shape_paths[name]

    def sig(self, fn, module=None):
        return self.ex.signature(module or self.fmod, fn)

    def fdot(self, name):
        return FMOD + "." + name


def _check_reg_targets(pos, kw):
    """sklearn's validator returns (type, y_true, y_pred, multioutput): values unchanged, 2-D shape."""
    names = ("y_true", "y_pred", "multioutput")
    b = dict(zip(names, pos))
    b.update({k: v for k, v in kw.items() if k in names})
    if len(b) != 3 or len(pos) > 3:
        return NotImplemented
    return ("tuple", (("k", "<y_type>"), b["y_true"], b["y_pred"], b["multioutput"]))


def role_verdict(got, want):
    """True: ``got`` is exactly ``want``; False: it is something else (another role's data, a constant,
    nothing); None: ``want`` wrapped in an operation outside the transfer table (cannot decide)."""
    if got == want:
        return True
    if got is None:
        return False
    data = [P(r) for r in ROLES + ("y_train", "horizon_weight", "multioutput")]
    seen = {d for d in data if S.mentions(got, d)}
    if seen == {want} and got[0] == "call" and not S.has_unknown(got):
        return None
    return False


# =========================================================================================
# R1 bijection
# =========================================================================================
def rule_r1(ctx, w):
    repo = w.repo
    for n in w.fnames:
        fn = w.funcs.get(n)
        names = astq.param_names(fn) if fn is not None else []
        ctx.check(fn is not None and names[:2] == ["y_true", "y_pred"], "R1", "function:%s:defined" % n,
                  "public metric function with the (y_true, y_pred, ...) protocol",
                  "%s is listed in _functions.__all__ but %s" % (n, "is not a function defined there" if fn is None
                                                                  else "does not take (y_true, y_pred) first: %s" % names[:3]),
                  ctx.loc(w.fmod, fn or w.fmod.defs.get("__all__")))
    cnames = _all_list(ctx, "R1", w.cmod)
    w.public_classes = []
    bound = {}
    for n in cnames:
        sym = repo.resolve_name(w.cmod, n)
        if sym is None:
            ctx.violation("R1", "class:%s:defined" % n, "%s is listed in _classes.__all__ but not defined" % n,
                          ctx.loc(w.cmod, w.cmod.defs.get("__all__")))
            continue
        if sym.kind != "class":
            continue
        c = sym.target
        w.public_classes.append(c)
        res = w.cf.analyse(c)
        av = res.strip_ident(res.attrs.get(w.func_attr))
        loc = ctx.loc(c.module, c.node)
        if res.problems:
            ctx.undecided("R1", "class:%s:binds-public-function" % n, "constructor not interpretable: %s" % res.problems[:2], loc)
            continue
        ok = av is not None and av[0] == "sym" and av[1].startswith(FMOD + ".") and av[1][len(FMOD) + 1:] in w.funcs
        ctx.check(ok, "R1", "class:%s:binds-public-function" % n,
                  "wraps %s" % (av[1] if ok else ""), "constructor binds %s = %r, not one of the public metric functions"
                  % (w.func_attr, av), loc)
        if ok:
            bound.setdefault(av[1][len(FMOD) + 1:], []).append(n)
    for n in w.funcs:
        cs = bound.get(n, [])
        ctx.check(len(cs) == 1, "R1", "function:%s:wrapped-once" % n, "wrapped by exactly one class (%s)" % ", ".join(cs),
                  "wrapped by %d public classes %s (expected exactly one)" % (len(cs), cs), ctx.loc(w.fmod, w.funcs[n]))
    # package re-exports
    pall = _all_list(ctx, "R1", w.pmod)
    expected = {}
    for n in w.funcs:
        expected[n] = FMOD + "." + n
    for c in w.public_classes:
        expected[c.name] = CMOD + "." + c.name
    for n in cnames:
        sym = repo.resolve_name(w.cmod, n)
        if sym is not None and sym.kind == "func":
            expected[n] = CMOD + "." + n
    for n, want in sorted(expected.items()):
        sym = repo.resolve_name(w.pmod, n)
        got = sym.dotted if sym is not None else None
        ctx.check(n in pall and got == want, "R1", "package:export:%s" % n, "exported and bound to %s" % want,
                  "package %s: %s" % (PK, ("%s missing from __all__" % n) if n not in pall
                                      else "name %s is bound to %s, expected %s" % (n, got, want)), ctx.loc(w.pmod, w.pmod.tree))
    for n in pall:
        if n not in expected and repo.resolve_name(w.pmod, n) is None:
            ctx.info("package __all__ lists %r which is not defined or imported there (star-import would fail); "
                     "not a C06 clause" % n)


# =========================================================================================
# R2 wrapper call conformance, R7 direction
# =========================================================================================
def metric_classes(w):
    out = []
    for c in [w.base] + w.repo.subclasses(w.base):
        out.append(c)
    return out


def resolve_func(w, dotted_name):
    modname, _, name = dotted_name.rpartition(".")
    m = w.repo.modules.get(modname)
    node = m.defs.get(name) if m is not None else None
    if isinstance(node, ast.FunctionDef):
        return m, node
    return None


def rule_r2(ctx, w):
    repo = w.repo
    for c in metric_classes(w):
        res = w.cf.analyse(c)
        loc = ctx.loc(c.module, c.node)
        av = res.strip_ident(res.attrs.get(w.func_attr))
        if av is None or av[0] != "sym":
            if c is not w.base and c.name in [k.name for k in getattr(w, "public_classes", [])]:
                ctx.undecided("R2", "%s:function" % c.name, "cannot resolve the wrapped function (%r)" % (av,), loc)
            else:
                ctx.info("R2: %s takes the function as a constructor argument (abstract wrapper), checked through its subclasses" % c.name)
            continue
        hit = resolve_func(w, av[1])
        if hit is None:
            ctx.undecided("R2", "%s:function" % c.name, "wrapped function %s is not a repo function" % av[1], loc)
            continue
        if res.problems:
            ctx.undecided("R2", "%s:constructor" % c.name, "; ".join(res.problems[:3]), loc)
            continue
        fmod, fdef = hit
        check_wrapper(ctx, w, c, res, av[1], fmod, fdef)
    # the generic wrapper built by make_forecasting_scorer: positional protocol
    hit = repo.lookup_method(w.base, "__call__")
    if hit is None:
        ctx.undecided("R2", "_MetricFunctionWrapper:protocol", "no __call__", ctx.loc(w.cmod, w.base.node))
        return
    k, fn = hit
    try:
        paths = [p for p in w.ex_plain.run(k.module, fn, selfname=_selfname(fn)) if p.outcome != "raise"]
    except Undecidable as e:
        ctx.undecided("R2", "_MetricFunctionWrapper:protocol", str(e), ctx.loc(k.module, fn))
        return
    ok = bool(paths)
    why = ""
    for p in paths:
        v = p.value
        good = (p.outcome == "return" and v[0] == "call" and v[1] == ("sattr", w.func_attr))
        if good:
            kw = dict(v[3])
            pos = list(v[2])
            yt = pos[0] if pos else kw.get("y_true")
            yp = pos[1] if len(pos) > 1 else kw.get("y_pred")
            good = yt == YT and yp == YP and len(pos) <= 2 and set(kw) <= {"y_true", "y_pred"}
        if not good:
            ok, why = False, show(v) if v else p.outcome
    ctx.check(ok, "R2", "_MetricFunctionWrapper:protocol", "generic wrapper calls func(y_true, y_pred)",
              "generic wrapper does not call the wrapped function as func(y_true, y_pred): %s" % why, ctx.loc(k.module, fn))


def _selfname(fn):
    a = fn.args.posonlyargs + fn.args.args
    return a[0].arg if a else "self"


def check_wrapper(ctx, w, c, res, fdotted, fmod, fdef):
    repo = w.repo
    name = c.name
    hit = repo.lookup_method(c, "__call__")
    if hit is None:
        ctx.undecided("R2", "%s:returns-func" % name, "no __call__ in the MRO", ctx.loc(c.module, c.node))
        return
    k, fn = hit
    loc = ctx.loc(k.module, fn)
    selfname = _selfname(fn)
    def lookup(mname, c=c):
        hit2 = repo.lookup_method(c, mname)
        return (hit2[0].module, hit2[1], hit2[0].is_static(mname)) if hit2 is not None else None

    w.ex_plain.method_lookup = lookup
    try:
        paths = w.ex_plain.run(k.module, fn, selfname=selfname)
    except Undecidable as e:
        ctx.undecided("R2", "%s:returns-func" % name, "%s.__call__: %s" % (k.name, e), loc)
        return
    finally:
        w.ex_plain.method_lookup = None
    fparams, fdefaults, f_kwargs = w.sig(fdef, fmod)
    call_params = [p for p in astq.all_param_names(fn, skip_self=True)]
    own_kwargs = ("p", "**" + fn.args.kwarg.arg) if fn.args.kwarg else None
    normal = [p for p in paths if p.outcome != "raise"]
    bindings = []
    bad_ret = None
    opaque = None
    for p in normal:
        v = p.value
        if p.outcome != "return" or v[0] != "call" or v[1] not in (("sattr", w.func_attr), F(fdotted)):
            bad_ret = show(v) if v else "falls off the end"
            continue
        pos, kw = list(v[2]), list(v[3])
        b = {"!extra": [], "!unknown": [], "!kwargs": False}
        if v[1] == F(fdotted) and not pos:
            # already bound through the signature by the executor
            for kk, vv in kw:
                b[kk] = vv
            for kk, dv in fdefaults.items():
                b.setdefault(kk, ("default", dv))
        else:
            for i, a in enumerate(pos):
                if a and a[0] == "*":
                    opaque = "*%s" % show(a[1])
                elif i < len(fparams):
                    b[fparams[i]] = a
                else:
                    b["!extra"].append(show(a))
            expanded = []
            for kk, vv in kw:
                if kk == "**" and vv[0] == "dict" and all(x[0] == "k" and isinstance(x[1], str) for x, _ in vv[1]):
                    expanded.extend((x[1], y) for x, y in vv[1])
                elif kk == "**" and vv[0] == "sattr" and (res.strip_ident(res.attrs.get(vv[1])) or ("?",))[0] == "dict":
                    # a dict built by the constructor: its values were captured at construction time
                    expanded.extend((x, ("ctor", vv[1], y)) for x, y in res.strip_ident(res.attrs[vv[1]])[1])
                else:
                    expanded.append((kk, vv))
            for kk, vv in expanded:
                if kk == "**":
                    b["!kwargs"] = b["!kwargs"] or (vv == own_kwargs)
                    if vv != own_kwargs:
                        opaque = "**%s" % show(vv)
                elif kk in fparams or f_kwargs:
                    if kk in b:
                        b["!extra"].append("%s given twice" % kk)
                    b[kk] = vv
                else:
                    b["!unknown"].append(kk)
        bindings.append(b)
    ctx.check(bad_ret is None and bool(bindings), "R2", "%s:returns-func" % name,
              "%s.__call__ returns %s(...) unchanged" % (k.name, fdotted.rpartition(".")[2]),
              "%s.__call__ does not return the value of the wrapped function %s: returns %s"
              % (k.name, fdotted.rpartition(".")[2], bad_ret), loc)
    if not bindings:
        return
    if opaque is not None:
        ctx.undecided("R2", "%s:binding" % name, "%s.__call__ passes %s: actual arguments cannot be bound statically"
                      % (k.name, opaque), loc)
        return
    fshort = fdotted.rpartition(".")[2]
    extra = [x for b in bindings for x in b["!extra"]]
    if extra:
        ctx.violation("R2", "%s:arity" % name, "call of %s passes surplus arguments: %s" % (fshort, extra), loc)
    # keywords exist
    unknown = sorted({x for b in bindings for x in b["!unknown"]})
    passed = sorted({kk for b in bindings for kk in b if not kk.startswith("!")})
    for kk in passed:
        ctx.ok("R2", "%s:kw-exists:%s" % (name, kk), "%s is a parameter of %s" % (kk, fshort), loc)
    for kk in unknown:
        ctx.violation("R2", "%s:kw-exists:%s" % (name, kk),
                      "%s.__call__ passes keyword %r which is not a parameter of %s%s -> TypeError at call time"
                      % (k.name, kk, fshort, tuple(fparams)), loc)
    # roles
    for p in call_params:
        if p not in fparams and p not in ("y_true", "y_pred"):
            continue
        verdicts = [role_verdict(b.get(p), P(p)) for b in bindings]
        good = False if False in verdicts else (None if None in verdicts else True)
        got = sorted({show(b[p]) if p in b else "<nothing>" for b in bindings})
        ctx.check(good, "R2", "%s:role:%s" % (name, p), "%s -> %s of %s" % (p, p, fshort),
                  "caller's %s is not what %s receives as %s (receives %s)" % (p, fshort, p, ", ".join(got)), loc)
    # required parameters
    for p in fparams:
        if p in fdefaults:
            continue
        good = all(p in b or b["!kwargs"] for b in bindings)
        ctx.check(good, "R2", "%s:required:%s" % (name, p), "required parameter %s supplied" % p,
                  "%s(...) requires %r (no default) but %s.__call__ never supplies it -> the metric object cannot be called"
                  % (fshort, p, k.name), loc)
    # options: stored unchanged and forwarded as self.<attribute holding that option>
    for opt in res.params:
        av = res.strip_ident(res.attrs.get(opt))
        if res.holds_param(opt):
            stored = True
        elif av is None or av[0] in ("const", "param", "sym", "not") or \
                (av[0] == "mixed" and PARAM(opt) not in [res.strip_ident(x) for x in av[1]]):
            stored = False
        else:
            stored = None  # derived from something: cannot prove it equals the argument
        ctx.check(stored, "R2", "%s:stored:%s" % (name, opt), "self.%s holds the constructor argument" % opt,
                  "constructor argument %r is not what self.%s holds: %r (the object ignores the option it was given)"
                  % (opt, opt, res.attrs.get(opt)), ctx.loc(c.module, c.methods.get("__init__", c.node)))
        if opt not in fparams:
            continue
        cd, fd = res.defaults.get(opt), fdefaults.get(opt)
        if cd is not None or fd is not None:
            if cd is None or fd is None:
                same = False
            elif cd[0] == "const" and fd[0] == "k":
                same = cd[1] == fd[1] and (isinstance(cd[1], bool) == isinstance(fd[1], bool))
            elif cd[0] == "sym" and fd[0] == "f":
                same = cd[1] == fd[1]
            elif (cd[0] in ("const", "sym")) and fd[0] in ("k", "f"):
                same = False
            else:
                same = None
            ctx.check(same, "R2", "%s:default:%s" % (name, opt), "class and function agree on the default of %s" % opt,
                      "default of option %r differs: %s(%s=%r) vs %s(%s=%s) -- the object and the function called without "
                      "the option compute different metrics" % (opt, name, opt, cd[1] if cd else "<required>", fshort, opt,
                                                                show(fd) if fd else "<required>"),
                      ctx.loc(c.module, c.methods.get("__init__", c.node)))
        good = True
        why = ""
        for b in bindings:
            v = b.get(opt)
            if v is None:
                good, why = False, "not forwarded at all (the function's default is used whatever the object was built with)"
            elif v[0] == "sattr" and res.strip_ident(res.attrs.get(v[1])) == PARAM(opt):
                pass
            elif v[0] == "ctor":
                good, why = False, ("forwarded from self.%s, a dict filled by the constructor (%r): the value is captured at construction "
                                    "time, so set_params(%s=...) / a later assignment of self.%s has no effect on the call"
                                    % (v[1], v[2], opt, opt))
            elif v[0] in ("sattr", "k", "p", "not", "f") or not any(
                    x[0] == "sattr" and res.strip_ident(res.attrs.get(x[1])) == PARAM(opt) for x in S.subterms(v)):
                good, why = False, "forwarded value is %s, not the attribute holding the constructor argument" % show(v)
            elif good:
                good, why = None, "forwarded value %s wraps the option in an operation that is not interpreted" % show(v)
        ctx.check(good, "R2", "%s:forward:%s" % (name, opt), "%s=self.%s forwarded" % (opt, opt),
                  "option %r of %s is a parameter of %s but %s" % (opt, name, fshort, why), loc)
    # attributes read exist
    for x in sorted({n.attr for n in astq.self_attr_reads(fn, selfname)}):
        ctx.check(x in res.written or x in res.class_names, "R2", "%s:attr-written:%s" % (name, x),
                  "self.%s is written in the MRO" % x,
                  "%s.__call__ reads self.%s which no class in the MRO of %s ever writes -> AttributeError"
                  % (k.name, x, name), loc)


def rule_r7(ctx, w):
    repo = w.repo
    for c in w.public_classes:
        res = w.cf.analyse(c)
        av = res.strip_ident(res.attrs.get(w.gib_attr))
        loc = ctx.loc(c.module, c.methods.get("__init__", c.node))
        if res.problems:
            ctx.undecided("R7", "%s:greater_is_better" % c.name, "; ".join(res.problems[:2]), loc)
            continue
        ctx.check(av == CONST(False), "R7", "%s:greater_is_better" % c.name, "declared as a loss (greater_is_better=False)",
                  "shipped loss metric declares greater_is_better=%r (documented best value is 0; selection by "
                  "ForecastingGridSearchCV would pick the worst model)" % (av,), loc)
    base = w.cf.analyse(w.base)
    bloc = ctx.loc(w.cmod, w.base.methods.get("__init__", w.base.node))
    ctx.check(base.holds_param(w.gib_attr, "greater_is_better"), "R7", "_MetricFunctionWrapper:stored:greater_is_better",
              "stored unchanged", "greater_is_better is not stored unchanged: %r" % (base.attrs.get(w.gib_attr),), bloc)
    ctx.check(base.holds_param(w.func_attr, "func"), "R7", "_MetricFunctionWrapper:stored:func", "stored unchanged",
              "func is not stored unchanged: %r" % (base.attrs.get(w.func_attr),), bloc)
    fn = repo.func(CL, "make_forecasting_scorer")
    loc = ctx.loc(w.cmod, fn)
    try:
        paths = [p for p in w.ex_plain.run(w.cmod, fn) if p.outcome != "raise"]
    except Undecidable as e:
        ctx.undecided("R7", "make_forecasting_scorer:forward:greater_is_better", str(e), loc)
        return
    for prm in ("func", "name", "greater_is_better"):
        good = bool(paths)
        got = ""
        for p in paths:
            v = p.value
            if not (p.outcome == "return" and v[0] == "call" and v[1] == F(CMOD + "._MetricFunctionWrapper") and not v[2]):
                good, got = False, show(v) if v else p.outcome
                continue
            kw = dict(v[3])
            dflt = base.defaults.get(prm)
            val = kw.get(prm, K(dflt[1]) if dflt is not None and dflt[0] == "const" else None)
            if val != P(prm):
                good, got = False, "%s=%s" % (prm, show(val) if val else "<nothing>")
        ctx.check(good, "R7", "make_forecasting_scorer:forward:%s" % prm, "%s forwarded unchanged" % prm,
                  "make_forecasting_scorer does not forward %s unchanged to the wrapper (%s)" % (prm, got), loc)


# =========================================================================================
# decomposition of a metric function's return terms
# =========================================================================================
class Shape:
    pass


WSUM = "weighted sum (not divided by the sum of the weights)"


def wsum_of(t):
    """(weight, data, axis) if ``t`` is a weighted *sum* over the horizon: np.dot(w, x) / w @ x / np.matmul(w, x) /
    np.sum(w * x, axis=..) with exactly one operand carrying the horizon weights."""
    pair = None
    if t[0] == "call" and t[1] in (F("numpy.dot"), F("numpy.matmul")) and not t[2] and len(t[3]) == 2:
        pair = (t[3][0][1], t[3][1][1])
        axis = K(0)
    elif t[0] == "bin" and t[1] == "MatMult":
        pair = (t[2], t[3])
        axis = K(0)
    if pair is not None:
        w_, x_ = pair
        if S.mentions(w_, HW) and not S.mentions(x_, HW):
            return w_, x_, axis
        return None
    if S.is_call_to(t, "numpy.sum") and not t[2]:
        kw = dict(t[3])
        a = kw.get("a")
        if a is not None and a[0] == "prod" and not a[2] and set(kw) <= {"a", "axis"}:
            ws = [x for x in a[1] if S.mentions(x, HW)]
            rest = [x for x in a[1] if not S.mentions(x, HW)]
            if len(ws) == 1 and rest:
                return ws[0], mk_prod(rest), kw.get("axis", NONE)
    return None


PRODFORM = ("geometric mean computed as prod(x) ** (1/n) instead of exp(mean(log x)): the product under/overflows "
            "(witness: a perfect forecast over n >= 21 steps gives EPS**n == 0.0 instead of the documented EPS floor)")


def prodform_of(t):
    """(data, axis) if ``t`` is np.power(np.prod(x, axis=A), 1 / x.shape[A]) (or 1 / len(x) for A == 0)."""
    if not (S.is_call_to(t, "numpy.power") and not t[2]):
        return None
    kw = dict(t[3])
    pr, ex = kw.get("x1"), kw.get("x2")
    if pr is None or ex is None or not (S.is_call_to(pr, "numpy.prod") and not pr[2]) or "a" not in dict(pr[3]):
        return None
    x, axis = dict(pr[3])["a"], dict(pr[3]).get("axis", NONE)
    counts = [("idx", ("attr", x, "shape"), axis)]
    if axis == K(0):
        counts.append(("call", F("builtins.len"), (x,), ()))
    if ex[0] == "prod" and not ex[1] and len(ex[2]) == 1 and ex[2][0] in counts:
        return x, axis
    return None


def agg_of(t):
    """(family, data, weight-or-'NOSLOT', axis, extras) if ``t`` is an aggregator call."""
    if S.is_call_to(t, "numpy.exp") and not t[2] and [k for k, _ in t[3]] == ["x"]:
        m = t[3][0][1]  # exp(mean(log x, axis)): the log-domain geometric mean (what scipy.stats.gmean computes)
        if S.is_call_to(m, "numpy.mean") and not m[2] and set(dict(m[3])) <= {"a", "axis"} and "a" in dict(m[3]):
            lg = dict(m[3])["a"]
            if S.is_call_to(lg, "numpy.log") and not lg[2] and [k for k, _ in lg[3]] == ["x"]:
                return "geometric_mean", lg[3][0][1], "NOSLOT", dict(m[3]).get("axis", NONE), {}, "exp(mean(log x))"
    pf = prodform_of(t)
    if pf is not None:
        return PRODFORM, pf[0], "NOSLOT", pf[1], {}, "prod ** (1/n)"
    ws = wsum_of(t)
    if ws is not None:
        return WSUM, ws[1], ws[0], ws[2], {}, "weighted sum"
    if t[0] == "prod" and len(t[1]) == 1 and len(t[2]) == 1 and wsum_of(t[1][0]) is not None:
        w_, x_, axis = wsum_of(t[1][0])
        n = t[2][0]
        if S.is_call_to(n, "numpy.sum") and not n[2] and dict(n[3]).get("a") == w_ and \
                dict(n[3]).get("axis", NONE) in (NONE, K(0)) and set(dict(n[3])) <= {"a", "axis"}:
            return "mean", x_, w_, axis, {}, "weighted sum / sum of weights"
    if t[0] != "call" or t[1][0] != "f" or t[1][1] not in AGGS or t[2]:
        return None
    family, dp, wp, ap, adef = AGGS[t[1][1]]
    kw = dict(t[3])
    if dp not in kw:
        return None
    data = kw.pop(dp)
    weight = kw.pop(wp, NONE) if wp else "NOSLOT"
    axis = kw.pop(ap, adef) if ap else adef
    return family, data, weight, axis, kw, t[1][1]


def _unary(t):
    """(numpy function, argument) for a one-argument numpy ufunc call."""
    if t[0] == "call" and t[1][0] == "f" and t[1][1].startswith("numpy.") and not t[2] and [k for k, _ in t[3]] == ["x"]:
        return t[1][1], t[3][0][1]
    return None


def decompose_direct(w, t):
    """final averaging / sqrt / aggregator / zero floor / element-wise term of a direct metric."""
    sh = Shape()
    sh.final = "RAW"
    inner = t
    if (S.is_call_to(t, "numpy.average") or S.is_call_to(t, "numpy.mean")) and not t[2]:
        kw = dict(t[3])
        cand = kw.get("a")
        if kw.get("axis") in (K(0), K(-1)):
            del kw["axis"]  # the per-output errors are one-dimensional
        if cand is not None and set(kw) <= ({"a", "weights"} if t[1][1] == "numpy.average" else {"a"}):
            probe = cand
            if agg_of(probe) is None and _unary(probe) is not None:
                probe = _unary(probe)[1]
            if agg_of(probe) is not None:
                sh.final = kw.get("weights", NONE)
                inner = cand
    sh.sqrt = False
    sh.post = None
    u = _unary(inner) if agg_of(inner) is None else None
    if u is not None and agg_of(u[1]) is not None:
        sh.post, inner = u
        sh.sqrt = sh.post == "numpy.sqrt"
    a = agg_of(inner)
    if a is None and inner[0] == "call" and inner[1][0] == "f" and inner[1][1].startswith("sktime."):
        raise Undecidable("the horizon aggregator is the repo-local function %s, whose body the executor cannot reduce to the "
                          "operator table (np.average / np.mean / np.median / sklearn _weighted_percentile / scipy gmean / "
                          "_weighted_geometric_mean): the library operator is trusted, a local re-implementation is not and "
                          "its numeric contract (tie rule, under/overflow) is outside static reach" % show(inner[1]))
    if a is None:
        raise Undecidable("no aggregator call (np.average / np.mean / np.median / _weighted_percentile / gmean / "
                          "_weighted_geometric_mean) found in %s" % show(inner)[:160])
    sh.family, data, sh.weight, sh.axis, sh.extra, sh.agg_name = a
    sh.floor = None
    if S.is_call_to(data, "numpy.where") and set(kwargs_of(data)) == {"condition", "x", "y"}:
        kw = kwargs_of(data)
        sh.floor = (kw["condition"], kw["x"])
        data = kw["y"]
    sh.T = data
    sh.transform = None
    sh.E = None
    if data[0] == "call" and data[1][0] == "f":
        sh.transform = data[1][1]
        if sh.transform in ("numpy.abs", "numpy.square"):
            sh.E = kwargs_of(data).get("x")
    return sh


def abstract_agg(t):
    """Replace horizon aggregators by ("AGG", family, data, axis): what remains must agree between siblings."""
    if not isinstance(t, tuple):
        return t
    a = agg_of(t) if t and t[0] in ("call", "prod", "bin") else None
    if a is not None:
        family, data, weight, axis, extra, _ = a
        if weight in ("NOSLOT", NONE) or S.mentions(weight, HW):
            return ("AGG", family, abstract_agg(data), axis, tuple(sorted(extra.items())))
    return tuple(abstract_agg(x) for x in t)


MO_CASES = {  # truth of (multioutput is a str, == "raw_values", == "uniform_average") in each documented case
    "raw_values": [{A_MO_STR: True, A_RAW: True, A_UNI: False}],
    "uniform_average": [{A_MO_STR: True, A_RAW: False, A_UNI: True}],
    "array": [{A_MO_STR: False, A_RAW: False, A_UNI: False}],
}


def _eval3(t, asg):
    if t in asg:
        return asg[t]
    if t[0] == "not":
        v = _eval3(t[1], asg)
        return None if v is None else (not v)
    if t[0] in ("and", "or"):
        vs = [_eval3(x, asg) for x in t[1]]
        if t[0] == "and":
            return False if False in vs else (None if None in vs else True)
        return True if True in vs else (None if None in vs else False)
    return None


def mo_cases(p):
    """The documented multioutput cases a path can be taken in (its conditions are consistent with the case)."""
    out = set()
    for case, asgs in MO_CASES.items():
        for asg in asgs:
            if all(_eval3(a, asg) in (None, v) for a, v in p.conds):
                out.add(case)
    return out


def tokens_of(name):
    if name == "relative_loss":
        return "relative_loss", set()
    parts = name.split("_")
    if parts[-1] != "error":
        return None, None
    parts = parts[:-1]
    if parts[:2] == ["geometric", "mean"]:
        agg, rest = "geometric_mean", parts[2:]
    elif parts and parts[0] in ("mean", "median"):
        agg, rest = parts[0], parts[1:]
    else:
        return None, None
    if not set(rest) <= set(VOCAB):
        return None, None
    return agg, set(rest)


# =========================================================================================
# R3 / R4 / R5 over the public functions
# =========================================================================================
def rule_functions(ctx, w):
    for name, fn in w.funcs.items():
        loc = ctx.loc(w.fmod, fn)
        agg, toks = tokens_of(name)
        if agg is None:
            ctx.undecided("R5", "%s:name" % name, "function name is outside the metric vocabulary", loc)
            continue
        params = astq.all_param_names(fn)
        args = {}
        if agg == "relative_loss":
            dflt = astq.param_defaults(fn).get("relative_loss_function")
            sym = w.repo.resolve_expr(w.fmod, dflt) if dflt is not None else None
            if sym is None or sym.kind != "func":
                ctx.undecided("R3", "relative_loss:loss-protocol", "default relative_loss_function is not a resolvable metric", loc)
                continue
            args[("sig", "relative_loss_function")] = w.sig(sym.target, sym.module)
        try:
            paths = w.paths(name, fn, args)
        except Undecidable as e:
            ctx.undecided("R3", "%s:paths" % name, str(e), loc)
            continue
        normal = [p for p in paths if p.outcome == "return"]
        fall = [p for p in paths if p.outcome == "fall"]
        ctx.count("paths", len(paths))
        check_container_guards(ctx, w, name, paths, loc)
        if fall or not normal:
            ctx.undecided("R3", "%s:paths" % name, "a path falls off the end without returning a value "
                          "(conditions %s)" % ([(show(a), v) for a, v in fall[0].conds] if fall else "none return"), loc)
            continue
        try:
            normal, fell = expand_delegation(w, name, normal)
        except Undecidable as e:
            ctx.undecided("R3", "%s:paths" % name, str(e), loc)
            continue
        if fell:
            ctx.undecided("R3", "%s:paths" % name, "a delegated metric falls off the end without returning a value", loc)
            continue
        if any(S.has_unknown(p.value) for p in normal):
            bad = [p for p in normal if S.has_unknown(p.value)][0]
            ctx.undecided("R3", "%s:paths" % name, "return value not interpretable: %s" % show(bad.value)[:200], loc)
            continue
        delegated = all(_sk_call(p.value)[0] is not None for p in normal)
        if agg == "relative_loss":
            check_relative_loss(ctx, w, name, fn, normal, loc)
        elif "scaled" in toks:
            check_scaled(ctx, w, name, fn, agg, toks, normal, params, loc)
        elif delegated:
            check_delegate(ctx, w, name, fn, agg, toks, normal, params, loc)
        else:
            check_direct(ctx, w, name, fn, agg, toks, normal, params, loc)


PANDAS_ONLY = ("index", "iloc", "loc", "values", "columns", "to_numpy", "to_frame", "name")
DATA_PARAMS = ("y_true", "y_pred", "y_pred_benchmark", "y_train", "horizon_weight")


def _pandas_proved(conds, prm):
    """Do the conditions taken so far entail that parameter ``prm`` is a pandas object?"""
    def positive(atom):
        if atom[0] == "and":
            return any(positive(x) for x in atom[1])
        if atom[0] == "call" and atom[1] == F("builtins.isinstance") and len(atom[2]) == 2 and atom[2][0] == P(prm):
            tys = atom[2][1][1] if atom[2][1][0] == "tuple" else (atom[2][1],)
            return bool(tys) and all(t[0] == "f" and t[1].startswith("pandas.") for t in tys)
        if atom[0] == "call" and atom[1] == F("builtins.hasattr") and len(atom[2]) == 2 and atom[2][0] == P(prm):
            return atom[2][1][0] == "k" and atom[2][1][1] in PANDAS_ONLY
        return False
    def negative(atom):  # atom is false => prm is pandas
        if atom[0] == "or":
            return any(negative(x) for x in atom[1])
        return atom[0] == "not" and positive(atom[1])
    return any((v is True and positive(a)) or (v is False and negative(a)) for a, v in conds)


def check_container_guards(ctx, w, name, paths, loc):
    """R3: the data parameters are documented as pandas objects *or* numpy arrays, so every pandas-only attribute of
    a raw parameter (``y_train.index`` ...) must be evaluated only where the path conditions already entail
    ``isinstance(<that parameter>, pandas type)`` -- otherwise a mixed call (one pandas, one ndarray) raises instead of
    returning the metric."""
    verdicts = {}
    for p in paths:
        sites = [(i, a) for i, (a, _) in enumerate(p.conds)]
        sites += [(e[1], e[2]) for e in p.effects if e and e[0] == "expr"]
        if p.value is not None:
            sites.append((len(p.conds), p.value))
        for upto, term in sites:
            for x in S.subterms(term):
                if x[0] == "attr" and x[2] in PANDAS_ONLY and x[1][0] == "p" and x[1][1] in DATA_PARAMS \
                        and ("rank2", x[1]) not in p.effects:
                    ok = _pandas_proved(p.conds[:upto], x[1][1])
                    key = x[1][1]
                    if not ok:
                        verdicts[key] = (False, "%s.%s is evaluated on a path whose conditions [%s] do not entail that %s is a pandas "
                                                "object (witness: %s given as a numpy array while another argument is a pandas Series "
                                                "-> AttributeError instead of the metric value)"
                                         % (key, x[2], "; ".join("%s=%s" % (show(a)[:70], v) for a, v in p.conds[:upto]), key, key))
                    else:
                        verdicts.setdefault(key, (True, ""))
    for key, (good, bad) in sorted(verdicts.items()):
        ctx.check(good, "R3", "%s:container-guard:%s" % (name, key), "pandas-only attributes of %s are read under an isinstance guard" % key, bad, loc)


def expand_delegation(w, name, normal, depth=0):
    """A path that returns ``other_public_metric(...)`` is replaced by that metric's own paths (executed with the
    actual arguments), so the name <-> operator obligations of ``name`` are checked on what is really computed."""
    out, fell = [], False
    for p in normal:
        v = p.value
        g = v[1][1][len(FMOD) + 1:] if (v[0] == "call" and v[1][0] == "f" and v[1][1].startswith(FMOD + ".")) else None
        if g is None or g == name or g not in w.funcs or v[2] or depth >= 2:
            out.append(p)
            continue
        gdef = w.funcs[g]
        names, dflt, _ = w.sig(gdef)
        bound = dict(dflt)
        bound.update(dict(v[3]))
        if any(k not in names for k in bound) or any(k not in bound for k in names):
            out.append(p)
            continue
        sub_paths = w.ex.run(w.fmod, gdef, bound)
        subs = [q for q in sub_paths if q.outcome == "return"]
        fell = fell or any(q.outcome == "fall" for q in sub_paths)
        subs, f2 = expand_delegation(w, g, subs, depth + 1)
        fell = fell or f2
        for q in subs:
            conds = list(p.conds)
            feasible = True
            for a, val in q.conds:
                d = S.decide(a, conds)
                if d is None:
                    conds.append((a, val))
                elif d != val:
                    feasible = False
                    break
            if feasible:
                out.append(S.Path(conds, "return", q.value, p.effects + q.effects, q.env))
    return out, fell


def _all(ctx, rule, construct, items, ok_detail, loc):
    """items: list of (bool|None, bad_detail); one verdict per construct."""
    for good, bad in items:
        if good is None:
            ctx.undecided(rule, construct, bad, loc)
            return None
    for good, bad in items:
        if not good:
            ctx.violation(rule, construct, bad, loc)
            return False
    if not items:
        ctx.undecided(rule, construct, "no path reaches this obligation", loc)
        return None
    ctx.ok(rule, construct, ok_detail, loc)
    return True


def _both(a, b):
    return False if (a is False or b is False) else (None if (a is None or b is None) else True)


def _condtxt(p):
    return ", ".join("%s=%s" % (show(a), v) for a, v in p.conds if a in (A_HW_NONE, SQ, A_RAW, A_UNI, A_MO_STR, P("symmetric")))


def check_kernel_calls(ctx, w, name, tag, terms, params, loc):
    """R3: every call of a kernel / public metric inside ``terms`` keeps roles and options."""
    per = {}
    for t in terms:
        for x in S.subterms(t):
            if x[0] == "call" and x[1][0] == "f" and x[1][1].startswith(FMOD + "."):
                short = x[1][1][len(FMOD) + 1:]
                if short in ("_percentage_error", "_relative_error", "_asymmetric_error"):
                    per.setdefault(short, set()).add(x)
    for short, calls_ in sorted(per.items()):
        kdef = w.repo.func(FN, short)
        names, dflt, _ = w.sig(kdef)
        roles, opts = [], []
        for c in calls_:
            if c[2]:
                roles.append((None, "call of %s could not be bound to its signature: %s" % (short, show(c))))
                continue
            kw = dict(c[3])
            for q in names:
                got = kw.get(q, dflt.get(q))
                if q in ROLES:
                    roles.append((role_verdict(got, P(q)), "%s receives %s as its %s (must be the caller's %s): %s"
                                  % (short, show(got) if got else "<nothing>", q, q, show(c))))
                elif q in params:
                    opts.append((got == P(q), "option %s of %s is not forwarded to %s (receives %s)"
                                 % (q, name, short, show(got) if got else "<nothing>")))
        _all(ctx, "R3", "%s:%s:call:%s:roles" % (name, tag, short), roles, "y_true/y_pred(/benchmark) keep their roles", loc)
        if opts:
            _all(ctx, "R3", "%s:%s:call:%s:options" % (name, tag, short), opts, "options forwarded under their own names", loc)


def check_multioutput(ctx, name, shapes, params, loc):
    if "multioutput" not in params:
        ctx.violation("R3", "%s:multioutput:declared" % name, "public metric does not declare multioutput", loc)
        return
    want = {"raw_values": "RAW", "uniform_average": NONE, "array": MO}
    for case in ("raw_values", "uniform_average", "array"):
        items = []
        for p, sh in shapes:
            if case in mo_cases(p):
                items.append((sh.final == want[case],
                              "multioutput=%s: path [%s] %s" % (case, _condtxt(p),
                                                                "averages over outputs" if case == "raw_values" and sh.final != "RAW"
                                                                else "final average uses weights=%s, expected %s"
                                                                % (sh.final if sh.final == "RAW" else show(sh.final),
                                                                   "no averaging" if want[case] == "RAW" else show(want[case])))))
        _all(ctx, "R3", "%s:multioutput:%s" % (name, case), items, "handled as documented", loc)


def check_direct(ctx, w, name, fn, agg, toks, normal, params, loc):
    shapes = []
    for p in normal:
        try:
            shapes.append((p, decompose_direct(w, p.value)))
        except Undecidable as e:
            ctx.undecided("R5", "%s:shape" % name, "path [%s]: %s" % (_condtxt(p), e), loc)
            return
    check_multioutput(ctx, name, shapes, params, loc)
    has_sq = "square_root" in params
    for tag in ("weighted", "unweighted"):
        sel = [(p, sh) for p, sh in shapes if p.cond(A_HW_NONE) in (None, tag == "unweighted")]
        pre = "%s:%s" % (name, tag)
        # R3 horizon weight reaches the aggregator
        items = []
        for p, sh in sel:
            if tag == "weighted":
                wt = sh.weight if sh.weight == "NOSLOT" else strip_reshape(sh.weight)
                good = True if wt == HW else (False if wt == "NOSLOT" else role_verdict(wt, HW))
                bad = ("horizon_weight is given but the %s aggregator %s" %
                       (sh.family, "takes no weights" if sh.weight == "NOSLOT" else "receives weights=%s" % show(sh.weight)))
            else:
                good = sh.weight in ("NOSLOT", NONE, HW)
                bad = "unweighted branch passes weights=%s" % (sh.weight if sh.weight == "NOSLOT" else show(sh.weight))
            items.append((good, bad))
        _all(ctx, "R3", pre + ":horizon_weight", items, "horizon_weight reaches the aggregator", loc)
        if tag == "weighted":
            # R3: the per-row weights meet the (n, k) error matrix along the horizon axis (exact shapes, numpy broadcasting)
            items = []
            try:
                spaths = [q for q in w.shape_paths(name, fn) if q.outcome == "return" and q.cond(A_HW_NONE) in (None, False)]
            except Undecidable as e:
                spaths = []
                items.append((None, str(e)))
            for p in spaths:
                env = {HW: ("n",)}
                for role in (YT, YP, YB):
                    if ("rank2", role) in p.effects:
                        env[role] = ("n", "k")
                se = ShapeEval(w, env, [HW], FMOD)
                se.shape(p.value)
                if se.problems:
                    items.append((False, "horizon_weight of shape (n,) is not applied along the horizon axis of the (n, k) errors: %s "
                                         "(witness: n = 3, one output, horizon_weight = [1, 0, 0] must return the first error; "
                                         "uniform weights hide it)" % se.problems[0]))
                elif se.uncertain:
                    items.append((None, "cannot derive the shapes where the horizon weights are applied: %s" % se.uncertain[0]))
                else:
                    items.append((True, ""))
            _all(ctx, "R3", pre + ":weight-axis", items, "1-D horizon weights are aligned with axis 0 of the (n, k) errors", loc)
        check_kernel_calls(ctx, w, name, tag, [sh.T for _, sh in sel], params, loc)
        # R5 aggregator family / axis
        _all(ctx, "R5", pre + ":aggregator",
             [(sh.family == agg and not sh.extra, "name says %s but the horizon aggregator is %s%s (%s)"
               % (agg, sh.family, " with %s" % sorted(sh.extra) if sh.extra else "", sh.agg_name)) for _, sh in sel],
             "%s aggregator" % agg, loc)
        _all(ctx, "R5", pre + ":axis",
             [(sh.axis == K(0), "aggregates along axis=%s, not over the horizon (axis 0) per output column" % show(sh.axis))
              for _, sh in sel], "aggregates over the horizon axis", loc)
        # R5 transform and base error
        if "asymmetric" in toks:
            want_t = FMOD + "._asymmetric_error"
        else:
            want_t = "numpy.abs" if "absolute" in toks else ("numpy.square" if "squared" in toks else None)
        _all(ctx, "R5", pre + ":transform",
             [(None if want_t is None else sh.transform == want_t,
               "name says %s but the element-wise term is %s" % ("/".join(sorted(toks)), show(sh.T)[:200])) for _, sh in sel],
             "element-wise transform matches the name", loc)
        if "asymmetric" not in toks:
            items = []
            for _, sh in sel:
                e = sh.E
                if e is None:
                    items.append((sh.transform != want_t and None, "element-wise term has no single argument"))
                elif "percentage" in toks:
                    items.append((S.is_call_to(e, FMOD + "._percentage_error"), "percentage metric is not built on _percentage_error: %s" % show(e)[:160]))
                elif "relative" in toks:
                    items.append((S.is_call_to(e, FMOD + "._relative_error"), "relative metric is not built on _relative_error: %s" % show(e)[:160]))
                else:
                    items.append((e in (sub(YT, YP), sub(YP, YT)), "error term is %s, expected y_true - y_pred" % show(e)[:160]))
            _all(ctx, "R5", pre + ":base", items, "base error matches the name", loc)
        # R5 square root
        if "squared" in toks or has_sq or any(sh.post for _, sh in sel):
            items = []
            for p, sh in sel:
                c = p.cond(SQ)
                if "squared" not in toks or not has_sq:
                    items.append((sh.post is None and not has_sq, "square root / square_root option on a metric whose name has no 'squared'"
                                  if "squared" not in toks else "squared metric without a square_root option"))
                elif c is None:
                    items.append((False, "path [%s] does not depend on square_root (option ignored)" % _condtxt(p)))
                elif sh.post not in (None, "numpy.sqrt"):
                    items.append((False, "the aggregate is passed through %s instead of np.sqrt" % sh.post))
                else:
                    items.append((sh.sqrt == c, "square_root=%s but the result is %s" % (c, "rooted" if sh.sqrt else "not rooted")))
            _all(ctx, "R5", pre + ":sqrt", items, "np.sqrt applied exactly under square_root", loc)
        # R5 zero floor of geometric means
        if agg == "geometric_mean":
            items = []
            for _, sh in sel:
                good = sh.floor is not None and sh.floor[0] == mk_cmp("==", sh.T, K(0.0)) and sh.floor[1] == w.eps
                items.append((good, "geometric mean without the `== 0 -> EPS` floor on the same term (%s)"
                              % ("no np.where" if sh.floor is None else "where(%s, %s, .)" % (show(sh.floor[0])[:80], show(sh.floor[1])))))
            _all(ctx, "R5", pre + ":zero-floor", items, "zeros floored by EPS before the logarithm", loc)
        else:
            for _, sh in sel:
                if sh.floor is not None:
                    ctx.undecided("R5", pre + ":zero-floor", "unexpected np.where around the element-wise term", loc)
                    break
    # R4 sibling agreement
    un = [p for p in normal if p.cond(A_HW_NONE) is True]
    wt = [p for p in normal if p.cond(A_HW_NONE) is False]
    pairs = []
    for a in un:
        for b in wt:
            oa = {x: v for x, v in a.conds if x != A_HW_NONE}
            ob = {x: v for x, v in b.conds if x != A_HW_NONE}
            if all(ob.get(x, v) == v for x, v in oa.items()):
                pairs.append((a, b))
    items = []
    for a, b in pairs:
        ta, tb = abstract_agg(a.value), abstract_agg(b.value)
        items.append((ta == tb, "weighted and unweighted branches compute different things [%s]: unweighted %s  vs  weighted %s"
                      % (_condtxt(a), show(a.value)[:220], show(b.value)[:220])))
    if items:
        _all(ctx, "R4", "%s:sibling" % name, items, "weighted and unweighted branches agree up to the weights", loc)
    else:
        ctx.ok("R4", "%s:sibling" % name, "one expression serves the weighted and the unweighted case", loc, nontrivial=False)


def _sk_call(t):
    """(sklearn metric call, numpy ufunc applied to its result or None) if ``t`` delegates to sklearn.metrics."""
    post = None
    u = _unary(t)
    if u is not None:
        post, t = u
    if t[0] == "call" and t[1][0] == "f" and t[1][1].startswith("sklearn.metrics."):
        return t, post
    return None, None


def check_delegate(ctx, w, name, fn, agg, toks, normal, params, loc):
    items_name, items_roles, items_hw, items_mo, items_sq = [], [], [], [], []
    for p in normal:
        v, post = _sk_call(p.value)
        kw = dict(v[3])
        target = v[1][1]
        items_name.append((target == "sklearn.metrics." + name and not v[2],
                           "%s delegates to %s (expected sklearn.metrics.%s)" % (name, target, name)))
        items_roles.append((_both(role_verdict(kw.get("y_true"), YT), role_verdict(kw.get("y_pred"), YP)),
                            "delegate receives y_true=%s, y_pred=%s" % (show(kw.get("y_true", NONE)), show(kw.get("y_pred", NONE)))))
        items_hw.append((role_verdict(kw.get("sample_weight"), HW), "horizon_weight is not passed as sample_weight (got %s)"
                         % show(kw.get("sample_weight", NONE))))
        items_mo.append((role_verdict(kw.get("multioutput"), MO), "multioutput is not forwarded (got %s)" % show(kw.get("multioutput", NONE))))
        if "squared" in toks:
            c = p.cond(SQ)
            eff = kw.get("squared", K(True))
            if c is not None and eff == mk_not(SQ):
                eff = K(not c)
            want = mk_not(SQ) if c is None else K(not c)
            if post is None:
                items_sq.append((eff == want, "square_root=%s: sklearn's `squared` must be `not square_root`, got %s"
                                 % ("any" if c is None else c, show(eff))))
            elif post == "numpy.sqrt" and eff == K(True) and c is True:
                raw_only = mo_cases(p) <= {"raw_values"}
                items_sq.append((raw_only, "square_root=True takes np.sqrt of sklearn's *averaged* MSE: with several outputs "
                                           "(multioutput='uniform_average' or weights) that is sqrt(mean_k mse_k), not the RMSE "
                                           "mean_k sqrt(mse_k) sklearn returns for squared=False (witness: two outputs with mse 1 and 4: "
                                           "1.58 instead of 1.5)"))
            else:
                items_sq.append((False, "square_root=%s: result is %s(sklearn mse with squared=%s)" % (c, post, show(eff))))
        else:
            items_sq.append((post is None and "squared" not in kw and "square_root" not in params,
                             "unexpected root / squared / square_root on a non-squared metric"))
    _all(ctx, "R5", "%s:delegate" % name, items_name, "delegates to the same-named sklearn metric", loc)
    _all(ctx, "R5", "%s:sqrt" % name, items_sq, "squared = not square_root", loc)
    _all(ctx, "R3", "%s:roles" % name, items_roles, "roles kept", loc)
    _all(ctx, "R3", "%s:horizon_weight" % name, items_hw, "horizon_weight -> sample_weight", loc)
    _all(ctx, "R3", "%s:multioutput" % name, items_mo, "multioutput forwarded", loc)


def _ratio(t, eps):
    """t == NUM / maximum(DEN, EPS) -> (NUM, DEN, floored?)"""
    if t[0] != "prod" or len(t[1]) != 1 or len(t[2]) != 1:
        return None
    num, den = t[1][0], t[2][0]
    if S.is_call_to(den, "numpy.maximum") and set(kwargs_of(den)) == {"x1", "x2"}:
        kw = kwargs_of(den)
        if kw["x1"] == eps:
            return num, kw["x2"], True
        if kw["x2"] == eps:
            return num, kw["x1"], True
        return num, den, False
    return num, den, False


def check_scaled(ctx, w, name, fn, agg, toks, normal, params, loc):
    base = name.replace("_scaled", "")
    base_d = w.fdot(base)
    has_sq = "square_root" in params
    it = {k: [] for k in ("ratio", "eps", "family", "ntrue", "npred", "nplain", "sqrt", "roles", "hw", "mo")}
    for p in normal:
        v = p.value
        rooted, post = False, None
        if _unary(v) is not None and _ratio(_unary(v)[1], w.eps) is not None:
            post, v = _unary(v)
            rooted = post == "numpy.sqrt"
        r = _ratio(v, w.eps)
        if r is None or not all(x[0] == "call" and not x[2] for x in r[:2]):
            it["ratio"].append((None if S.has_unknown(p.value) else False,
                                "result is not metric(y_true, y_pred) / max(metric(naive), EPS): %s" % show(p.value)[:220]))
            continue
        num, den, floored = r
        it["ratio"].append((True, ""))
        it["eps"].append((floored, "the in-sample naive error is not floored by EPS before dividing"))
        it["family"].append((num[1] == F(base_d) and den[1] == F(base_d),
                             "scaled metric must divide %s by %s of the naive forecast; found %s / %s"
                             % (base, base, show(num[1]), show(den[1]))))
        nk, dk = dict(num[3]), dict(den[3])
        it["ntrue"].append((dk.get("y_true") == ("idx", YTR, ("slice", SP, NONE, NONE)),
                            "naive truth is %s, expected y_train[sp:]" % show(dk.get("y_true", NONE))))
        it["npred"].append((dk.get("y_pred") == ("idx", YTR, ("slice", NONE, neg(SP), NONE)),
                            "seasonal naive forecast is %s, expected y_train[:-sp]" % show(dk.get("y_pred", NONE))))
        it["nplain"].append((dk.get("horizon_weight", NONE) == NONE and dk.get("multioutput") == MO
                             and dk.get("square_root", K(False)) == K(False) and nk.get("square_root", K(False)) == K(False),
                             "naive error must be unweighted, per the same multioutput, without inner square root: %s / %s"
                             % (show(num)[:120], show(den)[:120])))
        c = p.cond(SQ)
        if has_sq and "squared" in toks:
            it["sqrt"].append((False, "path does not depend on square_root") if c is None else
                              (False, "the ratio is passed through %s instead of np.sqrt" % post) if post not in (None, "numpy.sqrt") else
                              (rooted == c, "square_root=%s but the ratio is %s" % (c, "rooted" if rooted else "not rooted")))
        else:
            it["sqrt"].append((post is None and not has_sq, "square root on a metric that is not 'squared'"))
        it["roles"].append((_both(role_verdict(nk.get("y_true"), YT), role_verdict(nk.get("y_pred"), YP)),
                            "%s receives y_true=%s, y_pred=%s" % (base, show(nk.get("y_true", NONE)), show(nk.get("y_pred", NONE)))))
        it["hw"].append((role_verdict(nk.get("horizon_weight"), HW), "horizon_weight is not forwarded to %s (got %s)"
                         % (base, show(nk.get("horizon_weight", NONE)))))
        it["mo"].append((role_verdict(nk.get("multioutput"), MO), "multioutput is not forwarded to %s (got %s)"
                         % (base, show(nk.get("multioutput", NONE)))))
    if _all(ctx, "R5", "%s:scaled:ratio" % name, it["ratio"], "forecast error / max(naive error, EPS)", loc) is not True:
        return
    _all(ctx, "R5", "%s:scaled:eps-floor" % name, it["eps"], "denominator floored by EPS", loc)
    _all(ctx, "R5", "%s:scaled:family" % name, it["family"], "numerator and denominator use %s" % base, loc)
    _all(ctx, "R5", "%s:scaled:naive-true" % name, it["ntrue"], "y_train[sp:]", loc)
    _all(ctx, "R5", "%s:scaled:naive-pred" % name, it["npred"], "y_train[:-sp]", loc)
    _all(ctx, "R5", "%s:scaled:naive-plain" % name, it["nplain"], "naive error unweighted, same multioutput", loc)
    _all(ctx, "R5", "%s:scaled:sqrt" % name, it["sqrt"], "root applied to the ratio exactly under square_root", loc)
    _all(ctx, "R3", "%s:roles" % name, it["roles"], "roles kept", loc)
    _all(ctx, "R3", "%s:horizon_weight" % name, it["hw"], "horizon_weight forwarded", loc)
    _all(ctx, "R3", "%s:multioutput" % name, it["mo"], "multioutput forwarded", loc)
    if "sp" not in params or "y_train" not in params:
        ctx.violation("R5", "%s:scaled:naive-true" % name, "scaled metric without y_train/sp parameters", loc)


def check_relative_loss(ctx, w, name, fn, normal, loc):
    lf = P("relative_loss_function")
    it = {k: [] for k in ("ratio", "eps", "pred", "bench", "hw", "mo")}
    for p in normal:
        r = _ratio(p.value, w.eps)
        if r is None or not all(x[0] == "call" and x[1] == lf and not x[2] for x in r[:2]):
            it["ratio"].append((None if S.has_unknown(p.value) else False,
                                "result is not loss(y_true, y_pred) / max(loss(y_true, y_pred_benchmark), EPS) with the "
                                "user's relative_loss_function: %s" % show(p.value)[:220]))
            continue
        num, den, floored = r
        nk, dk = dict(num[3]), dict(den[3])
        it["ratio"].append((True, ""))
        it["eps"].append((floored, "benchmark loss is not floored by EPS"))
        it["pred"].append((_both(role_verdict(nk.get("y_true"), YT), role_verdict(nk.get("y_pred"), YP)),
                           "numerator loss receives y_true=%s, y_pred=%s" % (show(nk.get("y_true", NONE)), show(nk.get("y_pred", NONE)))))
        it["bench"].append((_both(role_verdict(dk.get("y_true"), YT), role_verdict(dk.get("y_pred"), YB)),
                            "benchmark loss receives y_true=%s, y_pred=%s (expected y_true, y_pred_benchmark)"
                            % (show(dk.get("y_true", NONE)), show(dk.get("y_pred", NONE)))))
        it["hw"].append((nk.get("horizon_weight") == HW and dk.get("horizon_weight") == HW,
                         "horizon_weight is not forwarded to both losses"))
        it["mo"].append((nk.get("multioutput") == MO and dk.get("multioutput") == MO, "multioutput is not forwarded to both losses"))
    if _all(ctx, "R5", "relative_loss:ratio", it["ratio"], "loss / max(benchmark loss, EPS)", loc) is not True:
        return
    _all(ctx, "R5", "relative_loss:eps-floor", it["eps"], "denominator floored by EPS", loc)
    _all(ctx, "R3", "relative_loss:call:pred:roles", it["pred"], "roles kept", loc)
    _all(ctx, "R3", "relative_loss:call:benchmark:roles", it["bench"], "benchmark takes the forecast's place", loc)
    _all(ctx, "R3", "relative_loss:horizon_weight", it["hw"], "forwarded to both", loc)
    _all(ctx, "R3", "relative_loss:multioutput", it["mo"], "forwarded to both", loc)


# =========================================================================================
# R6 kernels
# =========================================================================================
def _frac(t):
    """term -> (coef, nums, dens)"""
    coef = 1
    if t[0] == "sum" and t[1] == 0 and len(t[2]) == 1:
        coef, t = t[2][0]
    if t[0] == "prod":
        return coef, t[1], t[2]
    return coef, (t,), ()


def rule_r6(ctx, w):
    repo = w.repo
    eps = w.eps
    ctx.check(eps in EPS_OK, "R6", "EPS:value", "EPS is the float64 machine epsilon",
              "EPS is %s, not np.finfo(np.float64).eps (the documented floor of the clamps)" % show(eps),
              ctx.loc(w.fmod, w.fmod.defs.get("EPS")))
    ab = lambda x: call(F("numpy.abs"), x=x)  # noqa: E731
    mx = lambda a, b: call(F("numpy.maximum"), x1=a, x2=b)  # noqa: E731
    mn = lambda a, b: call(F("numpy.minimum"), x1=a, x2=b)  # noqa: E731
    d = sub(YT, YP)

    # ---- _percentage_error
    fn = repo.func(FN, "_percentage_error")
    loc = ctx.loc(w.fmod, fn)
    try:
        paths = [p for p in w.ex.run(w.fmod, fn) if p.outcome != "raise"]
    except Undecidable as e:
        paths = None
        ctx.undecided("R6", "_percentage_error:switch", str(e), loc)
    if paths is not None:
        sym = P("symmetric")
        on = [p for p in paths if p.cond(sym) is True]
        off = [p for p in paths if p.cond(sym) is False]
        ctx.check(bool(on) and bool(off) and len(on) + len(off) == len(paths) and all(p.outcome == "return" for p in paths),
                  "R6", "_percentage_error:switch", "both variants selected by the truth of `symmetric`",
                  "_percentage_error does not select its two variants by the truth of `symmetric` (%d/%d/%d paths)"
                  % (len(on), len(off), len(paths)), loc)
        spec = {
            "symmetric": (on, 2, (ab(d),), (mx(S.add(ab(YT), ab(YP)), eps),), "2*|y_true - y_pred|", "max(|y_true| + |y_pred|, EPS)"),
            "asymmetric": (off, 1, (d,), (mx(ab(YT), eps),), "y_true - y_pred", "max(|y_true|, EPS)"),
        }
        for tag, (ps, coef, nums, dens, ntxt, dtxt) in spec.items():
            n_items, d_items = [], []
            for p in ps:
                if p.outcome != "return":
                    continue
                c, ns, ds = _frac(p.value)
                n_items.append((c == coef and ns == nums, "%s numerator is %s*%s, expected %s"
                                % (tag, c, "*".join(show(x) for x in ns), ntxt)))
                d_items.append((ds == dens, "%s denominator is %s, expected %s" % (tag, "*".join(show(x) for x in ds) or "1", dtxt)))
            _all(ctx, "R6", "_percentage_error:%s:numerator" % tag, n_items, ntxt, loc)
            _all(ctx, "R6", "_percentage_error:%s:denominator" % tag, d_items, dtxt, loc)

    # ---- _relative_error
    fn = repo.func(FN, "_relative_error")
    loc = ctx.loc(w.fmod, fn)
    D = sub(YT, YB)
    # spec (np.where terms are normalised the same way on both sides: complemented tests swap the branches)
    spec_c, spec_x, spec_y = S.where_parts(call(F("numpy.where"), condition=mk_cmp(">=", D, K(0)), x=mx(D, eps), y=mn(D, neg(eps))))
    try:
        paths = [p for p in w.ex.run(w.fmod, fn) if p.outcome != "raise"]
    except Undecidable as e:
        paths = []
        ctx.undecided("R6", "_relative_error:shape", str(e), loc)
    it = {k: [] for k in ("shape", "num", "test", "pos", "neg")}
    for p in paths:
        c, ns, ds = _frac(p.value) if p.outcome == "return" else (None, (), ())
        wh = S.where_parts(ds[0]) if len(ds) == 1 else None
        it["shape"].append((p.outcome == "return" and wh is not None and len(ns) == 1,
                            "result is not (y_true - y_pred) / np.where(sign test, clamp+, clamp-): %s" % (show(p.value)[:200] if p.value else p.outcome)))
        if wh is None or len(ns) != 1:
            continue
        it["num"].append((c == 1 and ns[0] == d, "numerator is %s*%s, expected y_true - y_pred" % (c, show(ns[0]))))
        it["test"].append((wh[0] == spec_c, "sign test is %s, expected the test y_true - y_pred_benchmark >= 0 (normal form %s)"
                           % (show(wh[0]), show(spec_c))))
        ps, ns_ = (1, 2) if spec_x == mx(D, eps) else (2, 1)  # complemented tests swap the branches (spec and code alike)
        it["pos"].append((wh[ps] == mx(D, eps), "branch for a non-negative difference is %s, expected max(y_true - y_pred_benchmark, EPS)" % show(wh[ps])))
        it["neg"].append((wh[ns_] == mn(D, neg(eps)), "branch for a negative difference is %s, expected min(y_true - y_pred_benchmark, -EPS)" % show(wh[ns_])))
    if paths:
        _all(ctx, "R6", "_relative_error:shape", it["shape"], "quotient with a sign-selected clamp", loc)
        for key, tag, okd in (("num", "numerator", "y_true - y_pred"), ("test", "sign-test", ">= 0 on y_true - y_pred_benchmark"),
                              ("pos", "clamp-nonnegative", "max(d, EPS)"), ("neg", "clamp-negative", "min(d, -EPS)")):
            if it[key]:
                _all(ctx, "R6", "_relative_error:%s" % tag, it[key], okd, loc)

    # ---- _asymmetric_error: decided per option scenario (the two documented option values on each side), so any code
    # shape (lookup table, if/elif, masked updates) is compared by what it computes
    fn = repo.func(FN, "_asymmetric_error")
    loc = ctx.loc(w.fmod, fn)
    thr = P("asymmetric_threshold")
    ops = {"squared": call(F("numpy.square"), x=d), "absolute": call(F("numpy.abs"), x=d)}
    cmp_lt = mk_cmp("<", d, thr)
    it = {k: [] for k in ("shape", "cmp", "left", "right", "table")}
    for lo in ("squared", "absolute"):
        for ro in ("squared", "absolute"):
            scen = "left_error_function=%r, right_error_function=%r" % (lo, ro)
            try:
                paths = [p for p in w.ex.run(w.fmod, fn, {"left_error_function": K(lo), "right_error_function": K(ro)})
                         if p.outcome != "raise"]
            except Undecidable as e:
                it["shape"].append((None, "%s: %s" % (scen, e)))
                continue
            if not paths:
                it["shape"].append((False, "%s: every path raises (the documented option values are rejected)" % scen))
            for p in paths:
                v = p.value
                if p.outcome != "return" or v is None or S.has_unknown(v):
                    it["shape"].append((None, "%s: result not interpretable: %s" % (scen, show(v)[:160] if v else p.outcome)))
                    continue
                it["shape"].append((True, ""))
                if lo == ro:
                    it["table"].append((v == ops[lo], "%s must apply np.%s to every error y_true - y_pred, but the result is %s "
                                        "(witness: one error below and one above the threshold)"
                                        % (scen, "square" if lo == "squared" else "abs", show(v)[:200])))
                    continue
                wh = S.where_parts(v)
                if wh is None:
                    it["shape"].append((False, "%s: result is not a selection between the two error functions: %s" % (scen, show(v)[:200])))
                    continue
                spec = S.where_parts(call(F("numpy.where"), condition=cmp_lt, x=ops[lo], y=ops[ro]))
                ls, rs = (1, 2) if spec[1] == ops[lo] else (2, 1)  # complemented tests swap the branches (both sides alike)
                it["cmp"].append((wh[0] == spec[0], "%s: threshold test is %s, expected (y_true - y_pred) < asymmetric_threshold "
                                  "(strictly less selects the left function; normal form %s)" % (scen, show(wh[0]), show(spec[0]))))
                it["left"].append((wh[ls] == ops[lo], "%s: errors below the threshold get %s, expected %s" % (scen, show(wh[ls]), show(ops[lo]))))
                it["right"].append((wh[rs] == ops[ro], "%s: errors at or above the threshold get %s, expected %s" % (scen, show(wh[rs]), show(ops[ro]))))
    _all(ctx, "R6", "_asymmetric_error:shape", it["shape"], "interpretable in all four option scenarios", loc)
    for key, tag, okd in (("cmp", "comparator", "strict < against the threshold"), ("left", "left", "left function below the threshold"),
                          ("right", "right", "right function at or above the threshold"),
                          ("table", "table", "'squared' -> np.square, 'absolute' -> np.abs on both sides")):
        if it[key]:
            _all(ctx, "R6", "_asymmetric_error:%s" % tag, it[key], okd, loc)

    # ---- _weighted_geometric_mean
    fn = repo.func(FN, "_weighted_geometric_mean")
    loc = ctx.loc(w.fmod, fn)
    x, sw, ax = P("x"), P("sample_weight"), P("axis")
    want = call(F("numpy.exp"), x=mk_prod([call(F("numpy.sum"), a=mk_prod([sw, call(F("numpy.log"), x=x)]), axis=ax)],
                                           [call(F("numpy.sum"), a=sw, axis=ax)]))
    want2 = call(F("numpy.exp"), x=call(F("numpy.average"), a=call(F("numpy.log"), x=x), weights=sw, axis=ax))
    try:
        paths = [p for p in w.ex.run(w.fmod, fn) if p.outcome != "raise"]
        _all(ctx, "R6", "_weighted_geometric_mean:value",
             [(p.outcome == "return" and p.value in (want, want2), "weighted geometric mean is %s, expected exp(sum(w*log x)/sum(w))"
               % (show(p.value)[:200] if p.value else p.outcome)) for p in paths], "exp(sum(w*log x)/sum(w))", loc)
    except Undecidable as e:
        ctx.undecided("R6", "_weighted_geometric_mean:value", str(e), loc)


# =========================================================================================
def run(ctx):
    ctx.explain("C06: constructor/attribute flow per concrete metric class (which function each class binds, which "
                "attributes the MRO writes) joined with the signatures of the 18 metric functions; every metric function "
                "and kernel is executed symbolically over all its paths into canonical expression trees, on which role "
                "preservation, option forwarding, weighted/unweighted agreement, the name<->operator table and the kernel "
                "formulas are decided as term identities. Numeric values are not decided.")
    ctx.assume("sklearn's _check_reg_targets returns (type, y_true, y_pred, multioutput) with unchanged values")
    ctx.assume("horizon_weight is one-dimensional of length n (documented shape (fh,)); after _check_reg_targets y_true, y_pred, "
               "y_pred_benchmark are two-dimensional (n, k); np.average aligns 1-D weights with `axis`; sklearn 0.24 "
               "_weighted_percentile tiles 1-D sample_weight over the columns; numpy broadcasting aligns trailing axes")
    ctx.assume("np.asarray / np.expand_dims / check_series (proved to return its argument) do not change values")
    ctx.assume("sklearn.metrics.mean_squared_error(squared=False) takes the root of the per-output errors *before* the "
               "multioutput average (scikit-learn >= 0.23, the pinned 0.24 included)")
    ctx.assume("np.average(weights=None) is the plain mean; _weighted_percentile(percentile=50) is the weighted median; "
               "np.abs and np.square are even; np.maximum/np.minimum are symmetric; sklearn.metrics.mean_absolute_error / "
               "mean_squared_error(squared=) / median_absolute_error implement the same-named formulas (external)")
    w = World(ctx)
    base = w.cf.analyse(w.base)
    fa = [a for a, v in base.attrs.items() if base.strip_ident(v) == PARAM("func")]
    ga = [a for a, v in base.attrs.items() if base.strip_ident(v) == PARAM("greater_is_better")]
    w.func_attr = fa[0] if len(fa) == 1 else "_func"
    w.gib_attr = ga[0] if len(ga) == 1 else "greater_is_better"
    if not w.identity_note:
        ctx.info("check_series is not an identity on its first argument any more: y_train terms go through an opaque call")
    rule_r1(ctx, w)
    rule_r2(ctx, w)
    rule_functions(ctx, w)
    rule_r6(ctx, w)
    rule_r7(ctx, w)
    # floors: instance counts confirmed by hand on commit 132f3d5 (18 functions, 18 classes, 4 kernels)
    ctx.floor("R1", 91)   # 18 defined + 18 class bindings + 18 wrapped-once + 37 package exports
    ctx.floor("R2", 215)  # 18 classes x (returns-func, roles, kw-exists, required, stored, default, forward, attr-written) + protocol
    ctx.floor("R3", 118)  # 10 direct x (3 multioutput + 2 horizon_weight + kernel calls) + 3 delegates x 3 + 4 scaled x 3 + 4
    ctx.floor("R4", 10)   # the 10 functions that aggregate themselves (7 of them with separate weighted / unweighted code)
    ctx.floor("R5", 120)
    ctx.floor("R6", 17)
    ctx.floor("R7", 23)   # 18 classes + 2 stored + 3 forwarded
    ctx.count("metric_functions", len(w.funcs))
    ctx.count("metric_classes", len(w.public_classes))
