"""C03 -- forecasts are indexed by exactly the requested horizon, counted from the true cutoff.

The forecaster code is interpreted abstractly with the horizon semantics taken from the *source* of
``_fh.py`` (``_c02_fh.FHInterp``, see C02): ``self`` is an abstract object with ``_cutoff = cutoff``,
``_fh`` = a horizon over the symbolic step vector ``fh`` (relative and absolute scenario), ``_y`` = a
training series of symbolic length.  pandas constructions become values with an explicit index.

R1  cutoff sites: ``_cutoff`` is stored only by ``_SktimeForecaster._set_cutoff`` (its argument) and ``__init__``
    (None); ``cutoff`` returns it; after ``_set_y_X`` the cutoff is the last index value of the stored series;
    ``_update_y_X`` moves it to the last index value of the new batch, inside the non-empty guard;
    ``_detached_cutoff`` restores the entry value in a ``finally``; ``_predict_moving_cutoff`` starts one step
    before the data inside the detached mode; nobody overrides ``cutoff`` except the tuner, which delegates to
    ``best_forecaster_.cutoff`` behind the fitted-guard.
R2  every prediction constructed in the anchored ``_predict`` code is indexed by ``cutoff + steps`` (relative
    horizon) / the requested labels (absolute horizon); delegating forecasters return a member's ``predict``
    result for the *same* ``fh``, combined only index-preservingly; ``_BaseWindowForecaster._predict`` hands the
    out-of-sample / in-sample part of the horizon to the matching routine and appends in-sample before out-of-sample;
    ``_set_fh`` remembers the validated request itself (no cutoff-dependent conversion frozen at store time) and
    ``predict`` forecasts exactly the remembered horizon.
R3  forecast buffers that hold step s at position s-1 are indexed with ``steps - 1``; the recursive buffer has
    length max(steps); statsmodels is asked for [first, last] = (labels - first training label)[[0, -1]].
R4  label / position discipline: ``.iloc`` only with positions (cv.split, in-sample cutoff positions),
    ``.loc`` only with labels computed from the cutoff / horizon; last window = labels cutoff-w+1 .. cutoff;
    regressors of the trend forecaster are counted from the first training label; the statsmodels
    Int64Index -> RangeIndex coercion keeps first and last label and is checked element-wise.
"""
import ast

from ..absint import Vec, Rng, Arr, Tup, K, Opq, Lin, Alt, Gather, SliceV, SelfV, State, Frame, as_lin_val
from ..index import AnalysisError, ClassInfo, dotted
from ..lin import Facts
from ..flow import Flow, name_pred
from .. import astq
from ._c02_fh import FHInterp, Obj, TV, Mask, Sel, SymV, AlwaysRaises, exc_name, FH_PATH
from ._c02_fh import run as irun, no_result, rejects_for_sure, rejected_inputs

SK = "sktime/forecasting/base/_sktime.py"
C = Lin.sym("cutoff")
STEPS = Vec("fh")
W = Lin.sym("w")
Y0 = Lin.sym("y_train.index[0]")
RULES = ("R1", "R2", "R3", "R4")


# ------------------------------------------------------------------------------ values
class PV:
    """A pandas object whose index is known: ``index`` (abstract value, None = default RangeIndex) or the
    index of ``root`` (a member forecaster's prediction) after the index-preserving operations ``ops``."""

    def __init__(self, index=None, root=None, ops=(), data=None):
        self.index, self.root, self.ops, self.data = index, root, tuple(ops), data

    def then(self, op):
        return PV(self.index, self.root, self.ops + (op,), self.data)

    def __eq__(self, o):
        return isinstance(o, PV) and (self.index, self.root, self.ops) == (o.index, o.root, o.ops)

    def __ne__(self, o):
        return not self.__eq__(o)

    def __hash__(self):
        return hash(("PV", self.root, self.ops))

    def __repr__(self):
        if self.root is not None:
            return "PV(%r%s)" % (self.root, "".join("." + o for o in self.ops))
        return "PV(index=%r%s)" % (self.index, "".join("." + o for o in self.ops))


class Pred:
    """``recv.predict(fh, X, ...)`` on a member forecaster (arguments bound by the sktime predict signature)."""

    def __init__(self, recv, bound, raw, node):
        self.recv, self.bound, self.raw, self.node = recv, bound, tuple(raw), node

    def __eq__(self, o):
        return isinstance(o, Pred) and self.recv == o.recv and self.bound == o.bound

    def __ne__(self, o):
        return not self.__eq__(o)

    def __hash__(self):
        return hash(("Pred", self.recv))

    def __repr__(self):
        return "%r.predict(fh=%r)" % (self.recv, self.bound.get("fh"))


PREDICT_PARAMS = ("fh", "X", "return_pred_int", "alpha")


def as_pv(v):
    if isinstance(v, PV):
        return v
    if isinstance(v, Pred):
        return PV(root=v)
    return None


class PInterp(FHInterp):
    """FHInterp + pandas objects with explicit index, member predictions, .loc/.iloc events."""

    def __init__(self, repo, no_inline=()):
        FHInterp.__init__(self, repo, no_inline=no_inline, extra_hook=self._phook)
        self.yield_hook = None
        self._logged = set()
        self.divisions = []  # divisions by a non-constant affine form: (divisor, facts at that point)

    def note_event(self, ev):
        """Record an event once per (site, abstract operands): receivers are re-evaluated by the call machinery."""
        key = (ev["kind"], id(ev["node"]), repr([ev.get(k) for k in ("val", "idx", "slice", "arg", "target")]))
        if key not in self._logged:
            self._logged.add(key)
            self.events.append(ev)

    def kinds_of(self, v):
        if isinstance(v, Arr):
            return {{"series": "pandas.Series", "frame": "pandas.DataFrame", "index": "pandas.Int64Index"}.get(v.kind, "numpy.ndarray")}
        if isinstance(v, (PV, Pred)):
            return {"pandas.Series"}
        return FHInterp.kinds_of(self, v)

    def getattr(self, base, attr, e, st, frame):
        if attr == "index" and isinstance(base, Opq) and base.tag == "m:combine_first" and len(base.args) == 2 \
                and all(isinstance(a, Arr) for a in base.args):
            # pandas: the result of a.combine_first(b) is indexed by the sorted union of both indexes
            return Opq("union-index", [a.name for a in sorted(base.args, key=lambda a: a.name)])
        return FHInterp.getattr(self, base, attr, e, st, frame)

    def index(self, base, idx, e, st, frame):
        if isinstance(base, Opq) and base.tag == "union-index":
            li = as_lin_val(idx)
            if li is not None and li.is_const() and li.const in (0, -1):
                return Lin.sym("%s(%s)" % ("max" if li.const == -1 else "min", ", ".join("%s.index[%d]" % (n, li.const) for n in base.args)))
        return FHInterp.index(self, base, idx, e, st, frame)

    def _is(self, a, b):
        for x, y in ((a, b), (b, a)):
            if isinstance(y, K) and y.v is None and isinstance(x, (PV, Pred)):
                return False
        return FHInterp._is(self, a, b)

    def assign(self, target, val, st, frame):
        if isinstance(target, ast.Attribute) and target.attr == "index" and isinstance(target.value, ast.Name):
            cur = as_pv(st.env.get(target.value.id))
            if cur is not None:
                FHInterp.assign(self, target, val, st, frame)
                st.env[target.value.id] = PV(index=val, data=cur.data, ops=cur.ops + ("reindex",))
                return
        return FHInterp.assign(self, target, val, st, frame)

    def _yield(self, node, st, frame):
        FHInterp._yield(self, node, st, frame)
        if self.yield_hook is not None:
            self.yield_hook(node, st, frame)

    # -- calls ----------------------------------------------------------------------------------------
    def _phook(self, it, frame, call, fname, args, kwargs, st):
        ext = None
        if fname and fname.split(".")[0] not in st.env:
            ext = self.ext_name(fname, frame)
        if ext in ("pandas.Series", "pandas.DataFrame"):
            data = args[0] if args else kwargs.get("data")
            index = args[1] if len(args) > 1 else kwargs.get("index")
            if index is None or index == K(None):
                inherited = as_pv(data)
                v = inherited.then("wrap") if inherited is not None else PV(index=None, data=data, ops=("ctor",))
            else:
                v = PV(index=index, data=data, ops=("ctor",))
            self.note_event({"kind": "ctor", "val": v, "node": call, "func": frame.func, "data": data})
            return v
        if ext == "pandas.concat" and args:
            lst = args[0]
            axis = kwargs.get("axis", args[1] if len(args) > 1 else Lin.c(0))
            if isinstance(lst, Opq) and lst.tag == "listof" and as_pv(lst.args[0]) is not None and as_lin_val(axis) == Lin.c(1):
                return as_pv(lst.args[0]).then("concat(axis=1)")
            return Opq("concat", [lst, axis])
        if ext == "numpy.array_equal" and len(args) == 2:
            return Opq("same-elements", [self.undelegate(args[0]), self.undelegate(args[1])])
        if ext == "numpy.isin" and len(args) == 2 and not kwargs:
            return Opq("elements-in", [self.undelegate(args[0]), self.undelegate(args[1])])
        if ext in ("numpy.all", "builtins.all") and len(args) == 1 and isinstance(args[0], Opq) and args[0].tag == "elements-in":
            return Opq("subset", args[0].args)
        if ext == "numpy.full" and len(args) == 2 and isinstance(args[1], Opq) and args[1].tag == "attr:nan":
            n = as_lin_val(args[0])
            return Opq("empty-array") if n is not None and n.is_const() and n.const == 0 else Opq("nan-fill", [args[0]])
        if ext in ("numpy.hstack", "numpy.concatenate", "numpy.append") and args:
            parts = args[0].items if isinstance(args[0], Tup) else list(args)
            if any(isinstance(x, Opq) and x.tag == "nan-fill" for x in parts) and not all(isinstance(x, Opq) and x.tag == "nan-fill" for x in parts):
                return Opq("data-with-nan-padding", list(parts))
        if ext in ("numpy.nanmean", "numpy.nanmedian", "numpy.nansum", "numpy.nanmin", "numpy.nanmax") and args:
            return Opq("nan-ignoring:" + ext.split(".")[-1], [strip_padding(args[0])])
        if ext == "numpy.zeros" and len(args) == 1 and as_lin_val(args[0]) is not None:
            return Arr("zeros@%d" % call.lineno, as_lin_val(args[0]), "array")
        if ext in ("numpy.column_stack",) and args:
            return Opq("column_stack", args)
        if isinstance(call.func, ast.Attribute):
            meth = call.func.attr
            if isinstance(call.func.value, ast.Call) and dotted(call.func.value.func) == "super":
                return NotImplemented
            recv = self.ev(call.func.value, st, frame)
            if meth == "predict" and not isinstance(recv, SelfV) and not isinstance(recv, (PV, Pred)):
                bound = {}
                for p, v in zip(PREDICT_PARAMS, args):
                    bound[p] = v
                for k, v in kwargs.items():
                    bound[k] = v
                pr = Pred(recv, bound, args, call)
                self.note_event({"kind": "predict", "val": pr, "node": call, "func": frame.func, "args": args, "kwargs": kwargs})
                return pr
            if meth == "all" and not args and isinstance(recv, Opq) and recv.tag == "elements-in":
                return Opq("subset", recv.args)
            if meth == "equals" and len(args) == 1 and (self.is_fh(recv) or isinstance(recv, Vec)):
                return Opq("same-elements", [self.undelegate(recv), self.undelegate(args[0])])
            if meth == "isin" and len(args) == 1:
                self.note_event({"kind": "isin", "recv": recv, "arg": args[0], "node": call, "func": frame.func})
                return Opq("isin", [recv, args[0]])
            pv = as_pv(recv)
            if pv is not None:
                return self.pv_method(recv, pv, meth, args, kwargs)
            if meth in ("inverse_transform", "transform") and args and as_pv(args[0]) is not None and not isinstance(recv, SelfV):
                return as_pv(args[0]).then(meth)
            if meth == "split" and isinstance(recv, (Opq, SelfV)) and len(args) == 1:
                return Opq("cv.split", [recv, args[0]])
            if meth in ("to_numpy", "ravel") and isinstance(recv, Opq) and recv.tag in ("loc-window",):
                return recv
        if ext == "builtins.next" and len(args) == 1 and isinstance(args[0], Opq) and args[0].tag == "cv.split":
            return Tup([Opq("split-positions", [args[0], K("train")]), Opq("split-positions", [args[0], K("test")])])
        return NotImplemented

    def pv_method(self, recv, pv, meth, args, kwargs):
        """A pandas method applied to a prediction-like value."""
        if meth in ("mean", "median", "min", "max", "sum"):
            axis = kwargs.get("axis", args[0] if args else None)
            if as_lin_val(axis) == Lin.c(1):
                return pv.then("%s(axis=1)" % meth)
            return Opq("aggregate-over-time:" + meth, [recv])
        if meth in ("rename", "copy", "astype", "fillna", "to_frame", "squeeze"):
            return pv.then(meth)
        return Opq("m:" + meth, [recv] + list(args))

    def ev_Dict(self, e, st, frame):
        # a dict literal with constant keys: a finite table
        if e.keys and all(isinstance(k, ast.Constant) for k in e.keys):
            return Opq("table", [Tup([K(k.value), self.ev(v, st, frame)]) for k, v in zip(e.keys, e.values)])
        return Opq("expr:Dict")

    def ev_Call(self, e, st, frame):
        if not isinstance(e.func, (ast.Name, ast.Attribute)):
            # calling a value: bound pandas methods picked from a table, e.g. {"mean": df.mean, ...}[name](axis=1)
            f = self.ev(e.func, st, frame)
            cands = f.args if isinstance(f, Opq) and f.tag == "one-of" else [f]
            if cands and all(isinstance(c, Opq) and c.tag.startswith("attr:") and len(c.args) == 1 and as_pv(c.args[0]) is not None
                             for c in cands) and not any(isinstance(a, ast.Starred) for a in e.args):
                args = [self.ev(a, st, frame) for a in e.args]
                kwargs = {k.arg: self.ev(k.value, st, frame) for k in e.keywords if k.arg}
                outs = []
                for c in cands:
                    r = self.pv_method(c.args[0], as_pv(c.args[0]), c.tag[5:], args, kwargs)
                    if not any(r == o for o in outs):
                        outs.append(r)
                return outs[0] if len(outs) == 1 else Alt([(o, st.facts) for o in outs])
        v = FHInterp.ev_Call(self, e, st, frame)
        if isinstance(v, Opq) and v.tag.startswith("call:") and isinstance(e.func, ast.Attribute):
            recv = self.ev(e.func.value, st, frame)
            kw = [Tup([K(k.arg), self.ev(k.value, st, frame)]) for k in e.keywords if k.arg]
            return Opq("m:" + e.func.attr, [recv] + list(v.args) + kw)
        return v

    def _for_inner(self, node, st, frame):
        # elements of cv.split(y) are (train positions, test positions)
        it = self.ev(node.iter, st, frame)
        if isinstance(it, Opq) and it.tag == "cv.split":
            elem = Tup([Opq("split-positions", [it, K("train")]), Opq("split-positions", [it, K("test")])])
            body_st = st.copy()
            self.assign(node.target, elem, body_st, frame)
            after = st.copy()
            self._havoc(node.body, after)
            out = []
            for s, o in self.block(node.body, body_st, frame):
                if o[0] == "return":
                    out.append((s, o))
            return out + [(after, ("fall",))]
        return FHInterp._for_inner(self, node, st, frame)

    # -- operators --------------------------------------------------------------------------------------
    def binop(self, op, a, b, st):
        if isinstance(op, (ast.Div, ast.FloorDiv, ast.Mod)):
            d = as_lin_val(self.undelegate(b))
            if d is not None and not d.is_const():
                self.divisions.append({"divisor": d, "facts": st.facts.copy(), "dividend": a})
        pa, pb = as_pv(a), as_pv(b)
        if pa is not None and pb is None and not isinstance(b, (Alt,)):
            return pa.then("arith")
        if pb is not None and pa is None and not isinstance(a, (Alt,)):
            return pb.then("arith")
        if pa is not None and pb is not None:
            if (pa.index, pa.root) == (pb.index, pb.root):
                return pa.then("arith")
            return Opq("aligned-arith", [a, b])
        return FHInterp.binop(self, op, a, b, st)

    def ev_Subscript(self, e, st, frame):
        base = self.ev(e.value, st, frame)
        if isinstance(base, Opq) and base.tag in ("attr:loc", "attr:iloc") and len(base.args) == 1:
            how = base.tag[5:]
            target = base.args[0]
            if isinstance(e.slice, ast.Slice):
                lo = self.ev(e.slice.lower, st, frame) if e.slice.lower is not None else None
                hi = self.ev(e.slice.upper, st, frame) if e.slice.upper is not None else None
                self.note_event({"kind": how, "target": target, "slice": (lo, hi), "idx": None, "node": e, "func": frame.func})
                return Opq("loc-window" if how == "loc" else "iloc-window", [target, lo if lo is not None else K(None),
                                                                           hi if hi is not None else K(None)])
            idx = self.ev(e.slice, st, frame)
            self.note_event({"kind": how, "target": target, "slice": None, "idx": idx, "node": e, "func": frame.func})
            if how == "loc":
                return PV(index=idx, data=target, ops=("loc",))
            return Opq("iloc", [target, idx])
        if isinstance(base, Opq) and base.tag == "table" and not isinstance(e.slice, ast.Slice):
            key = self.ev(e.slice, st, frame)
            rows = [(r.items[0], r.items[1]) for r in base.args]
            if isinstance(key, K):
                hit = [v for k, v in rows if k == key]
                return hit[0] if hit else Opq("missing-key", [key])
            # key not known statically: the entry is one of the table's values (a missing key raises)
            vals = []
            for _, v in rows:
                if not any(v == w for w in vals):
                    vals.append(v)
            return vals[0] if len(vals) == 1 else Opq("one-of", vals)
        pv = as_pv(base)
        if pv is not None and not isinstance(e.slice, ast.Slice):
            idx = self.ev(e.slice, st, frame)
            if isinstance(idx, K) and isinstance(idx.v, str):
                return pv.then("column")
        return FHInterp.ev_Subscript(self, e, st, frame)


def strip_padding(v):
    """The value as seen by a NaN-ignoring reduction: the padding does not influence the result."""
    if isinstance(v, Opq):
        if v.tag == "data-with-nan-padding":
            return Opq("data", [a for a in v.args if not (isinstance(a, Opq) and a.tag == "nan-fill")])
        return Opq(v.tag, [strip_padding(a) for a in v.args])
    if isinstance(v, Tup):
        return Tup([strip_padding(a) for a in v.items])
    return v


def carries_padding(v):
    if isinstance(v, Opq):
        return v.tag == "data-with-nan-padding" or any(carries_padding(a) for a in v.args)
    if isinstance(v, Tup):
        return any(carries_padding(a) for a in v.items)
    if isinstance(v, Gather):
        return carries_padding(v.base)
    if isinstance(v, PV):
        return carries_padding(v.data)
    return False


# ------------------------------------------------------------------------------ helpers
def forecaster_classes(repo):
    base = repo.cls("sktime/forecasting/base/_base.py:BaseForecaster")
    return [base] + repo.subclasses(base)


def make_self(it, cls, rel, extra=None):
    fh = it.make_fh(STEPS, rel)
    attrs = {"_cutoff": C, "_fh": fh, "_y": Arr("y_train", None, "series"), "_X": K(None), "_is_fitted": K(True)}
    attrs.update(extra or {})
    return Obj(cls, attrs, mutable=True), fh


def rel_steps(rel):
    """The requested steps relative to the cutoff, as a vector."""
    return STEPS if rel else STEPS.shift(-C)


def abs_labels(rel):
    return STEPS.shift(C) if rel else STEPS


def index_vec(it, v):
    """Vector of labels denoted by an index value (absolute horizon object or bare vector), else None."""
    if it.is_fh(v):
        if v.attrs.get("_is_relative") != K(False):
            return "relative-horizon"
        v = v.attrs.get("_values")
    if isinstance(v, Vec) and v.base == "fh":
        return v
    return None


def judge_index(ctx, it, rule, construct, idx, rel, loc, what):
    want = abs_labels(rel)
    if idx is None or idx == K(None):
        ctx.violation(rule, construct, "%s carries no index (default RangeIndex 0..n-1), expected %r" % (what, want), loc)
        return False
    got = index_vec(it, idx)
    if got == "relative-horizon":
        ctx.violation(rule, construct, "%s is indexed by the *relative* horizon %r, expected the labels %r" % (what, idx, want), loc)
        return False
    if got is None:
        ctx.undecided(rule, construct, "%s: index not interpretable: %r" % (what, idx), loc)
        return None
    return ctx.check(got == want, rule, construct, "%s indexed by %r" % (what, want),
                     "%s indexed by %r, expected %r" % (what, got, want), loc,
                     witness={"index": repr(got), "expected": repr(want)})


def run_method(it, repo, selfv, name, args, facts=None):
    hit = repo.lookup_method(selfv.cls, name)
    if hit is None:
        raise AnalysisError("method %s.%s missing" % (selfv.cls.name, name))
    k, fn = hit
    a = dict(args)
    a[fn.args.args[0].arg] = selfv
    rets, raises, fst = irun(it, k.module, fn, a, selfv.cls, k, facts)
    return rets, raises, k, fn


def own_events(it, kinds):
    return [e for e in it.events if e.get("kind") in kinds]


def top_call(ev, fn):
    """The call node inside the analysed function ``fn`` through which a logged store was reached."""
    for f, node in ev["stack"]:
        if f is fn and node is not None:
            return node
    return ev["node"]


def within(node, stmts):
    return any(n is node for s in stmts for n in ast.walk(s))


# ------------------------------------------------------------------------------ R1
def cutoff_stores(repo):
    """Every syntactic write of an attribute named ``_cutoff`` in non-test modules."""
    out = []
    for m in repo.non_test_modules():
        if "_cutoff" not in m.src:  # cheap pre-filter: the identifier cannot occur in the tree otherwise
            continue

        def visit(node, cls, fn):
            for ch in ast.iter_child_nodes(node):
                c2, f2 = cls, fn
                if isinstance(ch, ast.ClassDef):
                    c2, f2 = ch.name, None
                elif isinstance(ch, (ast.FunctionDef, ast.AsyncFunctionDef)):
                    f2 = ch.name if fn is None else fn
                if isinstance(ch, ast.Attribute) and ch.attr == "_cutoff" and isinstance(ch.ctx, (ast.Store, ast.Del)):
                    out.append((m, cls, fn, ch, "store"))
                elif isinstance(ch, ast.Call) and isinstance(ch.func, ast.Name) and ch.func.id in ("setattr", "delattr") \
                        and len(ch.args) >= 2 and isinstance(ch.args[1], ast.Constant) and ch.args[1].value == "_cutoff":
                    out.append((m, cls, fn, ch, "setattr"))
                elif isinstance(ch, ast.Subscript) and isinstance(ch.ctx, ast.Store) and isinstance(ch.slice, ast.Constant) \
                        and ch.slice.value == "_cutoff":
                    out.append((m, cls, fn, ch, "dict-store"))
                visit(ch, c2, f2)
        visit(m.tree, None, None)
    return out


def rule_r1(ctx, repo):
    skm = repo.module(SK)
    skc = repo.cls(SK + ":_SktimeForecaster")
    # (a) who writes _cutoff
    n_other = 0
    for m, cls, fn, node, how in cutoff_stores(repo):
        cons = "%s:%s.%s:_cutoff-%s" % (m.relpath, cls, fn, how)
        loc = ctx.loc(m, node)
        if m is skm and cls == "_SktimeForecaster" and fn == "_set_cutoff" and how == "store":
            ctx.ok("R1", cons, "the designated writer", loc)
        elif m is skm and cls == "_SktimeForecaster" and fn == "__init__" and how == "store":
            par = [s for s in ast.walk(skc.methods["__init__"]) if isinstance(s, ast.Assign) and any(t is node for t in s.targets)]
            ctx.check(bool(par) and isinstance(par[0].value, ast.Constant) and par[0].value.value is None, "R1", cons,
                      "constructor initialises the cutoff to None", "constructor initialises the cutoff to something else than None", loc)
        else:
            n_other += 1
            ctx.violation("R1", cons, "`_cutoff` is written outside _SktimeForecaster._set_cutoff (%s in %s.%s)" % (how, cls, fn), loc)
    ctx.check(n_other == 0, "R1", "cutoff:single-writer", "no other write of `_cutoff` in %d modules" % len(list(repo.non_test_modules())),
              "%d foreign writes of `_cutoff`" % n_other, SK)

    # (b) _set_cutoff stores its argument, (c) cutoff returns it
    it = PInterp(repo)
    me, _ = make_self(it, skc, True)
    rets, raises, k, fn = run_method(it, repo, me, "_set_cutoff", {"cutoff": Lin.sym("c_new")})
    st = [e for e in it.stores if e["obj"] is me and e["attr"] == "_cutoff"]
    ctx.check(len(st) == 1 and st[0]["val"] == Lin.sym("c_new") and not raises and len(rets) == 1, "R1",
              "_SktimeForecaster._set_cutoff:stores-argument", "stores its argument unchanged on the single path",
              "does not store its argument unchanged on every path: %r" % ([e["val"] for e in st],), ctx.loc(k.module, fn))
    it = PInterp(repo)
    me, _ = make_self(it, skc, True)
    getter = skc.properties.get("cutoff", {}).get("getter")
    if getter is None:
        raise AnalysisError("anchor missing: _SktimeForecaster.cutoff property")
    rets, raises, _ = irun(it, skm, getter, {"self": me}, skc, skc)
    vals = [v for _, v in rets]
    ctx.check(vals == [C] and not raises, "R1", "_SktimeForecaster.cutoff:reads-_cutoff", "returns the stored cutoff",
              "returns %r, not the stored cutoff" % (vals,), ctx.loc(skm, getter))

    # (d) the enumerated callers; every definition of these methods reachable from a forecaster class
    seen = {}
    for cls in forecaster_classes(repo):
        for name in ("_set_y_X", "_update_y_X", "_detached_cutoff", "_predict_moving_cutoff"):
            hit = repo.lookup_method(cls, name)
            if hit is not None:
                seen.setdefault((name, id(hit[1])), (hit[0], hit[1], cls))
    for (name, _), (k, fn, cls) in sorted(seen.items(), key=lambda kv: (kv[0][0], kv[1][0].qual)):
        {"_set_y_X": r1_set_y_X, "_update_y_X": r1_update_y_X, "_detached_cutoff": r1_detached,
         "_predict_moving_cutoff": r1_moving}[name](ctx, repo, k, fn)
    for name in ("_set_y_X", "_update_y_X", "_detached_cutoff", "_predict_moving_cutoff"):
        if not any(n == name for (n, _) in seen):
            raise AnalysisError("anchor missing: %s" % name)

    r1_update_moves_cutoff(ctx, repo)

    # other call sites of _set_cutoff
    known = {id(fn) for (k, fn, cls) in seen.values()}
    for m in repo.non_test_modules():
        if "_set_cutoff" not in m.src:
            continue
        for cnode in [n for n in ast.walk(m.tree) if isinstance(n, ast.ClassDef)]:
            for f in cnode.body:
                if not isinstance(f, ast.FunctionDef) or id(f) in known:
                    continue
                calls = [c for c in astq.calls(f) if astq.call_name(c) == "_set_cutoff"]
                if calls:
                    r1_foreign_call(ctx, repo, m, cnode, f, calls)

    # (e) nobody overrides the cutoff protocol except the tuner
    for cls in forecaster_classes(repo):
        if cls is skc:
            continue
        own = [n for n in ("cutoff", "_set_cutoff", "_detached_cutoff") if n in cls.methods or n in cls.properties]
        cons = "%s:cutoff-protocol" % cls.qual
        loc = ctx.loc(cls.module, cls.node)
        if not own:
            ctx.ok("R1", cons, "inherits the cutoff protocol", loc, nontrivial=False)
        elif cls.name == "BaseGridSearch" and own == ["cutoff"]:
            r1_tuner(ctx, repo, cls)
        else:
            ctx.violation("R1", cons, "%s overrides %s" % (cls.name, ", ".join(own)), loc)


def r1_update_moves_cutoff(ctx, repo):
    """Every ``update`` of a forecaster that keeps its own cutoff reaches ``_update_y_X`` with the data it was given on
    every path to a normal return -- whatever ``update_params`` says (the index of later forecasts is built from it)."""
    skc = repo.cls(SK + ":_SktimeForecaster")
    flow = Flow(repo)
    seen = {}
    for cls in [skc] + repo.subclasses(skc):
        hit = repo.lookup_method(cls, "update")
        if hit is not None:
            seen.setdefault(id(hit[1]), (hit[0], hit[1], cls))
    for _, (k, fn, cls) in sorted(seen.items(), key=lambda kv: kv[1][0].qual):
        params = astq.param_names(fn, skip_self=True)
        cons = "%s.update:moves-cutoff" % k.name
        loc = ctx.loc(k.module, fn)
        if not params:
            ctx.undecided("R1", cons, "update without a data parameter", loc)
            continue
        cfgs = {}

        def pred(t, call, _params=params):
            if t.name != "_update_y_X" or t.kind != "method" or t.func is None:
                return False
            b = astq.bind_call(t.func, call, skip_self=True)
            a = (b or {}).get("y")
            return isinstance(a, ast.Name)

        ok = flow.must_call(fn, pred, k.module, cls, k)
        # the argument handed over at this level is the data parameter itself (not reassigned)
        direct = [c for c in astq.calls(fn) if astq.call_name(c) in ("_update_y_X", "update")
                  and isinstance(c.func, ast.Attribute) and (
                      (isinstance(c.func.value, ast.Name) and c.func.value.id == fn.args.args[0].arg)
                      or (isinstance(c.func.value, ast.Call) and dotted(c.func.value.func) == "super"))]
        g = flow.cfg(fn)

        def still_parameter(call, name=params[0]):
            """No assignment to the parameter can reach the call."""
            cn = g.node_of(call)
            if cn is None:
                return False
            for n in g.nodes:
                writes = n.stmt is not None and not isinstance(n.stmt, (ast.If, ast.While)) and any(
                    isinstance(x, ast.Name) and x.id == name and isinstance(x.ctx, (ast.Store, ast.Del))
                    for e in ([n.stmt.target] if isinstance(n.stmt, (ast.For, ast.AugAssign)) else n.exprs) for x in ast.walk(e))
                if writes and (n is cn or g.may_reach_after(n, lambda m: m is cn)):
                    return False
            return True

        passes = [c for c in direct if c.args and isinstance(c.args[0], ast.Name) and c.args[0].id == params[0]
                  and still_parameter(c)]
        if ok and passes:
            ctx.ok("R1", cons, "the data passed to update reaches _update_y_X on every path", loc)
        elif not ok:
            ctx.violation("R1", cons, "some path through %s.update returns without _update_y_X: the forecaster's own cutoff (and "
                          "remembered data) stay where they were while later forecasts are labelled from that cutoff" % k.name, loc,
                          witness={"history": "fit(y1); update(y2, update_params=<the value of the skipping path>); predict()"})
        else:
            ctx.undecided("R1", cons, "_update_y_X is reached but not with the data parameter `%s` itself" % params[0], loc)
        _ = cfgs


def data_args(fn):
    out = {}
    for p in astq.param_names(fn, skip_self=True):
        out[p] = Arr(p, None, "frame" if p == "X" else "series")
    return out


def time_point(v):
    """Affine form of a time point, with ``index[k]`` for constant k made symbolic (so that it can be compared)."""
    lv = as_lin_val(v)
    if lv is not None:
        return lv
    if isinstance(v, Opq) and v.tag == "elem" and len(v.args) == 2 and isinstance(v.args[0], Arr) \
            and as_lin_val(v.args[1]) is not None and as_lin_val(v.args[1]).is_const():
        return Lin.sym("%s[%s]" % (v.args[0].name, as_lin_val(v.args[1]).const))
    return None


def compatible(store, st):
    """Was the logged store executed on the trace that ended in state ``st``?  (no contradicting branch decision)"""
    return all(st.atoms.get(k, v) == v for k, v in store["atoms"].items())


def value_mentions(v, name):
    if isinstance(v, Arr):
        return v.name == name or v.name.startswith(name + ".")
    if isinstance(v, Lin):
        return any(name in sym for sym in v.symbols())
    if isinstance(v, (Opq, TV)):
        return any(value_mentions(a, name) for a in v.args)
    if isinstance(v, Tup):
        return any(value_mentions(a, name) for a in v.items)
    return False


def opaque_conditions(it, atoms, name):
    """Branch conditions on the data `name` that the affine facts do not capture (e.g. ``y.empty``)."""
    out = []
    for key in atoms:
        if key in it.pathvals:
            v = it.pathvals[key][0]
            affine = isinstance(v, Opq) and v.tag.startswith("cmp:") and len(v.args) == 2 and all(as_lin_val(a) is not None for a in v.args)
            if value_mentions(v, name) and not affine and not (isinstance(v, Opq) and v.tag in ("isinstance", "type")):
                out.append(v)
    return out


def r1_set_y_X(ctx, repo, k, fn):
    # histories: first fit (nothing remembered yet) and re-fit of an already used forecaster (H1: everything fit
    # establishes is re-established on every later call, whatever was remembered before)
    scen = [("X=None", K(None), {"_cutoff": K(None), "_y": K(None)}),
            ("X given", Arr("X", None, "frame"), {"_cutoff": K(None), "_y": K(None)}),
            ("X=None,refit", K(None), {"_cutoff": Lin.sym("cutoff_of_previous_fit"), "_y": Arr("y_previous", None, "series")})]
    for xtag, X, prior in scen:
        it = PInterp(repo, no_inline=("check_equal_time_index",))
        me, _ = make_self(it, k, True, prior)
        args = {"self": me, "y": Arr("y", None, "series"), "X": X}
        rets, raises, _ = irun(it, k.module, fn, args, k, k)
        cons = "%s._set_y_X[%s]" % (k.name, xtag)
        loc = ctx.loc(k.module, fn)
        ys = [e for e in it.stores if e["obj"] is me and e["attr"] == "_y"]
        cs = [e for e in it.stores if e["obj"] is me and e["attr"] == "_cutoff"]
        if not rets:
            no_result(ctx, "R1", cons + ":cutoff", raises, "valid training data is rejected on every path", loc)
            continue
        if not ys:
            ctx.violation("R1", cons + ":stored-y", "the training series is not remembered on this history" + (
                " (a forecaster that is fitted again keeps the data of its previous fit)" if "refit" in xtag else ""), loc)
            continue
        if len(ys) != 1 or not isinstance(ys[0]["val"], Arr):
            ctx.undecided("R1", cons + ":stored-y", "stored training series not interpretable: %r" % ([e["val"] for e in ys],), loc)
            continue
        ctx.check(ys[0]["val"].name == "y", "R1", cons + ":stored-y", "stores the (validated) `y` it was given",
                  "stores %r as training series" % (ys[0]["val"],), loc)
        want = Lin.sym("%s.index[-1]" % ys[0]["val"].name)
        if len(cs) != 1 or time_point(cs[0]["val"]) is None:
            if not cs:
                ctx.violation("R1", cons + ":cutoff", "the cutoff is not set" + (
                    ": a forecaster that is fitted again keeps the cutoff of its previous fit / update" if "refit" in xtag else ""), loc,
                    witness={"history": "fit(y1); fit(y2)"} if "refit" in xtag else None)
            else:
                ctx.undecided("R1", cons + ":cutoff", "cutoff value not interpretable: %r" % ([e["val"] for e in cs],), loc)
            continue
        ctx.check(time_point(cs[0]["val"]) == want, "R1", cons + ":cutoff", "cutoff := last index value of the stored series (%r)" % want,
                  "cutoff := %r, expected the last index value of the stored series %r" % (time_point(cs[0]["val"]), want), loc,
                  witness={"cutoff": repr(cs[0]["val"])})
        ctx.check(all(any(compatible(e, s) for e in cs) for s, _ in rets), "R1", cons + ":every-path",
                  "every accepting path sets the cutoff", "an accepting path leaves the cutoff unset", loc)


def r1_update_y_X(ctx, repo, k, fn):
    for xtag, X in (("X=None", K(None)), ("X given", Arr("X", None, "frame"))):
        it = PInterp(repo, no_inline=("check_equal_time_index",))
        me, _ = make_self(it, k, True)
        ynew = Arr("y", None, "series")
        rets, raises, _ = irun(it, k.module, fn, {"self": me, "y": ynew, "X": X}, k, k)
        cons = "%s._update_y_X[%s]" % (k.name, xtag)
        loc = ctx.loc(k.module, fn)
        cs = [e for e in it.stores if e["obj"] is me and e["attr"] == "_cutoff"]
        if not cs:
            ctx.violation("R1", cons + ":cutoff", "update never moves the cutoff", loc)
            continue
        want = Lin.sym("y.index[-1]")
        for i, e in enumerate(cs):
            if time_point(e["val"]) is None:
                ctx.undecided("R1", cons + ":cutoff", "cutoff value not interpretable: %r" % (e["val"],), loc)
                continue
            ctx.check(time_point(e["val"]) == want, "R1", cons + ":cutoff", "cutoff := last index value of the new batch",
                      "cutoff := %r, expected the last index value of the new batch %r" % (time_point(e["val"]), want), loc)
            guarded = e["facts"].entails_cmp(ynew.length, ">=", 1) is not None
            if not guarded and opaque_conditions(it, e["atoms"], "y"):
                ctx.undecided("R1", cons + ":non-empty-guard", "the write is guarded by a condition on `y` that is not understood: %r"
                              % (opaque_conditions(it, e["atoms"], "y"),), loc)
                continue
            ctx.check(guarded, "R1", cons + ":non-empty-guard",
                      "cutoff is moved only for a non-empty batch (len(y) >= 1 entailed at the write)",
                      "cutoff is moved without a dominating non-empty test: y.index[-1] fails / is stale for the empty "
                      "batches that update(allow_empty) admits", loc)
        # the remembered series is re-stored together with the new batch wherever the cutoff moves: the default update
        # refits on the remembered data, which resets the cutoff to *its* last time point
        ys = [e for e in it.stores if e["obj"] is me and e["attr"] == "_y"]
        for e in cs:
            mine = [y_ for y_ in ys if all(y_["atoms"].get(k_, v_) == v_ for k_, v_ in e["atoms"].items())]
            if not mine:
                ctx.violation("R1", cons + ":remembers-batch", "the cutoff is moved but the remembered series is not extended by the new "
                              "batch: update() refits on the stale series and fit resets the cutoff to its old last time point", loc,
                              witness={"history": "fit(y[:30]); update(y[30:]); cutoff is still that of y[:30]"})
            elif all(value_mentions(y_["val"], "y") for y_ in mine):
                ctx.ok("R1", cons + ":remembers-batch", "the remembered series is re-stored from the new batch (merge order: C10)", loc)
            elif any(isinstance(y_["val"], (Opq, Arr)) for y_ in mine):
                ctx.violation("R1", cons + ":remembers-batch", "the remembered series is re-stored without the new batch: %r"
                              % ([y_["val"] for y_ in mine],), loc)
            else:
                ctx.undecided("R1", cons + ":remembers-batch", "stored series not interpretable: %r" % ([y_["val"] for y_ in mine],), loc)
        # accepting paths: the empty batch leaves the cutoff alone, every path that admits a non-empty batch moves it
        quiet = [s for s, _ in rets if not any(compatible(e, s) for e in cs)]
        if quiet and not any(s.facts.entails_cmp(ynew.length, "<=", 0) is not None for s in quiet) \
                and any(opaque_conditions(it, s.atoms, "y") for s in quiet):
            ctx.undecided("R1", cons + ":empty-batch", "the path for the empty batch depends on a condition on `y` that is not understood", loc)
            continue
        ctx.check(any(s.facts.entails_cmp(ynew.length, "<=", 0) is not None for s in quiet), "R1", cons + ":empty-batch",
                  "an empty batch is accepted without moving the cutoff", "no accepting path for an empty batch", loc)
        lazy = [s for s in quiet if s.facts.entails_cmp(ynew.length, "<=", 0) is None]
        if lazy and any(opaque_conditions(it, s.atoms, "y") for s in lazy):
            ctx.undecided("R1", cons + ":every-batch", "an accepting path without cutoff move depends on a condition on `y` that is not understood", loc)
            continue
        ctx.check(not lazy, "R1", cons + ":every-batch", "every accepting path that admits a non-empty batch moves the cutoff",
                  "a non-empty batch can be accepted without moving the cutoff (guard stronger than len(y) >= 1)", loc)


def r1_detached(ctx, repo, k, fn):
    it = PInterp(repo)
    me, _ = make_self(it, k, True)
    body = Lin.sym("cutoff_moved_in_body")

    def at_yield(node, st, frame):
        me.attrs["_cutoff"] = body

    it.yield_hook = at_yield
    rets, raises, fst = irun(it, k.module, fn, {"self": me}, k, k)
    cons = "%s._detached_cutoff" % k.name
    loc = ctx.loc(k.module, fn)
    yields = [n for n in astq.walk_no_nested(fn) if isinstance(n, (ast.Yield, ast.YieldFrom))]
    cs = [e for e in it.stores if e["obj"] is me and e["attr"] == "_cutoff"]
    if len(yields) != 1:
        ctx.undecided("R1", cons + ":restore", "expected exactly one yield, found %d" % len(yields), loc)
        return
    if not cs:
        ctx.violation("R1", cons + ":restore", "the cutoff is never restored after the detached block", loc)
        return
    last = cs[-1]
    ctx.check(last["val"] == C if as_lin_val(last["val"]) is not None else None, "R1", cons + ":restore",
              "restores the cutoff read at entry", "restores %r, not the cutoff read at entry" % (last["val"],), loc)
    node = top_call(last, fn)
    tries = [t for t in astq.enclosing_stmts(fn, yields[0]) if isinstance(t, ast.Try)]
    ok = any(within(yields[0], t.body) and within(node, t.finalbody) for t in tries)
    ctx.check(ok, "R1", cons + ":finally", "the restoring write is in the `finally` of the try that encloses the yield",
              "the restoring write is not in a `finally` around the yield: an exception in the detached block leaves the moved cutoff", loc)


def r1_moving(ctx, repo, k, fn):
    it = PInterp(repo, no_inline=("_update_predict_single", "_format_moving_cutoff_predictions"))
    me, _ = make_self(it, k, True)
    y = Arr("y", None, "series")
    rets, raises, _ = irun(it, k.module, fn, {"self": me, "y": y, "cv": Opq("cv"), "return_pred_int": K(False)}, k, k)
    cons = "%s._predict_moving_cutoff" % k.name
    loc = ctx.loc(k.module, fn)
    cs = [e for e in it.stores if e["obj"] is me and e["attr"] == "_cutoff"]
    if not cs:
        ctx.violation("R1", cons + ":start", "the cutoff is not moved before the data before iterating", loc)
        return
    first = cs[0]
    ctx.check(time_point(first["val"]) == Lin.sym("y.index[0]") - 1 if time_point(first["val"]) is not None else None, "R1", cons + ":start",
              "cutoff := one step before the first time point of the data",
              "cutoff := %r, expected y.index[0] - 1" % (first["val"],), loc)
    node = top_call(first, fn)
    flow = Flow(repo)
    ok = False
    for w in [s for s in ast.walk(fn) if isinstance(s, ast.With)]:
        if within(node, w.body):
            for item in w.items:
                if isinstance(item.context_expr, ast.Call):
                    t = flow.resolve_call(item.context_expr, k.module, k, k)
                    if t.kind == "method" and t.name == "_detached_cutoff":
                        ok = True
    ctx.check(ok, "R1", cons + ":detached", "the cutoff is moved inside `with self._detached_cutoff()`",
              "the cutoff is moved outside the detached-cutoff mode (it is not restored afterwards)", loc)
    ev = [e for e in own_events(it, ("iloc", "loc")) if e["func"] is fn]
    for e in ev:
        judge_access(ctx, it, "R4", cons + ":window", e, True, ctx.loc(k.module, e["node"]))


def r1_foreign_call(ctx, repo, m, cnode, f, calls):
    cls = repo.classes.get(m.name + ":" + cnode.name)
    cons = "%s:%s.%s:_set_cutoff-call" % (m.relpath, cnode.name, f.name)
    loc = ctx.loc(m, calls[0])
    if cls is None:
        ctx.undecided("R1", cons, "call of _set_cutoff in an unindexed class", loc)
        return
    it = PInterp(repo, no_inline=("check_equal_time_index",))
    me, _ = make_self(it, cls, True)
    try:
        a = data_args(f)
        a[f.args.args[0].arg] = me
        irun(it, m, f, a, cls, cls)
    except AnalysisError as e:
        ctx.undecided("R1", cons, "additional cutoff writer cannot be interpreted: %s" % e, loc)
        return
    cs = [e for e in it.stores if e["obj"] is me and e["attr"] == "_cutoff"]
    params = astq.param_names(f, skip_self=True)
    good = {Lin.sym("%s.index[-1]" % p) for p in params[:1]} | {C}
    for e in cs:
        v = time_point(e["val"])
        if v is None:
            ctx.undecided("R1", cons, "additional cutoff writer with uninterpretable value %r" % (e["val"],), loc)
        else:
            ctx.check(v in good, "R1", cons, "additional writer sets the last index value of its data",
                      "additional cutoff writer sets %r (expected the last index value of the data it receives)" % v, loc)
    if not cs:
        ctx.undecided("R1", cons, "additional call of _set_cutoff not reached by the interpretation", loc)


def r1_tuner(ctx, repo, cls):
    getter = cls.properties["cutoff"].get("getter")
    loc = ctx.loc(cls.module, getter)
    it = PInterp(repo, no_inline=("check_is_fitted",))
    me = Obj(cls, {"best_forecaster_": Opq("best_forecaster_"), "_is_fitted": K(True)}, mutable=True)
    rets, raises, _ = irun(it, cls.module, getter, {"self": me}, cls, cls)
    vals = [v for _, v in rets]
    want = Opq("attr:cutoff", [Opq("best_forecaster_")])
    ctx.check(vals == [want] if vals and all(isinstance(v, Opq) for v in vals) else (None if vals else False), "R1",
              "%s.cutoff:delegates" % cls.name, "returns best_forecaster_.cutoff",
              "returns %r, expected best_forecaster_.cutoff" % (vals,), loc)
    flow = Flow(repo)
    ctx.check(flow.must_call(getter, name_pred("check_is_fitted"), cls.module, cls, cls), "R1", "%s.cutoff:guard" % cls.name,
              "guarded by check_is_fitted on every path", "reads best_forecaster_ without the fitted-guard", loc)


# ------------------------------------------------------------------------------ R2
def judge_site(ctx, repo, cls, name, args_of, no_inline=(), extra=None, want_events=True, tag=None, rule="R2"):
    """Interpret ``cls.name`` for a relative and an absolute horizon; every constructed / re-indexed / label-selected
    prediction must carry the labels of the horizon."""
    for rel in (True, False):
        it = PInterp(repo, no_inline=no_inline)
        me, fh = make_self(it, cls, rel, extra)
        rets, raises, k, fn = run_method(it, repo, me, name, args_of(fh))
        cons = "%s.%s[%s]" % (cls.name if tag is None else tag, name, "relative" if rel else "absolute")
        loc = ctx.loc(k.module, fn)
        if not rets:
            ctx.undecided(rule, cons, "no returning path was interpreted", loc)
            continue
        n = 0
        for e in it.events:
            if e.get("kind") == "ctor" and isinstance(e["val"], PV) and "wrap" not in e["val"].ops:
                if e["val"].index is None:
                    continue  # judged only if it is what the method returns (below)
                n += 1
                judge_index(ctx, it, rule, "%s:%s@%s" % (cons, "Series", e["func"].name), e["val"].index, rel,
                            ctx.loc(k.module, e["node"]), "constructed prediction")
            elif e.get("kind") == "attr-store" and e["attr"] == "index":
                n += 1
                judge_index(ctx, it, rule, "%s:index-assignment@%s" % (cons, e["func"].name), e["val"], rel,
                            ctx.loc(k.module, e["node"]), "re-indexed prediction")
            elif e.get("kind") == "loc" and e["idx"] is not None and (it.is_fh(e["idx"]) or isinstance(e["idx"], Vec)):
                n += 1
                judge_index(ctx, it, rule, "%s:loc@%s" % (cons, e["func"].name), e["idx"], rel,
                            ctx.loc(k.module, e["node"]), "label-selected prediction")
        for v in _distinct([v for _, v in rets]):
            pv = as_pv(v)
            if isinstance(v, Tup) and v.items:
                pv = as_pv(v.items[0])
            if pv is not None and pv.root is None:
                n += 1
                judge_index(ctx, it, rule, cons + ":returned", pv.index, rel, loc, "returned prediction")
        # a path that returns the fitted statsmodels model's forecast of *all* positions start..end as it is: these are
        # the requested time points only if the horizon has no gaps, i.e. end - start + 1 == number of steps on that path
        for s_, v in rets:
            pv = as_pv(v[0] if isinstance(v, Tup) and v.items else v) if not isinstance(v, Tup) else as_pv(v.items[0]) if v.items else None
            if pv is None or pv.root is None or _root_attr(pv.root.recv) != "_fitted_forecaster":
                continue
            n += 1
            a = [as_lin_val(x) for x in list(pv.root.raw)[:2]]
            nsteps = Lin.sym("len(fh)")
            if len(a) < 2 or None in a:
                ctx.undecided(rule, cons + ":returned-all-positions", "start / end of the returned model forecast not interpretable", loc)
                continue
            span = a[1] - a[0] + 1
            ctx.check(s_.facts.entails_cmp(span, "==", nsteps) is not None, rule, cons + ":returned-all-positions",
                      "the model forecast is returned unselected only for gap-free horizons (end - start + 1 == number of steps)",
                      "the forecast of all positions start..end (%r values) is returned without selecting the requested time points "
                      "on a path that does not ensure end - start + 1 == number of steps: a horizon with a gap gets rows that were "
                      "not requested" % span, loc, witness={"input": "fh=[1, 2, 4]"})
        if want_events and n == 0:
            ctx.undecided(rule, cons, "no prediction construction found on the interpreted paths: %r" % ([v for _, v in rets][:2],), loc)
        # any training index start: no integer cutoff may be refused on the way to the labels
        recs = [(r.facts, r[0]) for r in it.partial_rejections] + [(r[0].facts, r[1]) for r in raises]
        for cond, node in rejected_inputs(recs, {"cutoff"})[:1]:
            ctx.violation(rule, cons + ":every-cutoff", "forecasts are refused for integer cutoffs with %s (raise at line %s): a training "
                          "series may end at any time point, e.g. 0" % (" and ".join("%r <= 0" % f for f in cond),
                                                                      getattr(node, "lineno", "?")), loc,
                          witness={"rejected_cutoffs": [repr(f) + " <= 0" for f in cond]})


def judge_delegation(ctx, repo, cls, name, members, extra=None, fh_param="fh", allowed_ops=()):
    """``cls.name`` must return ``<member>.predict(fh, ...)`` for its own horizon, combined index-preservingly."""
    for rel in (True, False):
        it = PInterp(repo, no_inline=("check_is_fitted",))
        me, fh = make_self(it, cls, rel, extra)
        rets, raises, k, fn = run_method(it, repo, me, name, {fh_param: fh})
        cons = "%s.%s[%s]" % (cls.name, name, "relative" if rel else "absolute")
        loc = ctx.loc(k.module, fn)
        if not rets:
            ctx.undecided("R2", cons, "no returning path was interpreted", loc)
            continue
        for v in _distinct([v for _, v in rets]):
            pv = as_pv(v)
            if pv is None or pv.root is None:
                if pv is not None:
                    judge_index(ctx, it, "R2", cons + ":returned", pv.index, rel, loc, "returned prediction")
                elif isinstance(v, Opq) and v.tag.startswith("aggregate-over-time:"):
                    ctx.violation("R2", cons + ":index-preserving", "member predictions are aggregated over the time axis (%s without "
                                  "axis=1): the result is not indexed by the horizon" % v.tag[20:], loc)
                else:
                    ctx.undecided("R2", cons + ":delegates", "returned value is not a member prediction: %r" % (v,), loc)
                continue
            root = pv.root
            src = _root_attr(root.recv)
            ctx.check(src in members if src is not None else None, "R2", cons + ":member",
                      "prediction comes from the member forecaster(s) `%s`" % src,
                      "prediction comes from %r, expected one of %s" % (root.recv, sorted(members)), loc)
            got = root.bound.get("fh")
            if got is None or got == K(None):
                ctx.violation("R2", cons + ":same-fh", "member predict() is called without the requested horizon", ctx.loc(k.module, root.node))
            elif it.is_fh(got):
                ctx.check(got == fh, "R2", cons + ":same-fh", "member predicts the requested horizon unchanged",
                          "member predicts %r instead of the requested horizon %r" % (got, fh), ctx.loc(k.module, root.node))
            elif isinstance(got, (Vec, Lin, Arr, K)) or (isinstance(got, Opq) and got.tag.startswith("param:")):
                ctx.violation("R2", cons + ":same-fh", "member predict() receives %r in the horizon position" % (got,),
                              ctx.loc(k.module, root.node))
            else:
                ctx.undecided("R2", cons + ":same-fh", "horizon passed to the member not interpretable: %r" % (got,), loc)
            bad = [o for o in pv.ops if o not in ("arith", "inverse_transform", "rename", "copy", "wrap", "astype", "concat(axis=1)",
                                                  "mean(axis=1)", "median(axis=1)", "min(axis=1)", "max(axis=1)")]
            ctx.check(not bad, "R2", cons + ":index-preserving", "member prediction combined index-preservingly (%s)" % (", ".join(pv.ops) or "returned as is"),
                      "member prediction passes through %s" % bad, loc)


def _root_attr(v):
    """Name of the ``self`` attribute an opaque member value was read from."""
    while isinstance(v, Opq):
        if v.tag.startswith("self."):
            return v.tag[5:]
        if not v.args:
            return v.tag if v.tag in ("best_forecaster_",) else None
        v = v.args[0]
    if isinstance(v, Tup) and v.items:
        return _root_attr(v.items[0])
    return None


def _distinct(vals):
    out = []
    for v in vals:
        if not any(v == w for w in out):
            out.append(v)
    return out


def rule_r2(ctx, repo):
    bw = repo.cls(SK + ":_BaseWindowForecaster")
    # window forecasters: one instance per definition of _predict_fixed_cutoff reachable from a concrete class
    defs = {}
    for c in [bw] + repo.subclasses(bw):
        hit = repo.lookup_method(c, "_predict_fixed_cutoff")
        if hit is not None:
            defs.setdefault(id(hit[1]), (hit[0], []))[1].append(c)
    for _, (k, users) in sorted(defs.items(), key=lambda kv: kv[1][0].qual):
        if k is not bw and ctx.tier != "thorough":
            continue
        ctx.count("window-forecaster classes", len(users))
        judge_site(ctx, repo, k, "_predict_fixed_cutoff", lambda fh: {"fh": fh, "return_pred_int": K(False)},
                   no_inline=("_predict_last_window",))
    r2_dispatch(ctx, repo, bw)
    r2_window_horizon(ctx, repo, bw)
    r2_member_horizon(ctx, repo)
    r2_update_then_predict(ctx, repo)
    r2_stored_horizon(ctx, repo)
    # model conformance: the conversions interpreted here are what callers get (no memoisation under an incomplete key)
    from .c02 import rule_decorators
    rule_decorators(ctx, repo, rule="R2")
    poly = repo.cls("sktime/forecasting/trend.py:PolynomialTrendForecaster")
    judge_site(ctx, repo, poly, "_predict", lambda fh: {"fh": fh, "return_pred_int": K(False), "X": K(None)})
    stack = repo.cls("sktime/forecasting/compose/_stack.py:StackingForecaster")
    judge_site(ctx, repo, stack, "_predict", lambda fh: {"fh": fh, "return_pred_int": K(False), "X": K(None)},
               extra={"forecasters_": Opq("self.forecasters_")})
    sm = repo.cls("sktime/forecasting/base/adapters/_statsmodels.py:_StatsModelsAdapter")
    judge_site(ctx, repo, sm, "_predict", lambda fh: {"fh": fh, "return_pred_int": K(False)})
    theta = repo.cls("sktime/forecasting/theta.py:ThetaForecaster")
    judge_site(ctx, repo, theta, "_predict", lambda fh: {"fh": fh, "return_pred_int": K(False)})
    judge_site(ctx, repo, theta, "_compute_pred_err", lambda fh: {"alphas": Opq("alphas")}, no_inline=("check_is_fitted",))
    skc = repo.cls(SK + ":_SktimeForecaster")
    judge_site(ctx, repo, skc, "_get_y_pred", lambda fh: {"y_in_sample": Arr("y_in_sample", None, "series"),
                                                           "y_out_sample": Arr("y_out_sample", None, "series")})
    for rel in (True, False):
        r2_pred_int(ctx, repo, skc, rel)
    # delegating forecasters
    judge_delegation(ctx, repo, repo.cls("sktime/forecasting/compose/_multiplexer.py:MultiplexForecaster"), "_predict", {"_forecaster"})
    judge_delegation(ctx, repo, repo.cls("sktime/forecasting/compose/_ensemble.py:EnsembleForecaster"), "_predict", {"forecasters_"},
                     extra={"aggfunc": Opq("self.aggfunc")})
    judge_delegation(ctx, repo, repo.cls("sktime/forecasting/compose/_pipeline.py:TransformedTargetForecaster"), "_predict", {"steps_"})
    judge_delegation(ctx, repo, repo.cls("sktime/forecasting/model_selection/_tune.py:BaseGridSearch"), "predict", {"best_forecaster_"})


def r2_dispatch(ctx, repo, bw):
    """_BaseWindowForecaster._predict: the out-of-sample part goes to _predict_fixed_cutoff, the in-sample part to
    _predict_in_sample, a mixed horizon is the in-sample forecasts followed by the out-of-sample ones; which case
    applies is decided by the horizon's own all-in / all-out predicates for the forecaster's cutoff."""
    from .c02 import all_form
    for rel in (True, False):
        it = PInterp(repo, no_inline=("_predict_fixed_cutoff", "_predict_in_sample"))

        def hook(it_, frame, call, fname, args, kwargs, st):
            r = PInterp._phook(it_, it_, frame, call, fname, args, kwargs, st)
            if r is not NotImplemented:
                return r
            nm = astq.call_name(call)
            if nm in ("_predict_fixed_cutoff", "_predict_in_sample") and isinstance(call.func, ast.Attribute) \
                    and isinstance(it_.ev(call.func.value, st, frame), SelfV):
                part = args[0] if args else kwargs.get("fh")
                return Opq("out-of-sample-forecast" if nm == "_predict_fixed_cutoff" else "in-sample-forecast", [part])
            return NotImplemented

        it.extra_hook = hook
        me, fh = make_self(it, bw, rel)
        rets, raises, k, fn = run_method(it, repo, me, "_predict", {"fh": fh, "return_pred_int": K(False)})
        tag = "relative" if rel else "absolute"
        cons = "_BaseWindowForecaster._predict[%s]" % tag
        loc = ctx.loc(k.module, fn)
        m_in, m_out = Mask("le", rel_steps(rel)), Mask("gt", rel_steps(rel))
        f_in, f_out = it.make_fh(Sel(STEPS, m_in), rel), it.make_fh(Sel(STEPS, m_out), rel)
        want_out, want_in = Opq("out-of-sample-forecast", [f_out]), Opq("in-sample-forecast", [f_in])
        if raises:
            # certain if the callee chain raises for sure and the only assumptions on the trace are the horizon's own
            # all-in / all-out predicates (each satisfiable by some valid horizon)
            what = "a valid horizon makes the dispatch raise (%s at line %s)" % (
                exc_name(raises[0][1]) or "exception", getattr(raises[0][1], "lineno", "?"))
            certain = all(r.inner and all((all_form(pv) or ("?",))[0] == "all" for pv, _, _ in it.path_of(r[0])) for r in raises)
            if certain:
                ctx.violation("R2", cons + ":raises", what, loc)
            else:
                no_result(ctx, "R2", cons + ":raises", raises, what, loc)
            continue
        if len(rets) < 3:
            ctx.undecided("R2", cons, "expected the three cases all-out / all-in / mixed, found %d returning paths" % len(rets), loc)
            continue
        for s, v in rets:
            conds = {}
            for pv, truth, _ in it.path_of(s):
                af = all_form(pv)
                if af is not None and af[0] == "all":
                    conds[af[1]] = truth
            if conds.get(m_out) is True:
                case, want = "all-out-of-sample", want_out
            elif conds.get(m_out) is False and conds.get(m_in) is True:
                case, want = "all-in-sample", want_in
            elif conds.get(m_out) is False and conds.get(m_in) is False:
                case, want = "mixed", None
            elif conds.get(m_in) is True:
                case, want = "all-in-sample", want_in
            else:
                ctx.undecided("R2", cons + ":case", "path condition not understood: %r" % ([(a, b) for a, b, _ in it.path_of(s)],), loc)
                continue
            c2 = "%s:%s" % (cons, case)
            if want is not None:
                if isinstance(v, Opq) and v.tag in ("out-of-sample-forecast", "in-sample-forecast", "m:append"):
                    ctx.check(v == want, "R2", c2, "%s horizon -> %s of exactly that part" % (case, want.tag),
                              "%s horizon returns %r, expected %r" % (case, v, want), loc)
                else:
                    ctx.undecided("R2", c2, "returned value not interpretable: %r" % (v,), loc)
                continue
            if isinstance(v, Opq) and v.tag == "m:append" and len(v.args) >= 2:
                ctx.check(v.args[0] == want_in and v.args[1] == want_out, "R2", c2,
                          "mixed horizon -> in-sample forecasts followed by out-of-sample forecasts (increasing time)",
                          "mixed horizon returns %r.append(%r), expected in-sample part first, then out-of-sample part" % (v.args[0], v.args[1]), loc)
            elif isinstance(v, Opq) and v.tag in ("out-of-sample-forecast", "in-sample-forecast"):
                ctx.violation("R2", c2, "mixed horizon returns only %r: requested steps are dropped" % (v,), loc)
            else:
                ctx.undecided("R2", c2, "returned value not interpretable: %r" % (v,), loc)


def r2_stored_horizon(ctx, repo):
    """The horizon remembered by ``_set_fh`` is the validated horizon itself (``check_fh(fh)``): not a conversion that
    depends on the cutoff at the time of the call -- the cutoff moves with every update, the request does not --
    and ``predict`` forecasts exactly the remembered horizon."""
    fhcls = repo.cls(FH_PATH + ":ForecastingHorizon")
    users = {"_OptionalForecastingHorizonMixin": repo.cls("sktime/forecasting/naive.py:NaiveForecaster"),
             "_RequiredForecastingHorizonMixin": repo.cls("sktime/forecasting/compose/_stack.py:StackingForecaster")}
    for mixin, cls in sorted(users.items()):
        hit = repo.lookup_method(cls, "_set_fh")
        if hit is None or hit[0].name != mixin:
            raise AnalysisError("anchor missing: %s._set_fh (resolved for %s)" % (mixin, cls.name))
        k, fn = hit
        loc = ctx.loc(k.module, fn)
        for fitted in (False, True):
            for given in ("relative", "absolute", "list"):
                it = PInterp(repo)
                prev = it.make_fh(Vec("fh_fit"), True) if fitted else K(None)
                me, _ = make_self(it, cls, True, {"_is_fitted": K(fitted), "_fh": prev})
                if given == "list":
                    arg = TV("builtins.list", "input", ["values"])
                    try:
                        want = it.instantiate(fhcls, [arg], {"is_relative": K(True)}, State(), Frame(k.module, fn))
                    except AlwaysRaises:
                        want = None
                else:
                    arg = want = it.make_fh(STEPS, given == "relative")
                rets, raises, _ = irun(it, k.module, fn, {"self": me, "fh": arg}, cls, k)
                cons = "%s._set_fh[%s horizon,%s]" % (mixin, given, "fitted" if fitted else "not fitted")
                stores = [e for e in it.stores if e["obj"] is me and e["attr"] == "_fh"]
                must_store = (mixin.startswith("_Optional")) or not fitted
                if want is None or not it.is_fh(want):
                    ctx.undecided("R2", cons, "reference check_fh result not interpretable", loc)
                    continue
                if not rets and must_store:
                    no_result(ctx, "R2", cons, raises, "a valid horizon is rejected on every path", loc)
                    continue
                if must_store and not stores:
                    ctx.violation("R2", cons, "the requested horizon is not remembered", loc)
                    continue
                if not stores:
                    # the horizon of fit is kept and predict() answers for it: a horizon given now may only pass if it *is*
                    # the fitted one -- decided from the conditions assumed on each accepting path
                    if not rets:
                        ctx.ok("R2", cons, "a horizon given after fit is refused on every path", loc)
                        continue
                    gv, pv_ = it.undelegate(want), it.undelegate(prev)
                    for s_, _ in rets:
                        conds = [(c, t) for c, t, _ in it.path_of(s_)
                                 if isinstance(c, Opq) and c.tag in ("same-elements", "subset") and len(c.args) == 2]
                        eq = [(c, t) for c, t in conds if c.tag == "same-elements" and t and
                              ((c.args[0] == gv and c.args[1] == pv_) or (c.args[0] == pv_ and c.args[1] == gv))]
                        weaker = [(c, t) for c, t in conds if c.tag == "subset" and t]
                        other = [c for c, t, _ in it.path_of(s_) if value_mentions(c, "fh_fit") and not
                                 (isinstance(c, Opq) and c.tag in ("same-elements", "subset"))]
                        if eq:
                            ctx.ok("R2", cons, "a horizon given after fit passes only if it equals the fitted one (which predict uses)", loc)
                        elif weaker:
                            ctx.violation("R2", cons, "a horizon given after fit passes if its steps are merely *contained* in the fitted "
                                          "horizon (%r); it is then ignored and predict answers for the fitted horizon: more values than "
                                          "requested, labelled with steps that were not requested" % (weaker[0][0],), loc,
                                          witness={"history": "fit(y, fh=[1, 2, 3, 4]); predict(fh=[2])"})
                        elif other:
                            ctx.undecided("R2", cons, "acceptance condition for a horizon given after fit not understood: %r" % (other,), loc)
                        else:
                            ctx.violation("R2", cons, "a horizon given after fit is accepted without being compared with the fitted one and "
                                          "then ignored: predict answers for the fitted horizon, not the requested one", loc,
                                          witness={"history": "fit(y, fh=[1, 2]); predict(fh=[3])"})
                    continue
                for e in stores:
                    v = e["val"]
                    if not it.is_fh(v):
                        ctx.undecided("R2", cons, "remembered horizon not interpretable: %r" % (v,), loc)
                    else:
                        ctx.check(v == want, "R2", cons, "remembers the validated horizon itself",
                                  "remembers %r instead of the validated request %r (a conversion frozen at the current cutoff "
                                  "no longer denotes the requested time points after the cutoff moves)" % (v, want),
                                  ctx.loc(k.module, e["node"]))
    # predict() forecasts the remembered horizon
    naive = users["_OptionalForecastingHorizonMixin"]
    for given in ("relative", "absolute"):
        it = PInterp(repo, no_inline=("check_is_fitted",))
        seen = []

        def hook(it_, frame, call, fname, args, kwargs, st, seen=seen):
            r = PInterp._phook(it_, it_, frame, call, fname, args, kwargs, st)
            if r is not NotImplemented:
                return r
            if astq.call_name(call) == "_predict" and isinstance(call.func, ast.Attribute) \
                    and isinstance(it_.ev(call.func.value, st, frame), SelfV):
                seen.append(args[0] if args else kwargs.get("fh"))
                return Opq("prediction")
            return NotImplemented

        it.extra_hook = hook
        me, _ = make_self(it, naive, True, {"_fh": K(None)})
        req = it.make_fh(STEPS, given == "relative")
        rets, raises, k, fn = run_method(it, repo, me, "predict", {"fh": req})
        cons = "_SktimeForecaster.predict[%s horizon]:forecasts-request" % given
        loc = ctx.loc(k.module, fn)
        if not seen:
            ctx.undecided("R2", cons, "no call of _predict was interpreted", loc)
        else:
            ctx.check(all(v == req for v in seen) if all(it.is_fh(v) for v in seen) else None, "R2", cons,
                      "_predict receives the requested horizon", "_predict receives %r for the request %r" % (seen, req), loc)


def r2_window_horizon(ctx, repo, bw):
    """_predict_fixed_cutoff: the values come from _predict_last_window for the *same* horizon that labels them."""
    for rel in (True, False):
        it = PInterp(repo, no_inline=("_predict_last_window",))
        seen = []

        def hook(it_, frame, call, fname, args, kwargs, st, seen=seen):
            r = PInterp._phook(it_, it_, frame, call, fname, args, kwargs, st)
            if r is not NotImplemented:
                return r
            if astq.call_name(call) == "_predict_last_window" and isinstance(call.func, ast.Attribute) \
                    and isinstance(it_.ev(call.func.value, st, frame), SelfV):
                hit = repo.lookup_method(bw, "_predict_last_window")
                b = astq.bind_call(hit[1], call, skip_self=True) if hit else None
                names = astq.param_names(hit[1], skip_self=True) if hit else []
                pos = dict(zip(names, args))
                pos.update(kwargs)
                seen.append(pos.get("fh") if b is not None else None)
                return Opq("last-window-forecast", [pos.get("fh")])
            return NotImplemented

        it.extra_hook = hook
        me, fh = make_self(it, bw, rel)
        rets, raises, k, fn = run_method(it, repo, me, "_predict_fixed_cutoff", {"fh": fh, "return_pred_int": K(False)})
        cons = "_BaseWindowForecaster._predict_fixed_cutoff[%s]:values-for-same-horizon" % ("relative" if rel else "absolute")
        loc = ctx.loc(k.module, fn)
        if len(seen) != 1:
            ctx.undecided("R2", cons, "expected one call of _predict_last_window, found %d" % len(seen), loc)
        elif it.is_fh(seen[0]):
            ctx.check(seen[0] == fh, "R2", cons, "_predict_last_window forecasts the horizon that labels the result",
                      "_predict_last_window forecasts %r, the result is labelled by %r" % (seen[0], fh), loc)
        elif seen[0] is None or isinstance(seen[0], (K, Arr)) or (isinstance(seen[0], Opq) and seen[0].tag.startswith("param:")):
            ctx.violation("R2", cons, "_predict_last_window receives %r in the horizon position" % (seen[0],), loc)
        else:
            ctx.undecided("R2", cons, "horizon passed to _predict_last_window not interpretable: %r" % (seen[0],), loc)


def r2_member_horizon(ctx, repo):
    """StackingForecaster.fit: the base forecasters are fitted for the stack's *own* validated horizon, not for a
    conversion frozen at the fit-time cutoff (their forecasts are combined under the stack's labels after updates)."""
    stack = repo.cls("sktime/forecasting/compose/_stack.py:StackingForecaster")
    target = repo.lookup_method(stack, "_fit_forecasters")
    for rel in (True, False):
        it = PInterp(repo, no_inline=("_check_forecasters", "_check_final_regressor", "_fit_forecasters", "_predict_forecasters",
                                      "_set_y_X", "_set_fh", "check_equal_time_index"))
        seen = []

        def hook(it_, frame, call, fname, args, kwargs, st, seen=seen):
            r = PInterp._phook(it_, it_, frame, call, fname, args, kwargs, st)
            if r is not NotImplemented:
                return r
            if astq.call_name(call) == "_fit_forecasters" and isinstance(call.func, ast.Attribute) and target is not None \
                    and isinstance(it_.ev(call.func.value, st, frame), SelfV):
                pos = dict(zip(astq.param_names(target[1], skip_self=True), args))
                pos.update(kwargs)
                seen.append((pos.get("fh"), call))
                return K(None)
            return NotImplemented

        it.extra_hook = hook
        me, fh = make_self(it, stack, rel, {"forecasters": Opq("self.forecasters"), "final_regressor": Opq("self.final_regressor")})
        rets, raises, k, fn = run_method(it, repo, me, "fit", {"y": Arr("y", None, "series"), "X": K(None), "fh": fh})
        cons = "StackingForecaster.fit[%s]:member-horizon" % ("relative" if rel else "absolute")
        loc = ctx.loc(k.module, fn)
        if not seen:
            ctx.undecided("R2", cons, "no call of _fit_forecasters was interpreted", loc)
            continue
        for got, call in seen:
            if it.is_fh(got):
                ctx.check(got == fh, "R2", cons, "base forecasters are fitted for the stack's own horizon",
                          "base forecasters are fitted for %r instead of the stack's horizon %r: a conversion made with the fit-time "
                          "cutoff no longer denotes the requested time points after an update" % (got, fh), ctx.loc(k.module, call),
                          witness={"history": "fit(y, fh=absolute); update(y_new); predict()"})
            elif got is None or isinstance(got, K):
                ctx.violation("R2", cons, "base forecasters are fitted without the horizon (%r)" % (got,), ctx.loc(k.module, call))
            else:
                ctx.undecided("R2", cons, "horizon handed to the base forecasters not interpretable: %r" % (got,), ctx.loc(k.module, call))


def r2_update_then_predict(ctx, repo):
    """_update_predict_single: what is forecast after the update is the given horizon itself, or a conversion of it made
    with the cutoff *after* the update (the update moves the cutoff)."""
    skc = repo.cls(SK + ":_SktimeForecaster")
    naive = repo.cls("sktime/forecasting/naive.py:NaiveForecaster")
    seen_defs = {}
    for cls in (naive, repo.cls("sktime/forecasting/trend.py:PolynomialTrendForecaster")):
        hit = repo.lookup_method(cls, "_update_predict_single")
        if hit is not None:
            seen_defs.setdefault(id(hit[1]), (hit[0], hit[1], cls))
    c_new = Lin.sym("cutoff_after_update")
    for _, (k, fn, cls) in sorted(seen_defs.items(), key=lambda kv: kv[1][0].qual):
        for rel in (True, False):
            it = PInterp(repo, no_inline=("check_is_fitted",))
            seen = []
            me_box = []

            def hook(it_, frame, call, fname, args, kwargs, st, seen=seen, me_box=me_box):
                r = PInterp._phook(it_, it_, frame, call, fname, args, kwargs, st)
                if r is not NotImplemented:
                    return r
                nm = astq.call_name(call)
                if isinstance(call.func, ast.Attribute) and isinstance(it_.ev(call.func.value, st, frame), SelfV):
                    if nm == "update":
                        me_box[0].attrs["_cutoff"] = c_new  # the update moves the cutoff
                        seen.append(("update", None))
                        return me_box[0]
                    if nm in ("_predict", "predict", "_predict_fixed_cutoff", "_predict_in_sample") or nm.startswith("_predict_"):
                        seen.append(("predict", args[0] if args else kwargs.get("fh", kwargs.get("steps"))))
                        return Opq("prediction")
                return NotImplemented

            it.extra_hook = hook
            me, fh = make_self(it, cls, rel)
            me_box.append(me)
            rets, raises, _ = irun(it, k.module, fn, {"self": me, "y": Arr("y", None, "series"), "fh": fh, "X": K(None),
                                                      "return_pred_int": K(False)}, cls, k)
            cons = "%s._update_predict_single[%s]:horizon-after-update" % (k.name, "relative" if rel else "absolute")
            loc = ctx.loc(k.module, fn)
            preds = [v for kind, v in seen if kind == "predict"]
            if not preds or not any(kind == "update" for kind, _ in seen):
                ctx.undecided("R2", cons, "update / predict sequence not found: %r" % ([k_ for k_, _ in seen],), loc)
                continue
            ok_vals = [fh, it.make_fh(STEPS if rel else STEPS.shift(-c_new), True),
                       it.make_fh(STEPS.shift(c_new) if rel else STEPS, False)]
            for v in preds[:1]:
                if not it.is_fh(v):
                    ctx.undecided("R2", cons, "horizon handed to predict not interpretable: %r" % (v,), loc)
                else:
                    ctx.check(any(v == w for w in ok_vals), "R2", cons,
                              "after the update the given horizon (or its conversion at the new cutoff) is forecast",
                              "after the update %r is forecast; the request was %r and the cutoff has moved to %r: the conversion was "
                              "made with the cutoff before the update" % (v, fh, c_new), loc,
                              witness={"history": "fit(y); update_predict_single(y_new, fh=absolute)"})


def r2_pred_int(ctx, repo, skc, rel):
    """_get_pred_int: intervals are indexed by the labels of the *out-of-sample part* of the horizon."""
    it = PInterp(repo)
    me, fh = make_self(it, skc, rel)
    rets, raises, k, fn = run_method(it, repo, me, "_get_pred_int", {"lower": Arr("lower", None, "series"),
                                                                     "upper": Arr("upper", None, "series")})
    cons = "_SktimeForecaster._get_pred_int[%s]" % ("relative" if rel else "absolute")
    loc = ctx.loc(k.module, fn)
    ev = [e for e in it.events if e.get("kind") == "attr-store" and e["attr"] == "index" and e["func"] is fn]
    if not ev:
        ctx.undecided("R2", cons, "no index assignment found", loc)
        return
    m_out = Mask("gt", rel_steps(rel))
    want_vals = Sel(STEPS, m_out)
    for e in ev:
        v = e["val"]
        vals = v.attrs.get("_values") if it.is_fh(v) else v
        flag = v.attrs.get("_is_relative") if it.is_fh(v) else K(False)
        if (isinstance(vals, Sel) and isinstance(vals.base, Vec)) or (isinstance(vals, Vec) and vals.base == "fh"):
            # labels of the selected steps: the selection of (steps + cutoff) by the out-of-sample mask
            want = Sel(abs_labels(rel), m_out)
            ctx.check(vals == want and flag == K(False), "R2", cons + ":index-assignment",
                      "intervals indexed by the labels of the out-of-sample steps",
                      "intervals indexed by %r (relative=%r), expected %r" % (vals, flag, want), ctx.loc(k.module, e["node"]))
        else:
            ctx.undecided("R2", cons + ":index-assignment", "index not interpretable: %r" % (v,), ctx.loc(k.module, e["node"]))
    _ = want_vals


# ------------------------------------------------------------------------------ R3
def vec_leaves(v, inside_gather=False, out=None):
    """(kind, vec) for every step vector inside a returned value: kind 'gather' (used as positions into an array)
    or 'steps' (used arithmetically)."""
    out = [] if out is None else out
    if isinstance(v, Gather):
        if isinstance(v.idx, Vec):
            out.append(("gather", v.idx, v.base))
        vec_leaves(v.base, False, out)
    elif isinstance(v, Vec):
        out.append(("steps", v, None))
    elif isinstance(v, (Opq, TV)):
        for a in v.args:
            vec_leaves(a, False, out)
    elif isinstance(v, Tup):
        for a in v.items:
            vec_leaves(a, False, out)
    elif isinstance(v, PV):
        vec_leaves(v.data, False, out)
    return out


def rule_r3(ctx, repo):
    naive = repo.cls("sktime/forecasting/naive.py:NaiveForecaster")
    SP = Lin.sym("sp")
    for strategy in ("last", "mean", "drift"):
        for seasonal in (False, True):
            if strategy == "drift" and seasonal:
                continue
            for rel in (True, False):
                it = PInterp(repo)
                extra = {"strategy": K(strategy), "sp": SP if seasonal else Lin.c(1), "sp_": SP if seasonal else Lin.c(1),
                         "window_length_": W, "window_length": W}
                me, fh = make_self(it, naive, rel, extra)
                facts = Facts()
                facts.add_cmp(SP, ">=", 2, "seasonal scenario")
                facts.add_cmp(W, ">=", 1, "validated window length")
                # the method is reached through _predict_fixed_cutoff with the out-of-sample part of the horizon
                rets, raises, k, fn = run_method(it, repo, me, "_predict_last_window", {"fh": fh}, facts)
                cons = "NaiveForecaster._predict_last_window[%s,%s,%s]" % (strategy, "sp>1" if seasonal else "sp=1",
                                                                           "relative" if rel else "absolute")
                loc = ctx.loc(k.module, fn)
                n = judge_steps(ctx, it, cons, [v for _, v in rets], rel, loc)
                # finite for finite data: an affine divisor must be non-zero on its path (validated domain: w >= 1, sp >= 2)
                seen_div = set()
                for dv in it.divisions:
                    d, f = dv["divisor"], dv["facts"]
                    if repr(d) in seen_div or not d.symbols() <= {"w", "sp"}:
                        continue
                    seen_div.add(repr(d))
                    nonzero = f.entails_cmp(d, ">=", 1) is not None or f.entails_cmp(d, "<=", -1) is not None
                    reach0 = f.entails_cmp(d, ">=", 0) is not None or f.entails_cmp(d, "<=", 0) is not None
                    if nonzero:
                        ctx.ok("R3", cons + ":finite-division", "divisor %r is non-zero on its path" % d, loc)
                    elif reach0:
                        ctx.violation("R3", cons + ":finite-division", "division by %r, which the guards on its path only bound by 0: the "
                                      "boundary configuration divides by zero and numpy returns inf / nan without raising -- non-finite "
                                      "forecasts for finite data" % d, loc, witness={"divisor": repr(d), "boundary": "%r == 0" % d})
                    else:
                        ctx.undecided("R3", cons + ":finite-division", "cannot bound the divisor %r away from zero" % d, loc)
                bad = [v for _, v in rets if carries_padding(v)]
                if strategy == "mean" and seasonal:
                    ctx.check(not bad, "R3", cons + ":padding-ignored",
                              "NaN padding added by the method itself is removed by a NaN-ignoring reduction before steps are selected",
                              "the NaN values the method itself pads the window with (window length not a multiple of sp) reach the "
                              "selected forecasts through a NaN-propagating operation: finite data gives NaN forecasts", loc,
                              witness={"input": "window_length=10, sp=4, finite y"})
                if n == 0:
                    if strategy in ("last", "mean") and not seasonal:
                        ctx.ok("R3", cons, "constant forecast: no step selection on this configuration", loc, nontrivial=False)
                    else:
                        ctx.undecided("R3", cons, "no step selection found in %r" % ([v for _, v in rets],), loc)
    # recursive reduction
    rec = repo.cls("sktime/forecasting/compose/_reduce.py:RecursiveTabularRegressionForecaster")
    for rel in (True, False):
        it = PInterp(repo)
        me, fh = make_self(it, rec, rel, {"window_length_": W, "window_length": W})
        facts = Facts()
        facts.add_cmp(W, ">=", 1, "validated window length")
        rets, raises, k, fn = run_method(it, repo, me, "_predict_last_window", {"fh": fh, "X": K(None)}, facts)
        cons = "_RecursiveReducer._predict_last_window[%s]" % ("relative" if rel else "absolute")
        loc = ctx.loc(k.module, fn)
        vals = [v for _, v in rets]
        n = judge_steps(ctx, it, cons, vals, rel, loc)
        whole = [v for v in vals if isinstance(v, Arr) and v.name.startswith("zeros@")]
        if whole:
            ctx.violation("R3", cons + ":positions", "returns the whole forecast buffer (%r values: every step up to the last one), "
                          "not the requested steps" % (whole[0].length,), loc)
        elif n == 0:
            ctx.undecided("R3", cons, "no step selection found in %r" % (vals,), loc)
        for v in vals:
            for kind, vec, base in vec_leaves(v):
                if kind == "gather":
                    if isinstance(base, Arr) and base.name.startswith("zeros@"):
                        want = rel_steps(rel).elem("last")
                        ctx.check(base.length == want, "R3", cons + ":buffer-length",
                                  "forecast buffer has max(steps) = %r slots" % want,
                                  "forecast buffer has %r slots, the last requested position is %r" % (base.length, want - 1), loc)
                    else:
                        ctx.undecided("R3", cons + ":buffer-length", "forecast buffer not interpretable: %r" % (base,), loc)
    # reduction: relative out-of-sample horizon -> zero-based offsets
    m = repo.module("sktime/forecasting/compose/_reduce.py")
    f = repo.func("sktime/forecasting/compose/_reduce.py", "_check_fh")
    it = PInterp(repo)
    rets, raises, _ = irun(it, m, f, {"fh": it.make_fh(STEPS, True)})
    vals = _distinct([v for _, v in rets])
    if not vals:
        no_result(ctx, "R3", "_reduce._check_fh", raises, "a relative out-of-sample horizon is rejected on every path", ctx.loc(m, f))
    else:
        ctx.check((vals == [STEPS.shift(-1)]) if all(isinstance(v, Vec) for v in vals) else None, "R3",
                  "_reduce._check_fh", "window offsets == steps - 1", "window offsets are %r, expected steps - 1" % (vals,), ctx.loc(m, f))
    # statsmodels: predict(start, end)
    sm = repo.cls("sktime/forecasting/base/adapters/_statsmodels.py:_StatsModelsAdapter")
    for rel in (True, False):
        it = PInterp(repo)
        me, fh = make_self(it, sm, rel, {"_fitted_forecaster": Opq("self._fitted_forecaster")})
        rets, raises, k, fn = run_method(it, repo, me, "_predict", {"fh": fh, "return_pred_int": K(False)})
        cons = "_StatsModelsAdapter._predict[%s]:start-end" % ("relative" if rel else "absolute")
        loc = ctx.loc(k.module, fn)
        ev = [e for e in it.events if e.get("kind") == "predict" and _root_attr(e["val"].recv) == "_fitted_forecaster"]
        if len(ev) != 1:
            ctx.undecided("R3", cons, "expected one call of the fitted statsmodels predict, found %d" % len(ev), loc)
            continue
        args = list(ev[0]["args"]) + [ev[0]["kwargs"].get(n) for n in ("start", "end") if n in ev[0]["kwargs"]]
        a = [as_lin_val(x) for x in args[:2]]
        first, last = rel_steps(rel).elem("first") + C - Y0, rel_steps(rel).elem("last") + C - Y0
        if len(a) < 2 or a[0] is None or a[1] is None:
            ctx.undecided("R3", cons, "start / end not interpretable: %r" % (args,), loc)
        else:
            ctx.check(a[0] == first and a[1] == last, "R3", cons,
                      "asks for positions [first label - y.index[0], last label - y.index[0]]",
                      "asks for [%r, %r], expected [%r, %r]" % (a[0], a[1], first, last), ctx.loc(k.module, ev[0]["node"]))
    # _get_y_pred: rows are numbered step - 1 and selected with to_indexer
    skc = repo.cls(SK + ":_SktimeForecaster")
    for rel in (True, False):
        it = PInterp(repo)
        me, fh = make_self(it, skc, rel)
        yin, yout = Arr("y_in_sample", None, "series"), Arr("y_out_sample", None, "series")
        rets, raises, k, fn = run_method(it, repo, me, "_get_y_pred", {"y_in_sample": yin, "y_out_sample": yout})
        cons = "_SktimeForecaster._get_y_pred[%s]" % ("relative" if rel else "absolute")
        loc = ctx.loc(k.module, fn)
        isin = [e for e in it.events if e.get("kind") == "isin" and e["func"] is fn]
        numb = [e for e in it.events if e.get("kind") == "subscript-store" and e["func"] is fn and e.get("idx") == K("idx")]
        if len(isin) != 1 or len(numb) != 1:
            ctx.undecided("R3", cons, "row numbering / selection idiom not found (%d isin, %d numbering)" % (len(isin), len(numb)), loc)
            continue
        ctx.check(isin[0]["arg"] == rel_steps(rel).shift(-1) if isinstance(isin[0]["arg"], Vec) else None, "R3", cons + ":selection",
                  "rows selected by steps - 1", "rows selected by %r, expected steps - 1" % (isin[0]["arg"],), ctx.loc(k.module, isin[0]["node"]))
        want = Rng(-yin.length, yout.length)
        ctx.check(numb[0]["val"] == want if isinstance(numb[0]["val"], Rng) else None, "R3", cons + ":numbering",
                  "rows numbered -len(in-sample) .. len(out-of-sample)-1 (row k holds step k+1)",
                  "rows numbered %r, expected %r" % (numb[0]["val"], want), ctx.loc(k.module, numb[0]["node"]))


def judge_steps(ctx, it, cons, vals, rel, loc):
    n = 0
    seen = set()
    for v in vals:
        for kind, vec, base in vec_leaves(v):
            if vec.base != "fh":
                continue
            key = (kind, repr(vec))
            if key in seen:
                continue
            seen.add(key)
            n += 1
            if kind == "gather":
                want = rel_steps(rel).shift(-1)
                ctx.check(vec == want, "R3", cons + ":positions", "forecast array indexed with steps - 1 (%r)" % want,
                          "forecast array indexed with %r, expected steps - 1 = %r" % (vec, want), loc,
                          witness={"index": repr(vec), "expected": repr(want)})
            else:
                want = rel_steps(rel)
                ctx.check(vec == want, "R3", cons + ":steps", "extrapolates by the number of steps ahead (%r)" % want,
                          "extrapolates by %r, expected the number of steps ahead %r" % (vec, want), loc)
    return n


# ------------------------------------------------------------------------------ R4
def classify(v, rel):
    """'positions' | 'labels' | None for an index value used in .iloc / .loc."""
    if isinstance(v, Opq) and v.tag == "split-positions":
        return "positions"
    if isinstance(v, Rng):
        return "positions"
    if isinstance(v, Tup):
        ks = {classify(x, rel) for x in v.items}
        return ks.pop() if len(ks) == 1 else None
    if isinstance(v, Obj) and v.attrs.get("_values") is not None:
        inner = v.attrs["_values"]
        if isinstance(inner, Vec) and v.attrs.get("_is_relative") == K(False):
            return classify(inner, rel)
        return None
    if isinstance(v, Vec) and v.base == "fh":
        if v == abs_labels(rel):
            return "labels"
        if v == rel_steps(rel).shift(-1) or v == rel_steps(rel).shift(C - Y0):
            return "positions"
        return None
    lv = as_lin_val(v)
    if lv is not None:
        syms = lv.symbols()
        timey = {s for s in syms if s == "cutoff" or ".index[" in s}
        if timey:
            coef = sum(lv.terms[s] for s in timey)
            return "labels" if coef == 1 else ("positions" if coef == 0 else None)
        return "positions"
    return None


def judge_access(ctx, it, rule, cons, e, rel, loc):
    how = e["kind"]
    want = "positions" if how == "iloc" else "labels"
    parts = [x for x in (e["slice"] if e["slice"] is not None else (e["idx"],)) if x is not None]
    kinds = [classify(x, rel) for x in parts]
    if not parts or any(kd is None for kd in kinds):
        ctx.undecided(rule, cons, ".%s[...] with an index of unknown nature: %r" % (how, parts), loc)
        return
    ctx.check(all(kd == want for kd in kinds), rule, cons, ".%s[...] is given %s" % (how, want),
              ".%s[...] is given %s (%r): correct only for a RangeIndex starting at 0" % (how, " / ".join(kinds), parts), loc)


def rule_r4(ctx, repo):
    naive = repo.cls("sktime/forecasting/naive.py:NaiveForecaster")
    # last window: labels cutoff - w + 1 .. cutoff (inclusive label slice)
    for xtag, X in (("y", K(None)), ("y+X", Arr("X_train", None, "frame"))):
        it = PInterp(repo)
        me, fh = make_self(it, naive, True, {"window_length_": W, "_X": X})
        rets, raises, k, fn = run_method(it, repo, me, "_get_last_window", {})
        loc = ctx.loc(k.module, fn)
        ev = [e for e in own_events(it, ("loc", "iloc")) if e["func"] is fn]
        want_n = 1 if xtag == "y" else 2
        cons = "_BaseWindowForecaster._get_last_window[%s]" % xtag
        if len(ev) != want_n:
            ctx.undecided("R4", cons, "expected %d window selection(s), found %d" % (want_n, len(ev)), loc)
            continue
        for i, e in enumerate(ev):
            c2 = "%s:%s" % (cons, "y" if i == 0 else "X")
            judge_access(ctx, it, "R4", c2 + ":access", e, True, ctx.loc(k.module, e["node"]))
            if e["slice"] is None or e["kind"] != "loc":
                continue
            lo, hi = (as_lin_val(x) if x is not None else None for x in e["slice"])
            if lo is None or hi is None:
                ctx.undecided("R4", c2 + ":bounds", "window bounds not interpretable: %r" % (e["slice"],), loc)
            else:
                ctx.check(lo == C - W + 1 and hi == C, "R4", c2 + ":bounds", "window = labels [cutoff - w + 1, cutoff]",
                          "window = labels [%r, %r], expected [cutoff - w + 1, cutoff]" % (lo, hi), ctx.loc(k.module, e["node"]))
            src = e["target"]
            ctx.check(isinstance(src, Arr) and src.name == ("y_train" if i == 0 else "X_train"), "R4", c2 + ":source",
                      "window taken from the remembered training data", "window taken from %r" % (src,), ctx.loc(k.module, e["node"]))
    # in-sample predictions: one-step-ahead cutoffs as positions  (step s <= 0  ->  position n - 2 + s)
    bw = repo.cls(SK + ":_BaseWindowForecaster")
    for rel in (True, False):
        it = PInterp(repo, no_inline=("_predict_moving_cutoff",))
        me, fh = make_self(it, naive, rel, {"window_length_": W})
        seen = []

        def hook(it_, frame, call, fname, args, kwargs, st, seen=seen):
            r = PInterp._phook(it_, it_, frame, call, fname, args, kwargs, st)
            if r is not NotImplemented:
                return r
            if fname == "CutoffSplitter":
                seen.append((args, kwargs, call))
                return Opq("CutoffSplitter", args)
            return NotImplemented

        it.extra_hook = hook
        rets, raises, k, fn = run_method(it, repo, me, "_predict_in_sample", {"fh": fh})
        cons = "_BaseWindowForecaster._predict_in_sample[%s]" % ("relative" if rel else "absolute")
        loc = ctx.loc(k.module, fn)
        if len(seen) != 1:
            ctx.undecided("R4", cons, "expected one CutoffSplitter construction, found %d" % len(seen), loc)
            continue
        args, kwargs, call = seen[0]
        b = astq.bind_call(repo.cls("CutoffSplitter").methods["__init__"], call, skip_self=True) or {}
        cut = args[0] if args else kwargs.get("cutoffs")
        n = Arr("y_train").length
        want = rel_steps(rel).shift(n - 2)
        ctx.check(cut == want if isinstance(cut, Vec) else None, "R4", cons + ":cutoff-positions",
                  "in-sample step s is forecast one step ahead from position len(y) - 2 + s",
                  "in-sample cutoffs are %r, expected positions %r" % (cut, want), ctx.loc(k.module, call))
        fhv = kwargs.get("fh", args[1] if len(args) > 1 else None)
        ctx.check(as_lin_val(fhv) == Lin.c(1) if as_lin_val(fhv) is not None else None, "R4", cons + ":one-step",
                  "each in-sample value is a one-step-ahead forecast", "in-sample splitter uses fh=%r" % (fhv,), ctx.loc(k.module, call))
        _ = b
    # stacking: hold-out selection by positions of the splitter
    stack = repo.cls("sktime/forecasting/compose/_stack.py:StackingForecaster")
    it = PInterp(repo, no_inline=("_check_forecasters", "_check_final_regressor", "_fit_forecasters", "_predict_forecasters",
                                  "_set_y_X", "_set_fh", "check_equal_time_index"))
    me, fh = make_self(it, stack, True, {"forecasters": Opq("self.forecasters"), "final_regressor": Opq("self.final_regressor")})
    rets, raises, k, fn = run_method(it, repo, me, "fit", {"y": Arr("y", None, "series"), "X": K(None), "fh": fh})
    ev = [e for e in own_events(it, ("loc", "iloc")) if isinstance(e["target"], Arr) and e["target"].name == "y"]
    loc = ctx.loc(k.module, fn)
    if len(ev) < 2:
        ctx.undecided("R4", "StackingForecaster.fit:hold-out", "expected two window selections, found %d" % len(ev), loc)
    for i, e in enumerate(ev):
        judge_access(ctx, it, "R4", "StackingForecaster.fit:hold-out:%d" % i, e, True, ctx.loc(k.module, e["node"]))
    # statsmodels: label selection of the requested time points
    sm = repo.cls("sktime/forecasting/base/adapters/_statsmodels.py:_StatsModelsAdapter")
    for rel in (True, False):
        it = PInterp(repo)
        me, fh = make_self(it, sm, rel, {"_fitted_forecaster": Opq("self._fitted_forecaster")})
        rets, raises, k, fn = run_method(it, repo, me, "_predict", {"fh": fh, "return_pred_int": K(False)})
        ev = [e for e in own_events(it, ("loc", "iloc")) if e["func"] is fn]
        cons = "_StatsModelsAdapter._predict[%s]:selection" % ("relative" if rel else "absolute")
        if not ev:
            ctx.undecided("R4", cons, "no selection of the requested time points found", ctx.loc(k.module, fn))
        for e in ev:
            judge_access(ctx, it, "R4", cons, e, rel, ctx.loc(k.module, e["node"]))
    # statsmodels: the Int64Index -> RangeIndex coercion keeps every time point
    mod = repo.module("sktime/forecasting/base/adapters/_statsmodels.py")
    f = repo.func("sktime/forecasting/base/adapters/_statsmodels.py", "_coerce_int_to_range_index")
    it = PInterp(repo)
    made = []

    def hook(it_, frame, call, fname, args, kwargs, st):
        r = PInterp._phook(it_, it_, frame, call, fname, args, kwargs, st)
        if r is not NotImplemented:
            return r
        ext = it_.ext_name(fname, frame) if fname and fname.split(".")[0] not in st.env else None
        if ext == "pandas.RangeIndex":
            vals = list(args) + [kwargs.get(n) for n in ("start", "stop") if n in kwargs]
            lins = [as_lin_val(x) for x in vals]
            if len(lins) == 2 and None not in lins and "step" not in kwargs:
                return Rng(lins[0], lins[1])
            if len(lins) == 1 and None not in lins and not kwargs:
                return Rng(Lin.c(0), lins[0])
            return Opq("RangeIndex", args)
        if ext == "numpy.testing.assert_array_equal":
            made.append(args)
            return K(None)
        return NotImplemented

    it.extra_hook = hook
    yv = Arr("y", None, "series")
    rets, raises, _ = irun(it, mod, f, {"y": yv, "X": K(None)})
    ev = [e for e in it.events if e.get("kind") == "attr-store" and e["attr"] == "index" and isinstance(e["base"], Arr) and e["base"].name == "y"]
    cons = "_coerce_int_to_range_index"
    loc = ctx.loc(mod, f)
    if len(ev) != 1:
        ctx.undecided("R4", cons + ":labels", "expected one re-indexing of y, found %d" % len(ev), loc)
    else:
        v = ev[0]["val"]
        want = Rng(Lin.sym("y.index[0]"), Lin.sym("y.index[-1]") + 1)
        ctx.check(v == want if isinstance(v, Rng) else None, "R4", cons + ":labels",
                  "new index runs from the first to the last original label",
                  "new index is %r, expected %r (the training labels must survive the coercion)" % (v, want), ctx.loc(mod, ev[0]["node"]))
        same = [a for a in made if len(a) >= 2 and {repr(a[0]), repr(a[1])} == {repr(Arr("y.index", yv.length, "index")), repr(v)}]
        ctx.check(bool(same), "R4", cons + ":checked", "old and new index are compared element-wise before the replacement",
                  "the new index is not compared with the original one (gapped integer indices would be relabelled silently)", loc)
    # trend: regressors are positions counted from the first training label
    poly = repo.cls("sktime/forecasting/trend.py:PolynomialTrendForecaster")
    for rel in (True, False):
        it = PInterp(repo)
        me, fh = make_self(it, poly, rel, {"regressor_": Opq("self.regressor_")})
        rets, raises, k, fn = run_method(it, repo, me, "_predict", {"fh": fh, "return_pred_int": K(False), "X": K(None)})
        cons = "PolynomialTrendForecaster._predict[%s]:time-axis" % ("relative" if rel else "absolute")
        ev = [e for e in it.events if e.get("kind") == "predict" and _root_attr(e["val"].recv) == "regressor_"]
        if len(ev) != 1:
            ctx.undecided("R4", cons, "expected one call of the fitted regressor, found %d" % len(ev), ctx.loc(k.module, fn))
            continue
        vecs = [vec for kind, vec, _ in vec_leaves(Tup(list(ev[0]["args"]))) if vec.base == "fh"]
        want = rel_steps(rel).shift(C - Y0)
        if len(vecs) != 1:
            ctx.undecided("R4", cons, "regressor input not interpretable: %r" % (ev[0]["args"],), ctx.loc(k.module, fn))
        else:
            ctx.check(vecs[0] == want, "R4", cons, "regressors = requested labels - first training label (%r)" % want,
                      "regressors = %r, expected %r (time axis counted from the first training label)" % (vecs[0], want),
                      ctx.loc(k.module, ev[0]["node"]))


class _InfoCtx:
    """Widened (thorough-tier) scope: constructs outside the anchored files.  Verdicts count as usual, but an idiom
    the interpreter does not understand there is reported as information, not as an analysis error."""

    def __init__(self, ctx):
        self._ctx = ctx

    def __getattr__(self, name):
        return getattr(self._ctx, name)

    def undecided(self, rule, construct, why, loc=None):
        self._ctx.info("thorough scope, not decided: %s %s: %s" % (rule, construct, why))

    def check(self, cond, rule, construct, ok_detail, bad_detail, loc=None, witness=None):
        if cond is None:
            self.undecided(rule, construct, bad_detail, loc)
            return None
        return self._ctx.check(cond, rule, construct, ok_detail, bad_detail, loc, witness)


def thorough_scope(ctx, repo):
    ictx = _InfoCtx(ctx)
    try:
        pm = repo.cls("sktime/forecasting/base/adapters/_pmdarima.py:_PmdArimaAdapter")
    except AnalysisError:
        pm = None
    if pm is not None:
        for name in ("_predict_fixed_cutoff", "_predict_in_sample"):
            if repo.lookup_method(pm, name) is None:
                continue
            try:
                judge_site(ictx, repo, pm, name, lambda fh: {"fh": fh, "return_pred_int": K(False), "X": K(None), "alpha": K(0.05)},
                           extra={"_forecaster": Opq("self._forecaster")})
            except AnalysisError as e:
                ctx.info("thorough scope, not decided: %s.%s: %s" % (pm.name, name, e))


def run(ctx):
    repo = ctx.repo
    ctx.explain("C03: abstract interpretation of the forecaster base classes and the anchored forecasters with the horizon "
                "semantics taken from _fh.py: who writes the cutoff and with what value; which index every constructed, "
                "re-indexed or label-selected prediction carries (cutoff + steps / requested labels, relative and absolute "
                "scenario); which positions select steps from forecast buffers; label-vs-position discipline of .loc/.iloc.")
    ctx.assume("pandas: Series(data, index=I) / x.index = I / x.loc[I] yield exactly the labels I; arithmetic of a Series with "
               "arrays, row-wise aggregation (axis=1) and concat(axis=1) of equally indexed Series keep the index")
    ctx.assume("statsmodels: results.predict(start, end) with integers returns the positions start..end counted from the first "
               "training observation, labelled by the extended training index")
    ctx.assume("transformers' inverse_transform keeps the time index (C13); member forecasters satisfy C03 themselves")
    ctx.assume("ForecastingHorizon semantics as verified by C02 (interpreted from source here as well)")
    rule_r1(ctx, repo)
    rule_r2(ctx, repo)
    rule_r3(ctx, repo)
    rule_r4(ctx, repo)
    if ctx.tier == "thorough":
        thorough_scope(ctx, repo)
    ctx.floor("R1", 55)
    ctx.floor("R2", 82)
    ctx.floor("R3", 21)
    ctx.floor("R4", 22)
