"""Array-term domain and event-recording abstract interpreter for C14.

``XInterp`` extends the shared affine interpreter (``sa/absint.py``) with

* n-d array *terms*: input panels (``Src``), cells of nested panels (``Cell``), buffers created by
  ``np.zeros/np.full/np.empty`` together with the slice/row stores made into them (``Buf``),
  normalised subscripts (``Sub`` -- ``X[i][j]`` and ``X[i, j]`` are the same term), ``np.pad``
  (``Pad``), ``as_strided`` (``Strided``), ``np.linspace`` (``Lsp``), ``np.array_split`` pieces and
  rows of ``(start, end)`` tables, element-wise random vectors (``EVec``);
* Python containers and callables: list comprehensions (``ListV``), lists filled by ``append``
  (``AccList``), ``zip`` / ``enumerate`` / ``map``, dict displays passed as ``**kwargs``, local functions and
  lambdas with their closures (``LocalFn`` / ``LamV``), bound methods (``BoundM``), aliases of module-level
  functions, re-ordered views (``reversed`` / ``sorted`` / ``[::-1]``);
* integer helpers: floor / ceil / ``//`` as derived symbols with their defining inequalities, two-argument
  ``max`` / ``min``; facts that *define* a symbol (loop ranges, floors, random draws, cell lengths) are kept
  globally (``gfacts``) so that they survive the end of a loop;
* recorded calls with keyword arguments (``CallV``) for every callee that is not modelled;
* an event log (subscript loads / stores / appends / attribute loads and stores / raises / loops, each with the loop
  stack it happens in) that the row-correspondence rule consumes; ``except`` handlers are interpreted for their
  events; loop-carried locals are made opaque at loop entry (``carried_names``: definite-assignment analysis on
  the CFG of the loop body).

Everything is evaluated symbolically once; no repository code runs.
"""
import ast
from fractions import Fraction

from ..absint import (Interp, Frame, State, SelfV, Rng, Vec, FHV, Tup, K, Opq, Alt, LoopCtx,
                      as_lin_val)
from ..cfg import CFG
from ..index import dotted
from ..lin import Lin, Facts

ZERO, ONE = Lin.c(0), Lin.c(1)


# ------------------------------------------------------------------------------ values
class V:
    """Structural value."""
    _f = ()

    def _key(self):
        return (type(self).__name__,) + tuple(_hk(getattr(self, f)) for f in self._f)

    def __eq__(self, o):
        return type(o) is type(self) and self._key() == o._key()

    def __hash__(self):
        return hash(self._key())

    def __repr__(self):
        return "%s(%s)" % (type(self).__name__, ", ".join(repr(getattr(self, f)) for f in self._f))


def _hk(x):
    if isinstance(x, list):
        return tuple(_hk(i) for i in x)
    if isinstance(x, dict):
        return tuple(sorted((k, _hk(v)) for k, v in x.items()))
    if isinstance(x, tuple):
        return tuple(_hk(i) for i in x)
    return x


class Src(V):
    """Input data.  kind: raw | nested (DataFrame, cells are series) | np3 | np2 | either | series | frame."""
    _f = ("name", "kind", "shape")

    def __init__(self, name, kind, shape=None):
        self.name, self.kind = name, kind
        if shape is None:
            n, c, m = (Lin.sym("%s(%s)" % (d, name)) for d in "ncm")
            shape = {"nested": [n, c], "raw": [n, c], "either": [n, c], "np3": [n, c, m], "np2": [n, m],
                     "series": [m], "frame": [m, c]}[kind]
        self.shape = list(shape)

    def __repr__(self):
        return "%s<%s>" % (self.name, self.kind)


class Cell(V):
    """Series in cell (row, col) of a nested panel."""
    _f = ("src", "row", "col")

    def __init__(self, src, row, col):
        self.src, self.row, self.col = src, row, col

    @property
    def length(self):
        return Lin.sym("len(%s[%r,%r])" % (self.src.name, self.row, self.col))

    def __repr__(self):
        return "%s[%r,%r]" % (self.src.name, self.row, self.col)


class Loc(V):
    """``x.iloc`` / ``x.loc`` accessor."""
    _f = ("base", "how")

    def __init__(self, base, how):
        self.base, self.how = base, how


class Sub(V):
    """``base[spec]``; spec items: ('i', Lin) | ('a',) | ('s', lo, hi) | ('v', value) | ('x', value)."""
    _f = ("base", "spec", "how")

    def __init__(self, base, spec, how="item"):
        self.base, self.spec, self.how = base, tuple(spec), how

    def __repr__(self):
        def it(s):
            if s[0] == "i":
                return repr(s[1])
            if s[0] == "a":
                return ":"
            if s[0] == "s":
                return "%s:%s" % ("" if s[1] is None else repr(s[1]), "" if s[2] is None else repr(s[2]))
            return "<%r>" % (s[1],)
        return "%r%s[%s]" % (self.base, "" if self.how == "item" else "." + self.how, ", ".join(it(s) for s in self.spec))


class Buf:
    """Fresh array (np.zeros / np.full / np.empty) and the stores made into it.  Identity-based."""

    def __init__(self, shape, fill, node=None, loops=()):
        self.shape, self.fill, self.node = list(shape), fill, node
        self.created_loops = list(loops)
        self.dtype = None  # value of the dtype argument (None = not given)
        self.stores = []  # StoreRec

    def __repr__(self):
        return "Buf%r" % (self.shape,)


class StoreRec:
    def __init__(self, spec, value, loops, atoms, node, how="item"):
        self.spec, self.value, self.loops, self.atoms, self.node, self.how = tuple(spec), value, list(loops), dict(atoms), node, how

    def __repr__(self):
        return "store[%r] = %r" % (self.spec, self.value)


class AccList:
    """A list built by ``[]`` + ``append``.  Identity-based."""

    def __init__(self, node=None, loops=(), func=None):
        self.node = node
        self.func = func
        self.created_loops = list(loops)
        self.appends = []  # (value, loops, atoms, node)
        self.other = []  # (method name, node) -- mutations that are not plain appends
        self.persist = None  # why the list may outlive one call (mutable default argument, getattr(self, ..., []))

    def __repr__(self):
        return "AccList(%d appends)" % len(self.appends)


class ListV(V):
    """``[elem for var in it]`` -- element k is ``elem`` with ``var`` bound to ``it[k]``."""
    _f = ("elem", "var", "it")

    def __init__(self, elem, var, it, node=None, filtered=False):
        self.elem, self.var, self.it, self.node, self.filtered = elem, var, it, node, filtered


class Pad(V):
    """np.pad along the (last) axis; ``rows`` = the base is 2-d and only its last axis is padded (every row separately)."""
    _f = ("base", "left", "right", "mode", "rows")

    def __init__(self, base, left, right, mode, rows=False):
        self.base, self.left, self.right, self.mode, self.rows = base, left, right, mode, rows


class Strided(V):
    """as_strided(base, shape, strides); ``unit`` = every stride is the item size of ``base``."""
    _f = ("base", "shape", "unit")

    def __init__(self, base, shape, unit, steps=None):
        self.base, self.shape, self.unit = base, list(shape), unit
        self.steps = steps  # per axis: the stride in items of ``base`` (affine form) or None when not understood


class Lsp(V):
    _f = ("start", "stop", "num", "endpoint")

    def __init__(self, start, stop, num, endpoint=K(True)):
        self.start, self.stop, self.num, self.endpoint = start, stop, num, endpoint


class Pieces(V):
    """np.array_split(base, k)."""
    _f = ("base", "k")

    def __init__(self, base, k):
        self.base, self.k = base, k


class Piece(V):
    """A generic piece of ``Pieces`` (an index array of consecutive members)."""
    _f = ("pieces", "var")

    def __init__(self, pieces, var):
        self.pieces, self.var = pieces, var

    def first(self):
        return Lin.sym("first(piece %r)" % (self.var,))

    def last(self):
        return Lin.sym("last(piece %r)" % (self.var,))


class Rows(V):
    """A table with one ``(start, end)`` row per interval whose content is not known (a parameter /
    fitted attribute)."""
    _f = ("name",)

    def __init__(self, name):
        self.name = name


class Row(V):
    _f = ("rows", "var")

    def __init__(self, rows, var):
        self.rows, self.var = rows, var

    def start(self):
        return Lin.sym("start(%s %r)" % (self.rows.name, self.var))

    def end(self):
        return Lin.sym("end(%s %r)" % (self.rows.name, self.var))


class Cols(V):
    """np.column_stack([a, b, ...]) of aligned element-wise vectors: row k = (a[k], b[k], ...)."""
    _f = ("items",)

    def __init__(self, items):
        self.items = list(items)


class EVec(V):
    """Vector given by its generic element (an affine form over element symbols)."""
    _f = ("elem",)

    def __init__(self, elem):
        self.elem = elem


class CallV(V):
    """A call that is not modelled: callee (external dotted name or method name), receiver, arguments."""
    _f = ("name", "recv", "args", "kwargs")

    def __init__(self, name, recv, args, kwargs, node=None, loops=()):
        self.name, self.recv, self.args, self.kwargs = name, recv, list(args), dict(kwargs)
        self.node, self.loops = node, list(loops)

    def arg(self, pos, kw, default=None):
        if kw in self.kwargs:
            return self.kwargs[kw]
        if pos is not None and pos < len(self.args):
            return self.args[pos]
        return default

    def __repr__(self):
        a = [repr(x) for x in self.args] + ["%s=%r" % kv for kv in sorted(self.kwargs.items())]
        r = ("%r." % (self.recv,)) if self.recv is not None else ""
        return "%s%s(%s)" % (r, self.name, ", ".join(a))


class DictV(V):
    """dict display / dict(...) with constant string keys."""
    _f = ("items",)

    def __init__(self, items):
        self.items = dict(items)


class LocalFn:
    """A function defined inside the function being interpreted (closure over the defining environment)."""

    def __init__(self, node, env, module, cls, defcls, owner=None):
        self.node, self.env, self.module, self.cls, self.defcls, self.owner = node, dict(env), module, cls, defcls, owner

    def __repr__(self):
        return "<local function %s>" % self.node.name


class LamV:
    """A lambda expression with the environment it closes over."""

    def __init__(self, node, env, module, cls, defcls, meths, owner=None):
        self.node, self.env, self.module, self.cls, self.defcls, self.owner = node, dict(env), module, cls, defcls, owner
        self.tag = "lambda:" + ",".join(meths)

    def __repr__(self):
        return "<%s>" % self.tag


class BoundM(V):
    """``obj.method`` of an interpreted instance (a bound method value)."""
    _f = ("name",)

    def __init__(self, selfv, name):
        self.selfv, self.name = selfv, name

    def __repr__(self):
        return "self.%s" % self.name


class ZipV(V):
    """zip(a, b, ...) / enumerate(a) of equally long sequences."""
    _f = ("items",)

    def __init__(self, items):
        self.items = list(items)


class KS(K):
    """A constant that is the scenario value of an option (``origin`` = 'self.<option>')."""

    def __init__(self, v, origin):
        K.__init__(self, v)
        self.origin = origin

    def __repr__(self):
        return "K(%r from %s)" % (self.v, self.origin)


class Inst(SelfV):
    """Instance of a repo class constructed inside interpreted code."""


NDS = (Src, Cell, Sub, Buf, Pad, Strided)
NOT_NONE = (Src, Cell, Sub, Buf, Pad, Strided, AccList, ListV, Lsp, Pieces, Piece, Rows, Row, Cols, EVec, CallV, Loc, DictV, LocalFn, ZipV, LamV, BoundM)


class Event:
    def __init__(self, kind, node, base, spec, value, loops, func, how="item"):
        self.kind, self.node, self.base, self.spec, self.value = kind, node, base, spec, value
        self.loops, self.func, self.how = list(loops), func, how

    def __repr__(self):
        return "<%s %r[%r] L%s>" % (self.kind, self.base, self.spec, getattr(self.node, "lineno", "?"))


# ------------------------------------------------------------------------- substitution
def subst(v, m):
    """Replace symbols in (nested) values; mutable objects (Buf, AccList) are shared."""
    if isinstance(v, Lin):
        return v.subst(m)
    if isinstance(v, Rng):
        return Rng(v.lo.subst(m), v.hi.subst(m), v.step.subst(m))
    if isinstance(v, Tup):
        return Tup([subst(x, m) for x in v.items])
    if isinstance(v, Sub):
        return Sub(subst(v.base, m), [_subst_item(s, m) for s in v.spec], v.how)
    if isinstance(v, Cell):
        return Cell(v.src, subst(v.row, m), subst(v.col, m))
    if isinstance(v, Pad):
        return Pad(subst(v.base, m), subst(v.left, m), subst(v.right, m), v.mode, v.rows)
    if isinstance(v, Strided):
        return Strided(subst(v.base, m), [subst(x, m) for x in v.shape], v.unit)
    if isinstance(v, CallV):
        return CallV(v.name, subst(v.recv, m), [subst(x, m) for x in v.args], {k: subst(x, m) for k, x in v.kwargs.items()},
                     v.node, v.loops)
    if isinstance(v, ListV):
        return ListV(subst(v.elem, m), v.var, subst(v.it, m), v.node, v.filtered)
    if isinstance(v, ZipV):
        return ZipV([subst(x, m) for x in v.items])
    if isinstance(v, Opq):
        return Opq(v.tag, [subst(x, m) for x in v.args])
    if isinstance(v, Piece):
        return Piece(v.pieces, subst(v.var, m))
    if isinstance(v, Row):
        return Row(v.rows, subst(v.var, m))
    if isinstance(v, Loc):
        return Loc(subst(v.base, m), v.how)
    return v


def _subst_item(s, m):
    if s[0] == "i":
        return ("i", subst(s[1], m))
    if s[0] == "s":
        return ("s", None if s[1] is None else subst(s[1], m), None if s[2] is None else subst(s[2], m))
    if s[0] in ("v", "x"):
        return (s[0], subst(s[1], m))
    return s


def children(v):
    if isinstance(v, Tup):
        return list(v.items)
    if isinstance(v, Sub):
        return [v.base] + [s[1] for s in v.spec if s[0] in ("v", "x")]
    if isinstance(v, (Pad, Strided, Loc)):
        return [v.base]
    if isinstance(v, CallV):
        return [v.recv] + list(v.args) + list(v.kwargs.values())
    if isinstance(v, ListV):
        return [v.elem, v.it]
    if isinstance(v, Opq):
        return list(v.args)
    if isinstance(v, AccList):
        return [a[0] for a in v.appends]
    if isinstance(v, Buf):
        return [s.value for s in v.stores]
    if isinstance(v, Alt):
        return [x for x, _ in v.alts]
    if isinstance(v, (Cols, ZipV)):
        return list(v.items)
    if isinstance(v, DictV):
        return list(v.items.values())
    return []


def walk(v, _seen=None):
    _seen = _seen if _seen is not None else set()
    if id(v) in _seen:
        return
    _seen.add(id(v))
    yield v
    for c in children(v):
        if c is not None:
            yield from walk(c, _seen)


# ------------------------------------------------------------------------------ shapes
def shape_of(v):
    """List of Lin (None for unknown extents) or None."""
    if isinstance(v, (Src, Buf, Strided)):
        return list(v.shape)
    if isinstance(v, Cell):
        return [v.length]
    if isinstance(v, Rng):
        return [v.length()]
    if isinstance(v, Pad):
        b = shape_of(v.base)
        if b and len(b) == 1 and b[0] is not None and not v.rows:
            return [b[0] + v.left + v.right]
        if b and len(b) == 2 and b[1] is not None and v.rows:
            return [b[0], b[1] + v.left + v.right]
        return None
    if isinstance(v, Sub):
        b = shape_of(v.base)
        if b is None:
            return None
        out = []
        spec = list(v.spec) + [("a",)] * (len(b) - len(v.spec))
        if len(spec) != len(b):
            return None
        for s, d in zip(spec, b):
            if s[0] == "i":
                continue
            if s[0] == "a":
                out.append(d)
            elif s[0] == "s":
                lo = s[1] if s[1] is not None else ZERO
                hi = s[2] if s[2] is not None else d
                out.append(None if hi is None else hi - lo)
            elif s[0] == "v":
                sh = shape_of(s[1])
                out.append(sh[0] if sh else None)
            else:
                out.append(None)
        return out
    return None


def compose(base, spec, how):
    """Normalised subscript term: subscripts of subscripts are folded onto the root."""
    if isinstance(base, Sub) and (base.how == how or how == "item"):
        old = list(base.spec)
        nb = shape_of(base.base)
        if nb is not None:
            old = old + [("a",)] * (len(nb) - len(old))
        new = list(spec)
        out = []
        ok = True
        for s in old:
            if s[0] == "i":
                out.append(s)
                continue
            if not new:
                out.append(s)
                continue
            t = new.pop(0)
            if s[0] == "a":
                out.append(t)
            elif s[0] == "s":
                lo = s[1] if s[1] is not None else ZERO
                if t[0] == "i":
                    out.append(("i", lo + t[1]))
                elif t[0] == "a":
                    out.append(s)
                elif t[0] == "s":
                    out.append(("s", lo + (t[1] if t[1] is not None else ZERO), (lo + t[2]) if t[2] is not None else s[2]))
                else:
                    ok = False
            else:
                ok = False
        if ok and not new:
            while out and out[-1] == ("a",):
                out.pop()
            return _mk(base.base, out, base.how)
    spec = list(spec)
    while spec and spec[-1] == ("a",):
        spec.pop()
    return _mk(base, spec, how)


def _mk(base, spec, how):
    if not spec:
        return base
    if isinstance(base, ListV) and len(spec) == 1 and spec[0][0] == "i" and base.var is not None:
        return subst(base.elem, {_one_sym(base.var): spec[0][1]})
    if isinstance(base, Src) and base.kind in ("nested", "raw", "either") and len(spec) == 2 and all(s[0] == "i" for s in spec) \
            and how == "iloc":
        return Cell(base, spec[0][1], spec[1][1])
    return Sub(base, spec, how)


# ------------------------------------------------------------------------- interpreter
class XLoop(LoopCtx):
    """One interpretation of a loop.  Two interpretations of the *same* loop statement (reached on two paths that
    split before the loop) compare equal: they are alternative executions of one loop, each with its own variable."""

    def __init__(self, var, it, node, atoms=None, kind="for"):
        LoopCtx.__init__(self, var, it, node)
        self.atoms = dict(atoms or {})
        self.kind = kind
        self.over = None  # index loop ``for k in range(len(T))``: the sequence T
        self.counters = ()  # locals that count the iterations (i = c0 + position)
        self.bound_names = ()  # names bound by the loop header

    def __eq__(self, o):
        return isinstance(o, LoopCtx) and o.node is self.node

    def __hash__(self):
        return hash(id(self.node))


class XInterp(Interp):
    """See module docstring.  ``pytypes``: id(value) / attribute name -> python type names used to fold
    ``isinstance`` tests; ``extra_hooks``: property-specific transfer functions tried first."""

    NP_SIG = {
        "numpy.full": ["shape", "fill_value", "dtype", "order"],
        "numpy.zeros": ["shape", "dtype", "order"],
        "numpy.ones": ["shape", "dtype", "order"],
        "numpy.empty": ["shape", "dtype", "order"],
        "numpy.pad": ["array", "pad_width", "mode"],
        "numpy.lib.stride_tricks.as_strided": ["x", "shape", "strides", "subok", "writeable"],
        "numpy.linspace": ["start", "stop", "num", "endpoint", "retstep", "dtype", "axis"],
        "numpy.array_split": ["ary", "indices_or_sections", "axis"],
    }

    def __init__(self, repo, extra_hooks=None, types=None, **kw):
        kw.setdefault("no_inline", ())
        Interp.__init__(self, repo, hooks=self._hooks, **kw)
        self.extra_hooks = extra_hooks
        self.events = []
        self.floordefs = {}  # symbol -> (numerator Lin, denominator int)
        self.types = dict(types or {})  # ("self", attr) -> set of type names
        self.calls = []  # CallV in evaluation order
        self._recv = {}  # id(receiver expression) -> value, while the enclosing call is being evaluated
        self.derived = {}  # derived symbol -> symbols it is computed from
        self.celllens = {}  # length symbol -> Cell
        self.lenof = {}  # length symbol -> the sequence value it measures
        self._in_handler = 0
        self.gfacts = Facts()  # facts that define symbols (ranges of loop variables, floors, random draws, cell lengths)
        self.maxlen_syms = {}

    # ---------------------------------------------------------------- helpers
    def bind_ext(self, ext, args, kwargs):
        names = self.NP_SIG[ext]
        out = dict(kwargs)
        for n, a in zip(names, args):
            out.setdefault(n, a)
        return out

    def floor_sym(self, lin, st):
        """floor of an affine form with rational coefficients (integers assumed for the symbols)."""
        den = 1
        for c in list(lin.terms.values()) + [lin.const]:
            d = Fraction(c).denominator
            den = den * d // _gcd(den, d)
        if den == 1:
            return lin
        num = lin.scale(den)
        return self.floor_div(num, den, st)

    def depends(self, lin, symname):
        """Does the affine form mention ``symname`` directly or through a derived symbol (floor, max, min)?"""
        todo, seen = list(lin.symbols()), set()
        while todo:
            x = todo.pop()
            if x == symname:
                return True
            if x in seen:
                continue
            seen.add(x)
            todo.extend(self.derived.get(x, ()))
        return False

    def floor_div(self, num, den, st):
        if num.is_const():
            return Lin.c(num.const // den)
        s = Lin.sym("floor((%r)/(%r))" % (num, Lin.c(den)))
        self.floordefs[list(s.symbols())[0]] = (num, den)
        self.derived[list(s.symbols())[0]] = set(num.symbols())
        self.gfact(st, s.scale(den), "<=", num, "floor: %d*floor(x/%d) <= x" % (den, den))
        self.gfact(st, num, "<=", s.scale(den) + (den - 1), "floor: x <= %d*floor(x/%d) + %d" % (den, den, den - 1))
        return s

    def gfact(self, st, a, op, b, origin):
        """A fact that *defines* a fresh symbol: valid in every state."""
        st.facts.add_cmp(a, op, b, origin)
        self.gfacts.add_cmp(a, op, b, origin)

    def all_facts(self, facts, query=None):
        """``facts`` plus the symbol-defining facts, restricted to those related to ``query``."""
        f = facts.copy()
        for x, o in self.gfacts.items:
            f.add_le0(x, o)
        return relevant(f, query) if query is not None else f

    floor_facts = all_facts

    def record(self, kind, node, base, spec, value, st, frame, how="item"):
        ev = Event(kind, node, base, spec, value, st.loops, frame.func, how)
        ev.handler = self._in_handler > 0  # recorded while interpreting an ``except`` handler
        self.events.append(ev)

    # ------------------------------------------------------------- statements
    def stmt(self, node, st, frame):
        if isinstance(node, ast.Raise):
            self.record("raise", node, None, None, None, st, frame)
        if isinstance(node, ast.FunctionDef):
            st.env[node.name] = LocalFn(node, st.env, frame.module, frame.cls, frame.defcls, frame.func)
            return [(st, ("fall",))]
        if isinstance(node, ast.While):
            r = self._while(node, st, frame)
            if r is not None:
                return r
        if isinstance(node, ast.Try) and node.handlers:
            # the handlers are interpreted too (from the state before the try) so that what they do is seen by the
            # rules; their traces are not continued (the normal path carries the analysis)
            before = st.copy()
            out = Interp.stmt(self, node, st, frame)
            for h in node.handlers:
                hs = before.copy()
                if h.name:
                    hs.env[h.name] = Opq("exception")
                self._in_handler += 1
                try:
                    self.block(h.body, hs, frame)
                except Exception:
                    pass
                finally:
                    self._in_handler -= 1
            return out
        return Interp.stmt(self, node, st, frame)

    def run_function(self, frame, args, st=None):
        closure = getattr(frame, "closure", None)
        if closure is None:
            return Interp.run_function(self, frame, args, st)
        # a local function: free variables resolve in the defining environment
        a = dict(args)
        fn = frame.func
        names = {p.arg for p in fn.args.posonlyargs + fn.args.args + fn.args.kwonlyargs}
        assigned = {n.id for n in ast.walk(fn) if isinstance(n, ast.Name) and isinstance(n.ctx, ast.Store)}
        st = st or State()
        st2 = State({}, st.facts, st.loops, st.atoms, st.heap)
        st2.yields = []
        params = [p.arg for p in fn.args.posonlyargs + fn.args.args]
        defaults = [None] * (len(params) - len(fn.args.defaults)) + list(fn.args.defaults)
        for k, v in closure.items():
            if k not in names and k not in assigned:
                st2.env[k] = v
        for p_, d in zip(params, defaults):
            if p_ in a:
                st2.env[p_] = a[p_]
            elif d is not None:
                st2.env[p_] = self.ev(d, st2, frame)
            else:
                st2.env[p_] = Opq("param:" + p_)
        return self.block(fn.body, st2, frame), st2

    def call_value(self, fval, args, kwargs, e, st, frame):
        """Call of a function *value* (local function, alias of a module-level function)."""
        if isinstance(fval, LocalFn) and frame.depth < self.inline_depth:
            sub_frame = Frame(fval.module, fval.node, fval.cls, fval.defcls, frame.depth + 1)
            sub_frame.closure = dict(fval.env)
            if frame.func is fval.owner:
                sub_frame.closure.update(st.env)
            fn = fval.node
            params = [p.arg for p in fn.args.posonlyargs + fn.args.args]
            bound = dict(zip(params, args))
            bound.update(kwargs)
            traces, fst = self.run_function(sub_frame, bound, st)
            normal = [(s, o[1] if o[0] == "return" else K(None)) for s, o in traces if o[0] in ("return", "fall")]
            vals = []
            for s, v in normal:
                if not any(_veq(v, w) for w in vals):
                    vals.append(v)
            if len(vals) == 1:
                return vals[0]
            return Opq("local-call", vals)
        if isinstance(fval, LamV) and frame.depth < self.inline_depth:
            a = fval.node.args
            params = [p.arg for p in a.posonlyargs + a.args]
            if len(args) > len(params) or a.vararg or a.kwarg:
                return NotImplemented
            s2 = st.copy()
            s2.env = dict(fval.env)
            if frame.func is fval.owner:
                s2.env.update(st.env)
            defaults = [None] * (len(params) - len(a.defaults)) + list(a.defaults)
            for p_, d in zip(params, defaults):
                if d is not None:
                    s2.env[p_] = self.ev(d, s2, frame)
            for p_, v in zip(params, args):
                s2.env[p_] = v
            for k_, v in kwargs.items():
                s2.env[k_] = v
            sub_frame = Frame(fval.module, frame.func, fval.cls, fval.defcls, frame.depth + 1)
            return self.ev(fval.node.body, s2, sub_frame)
        if isinstance(fval, BoundM) and fval.selfv.cls is not None:
            hit = self.repo.lookup_method(fval.selfv.cls, fval.name)
            if hit is not None and frame.depth < self.inline_depth and fval.name not in self.no_inline:
                k, fn = hit
                return self.inline_fn(k.module, fn, fval.selfv, k, k.is_static(fval.name), args, kwargs, st, frame)
            cv = CallV(fval.name, fval.selfv, args, kwargs, e, st.loops)
            self.calls.append(cv)
            return cv
        if isinstance(fval, Opq) and (fval.tag.startswith("name:") or fval.tag.startswith("global:")) and not fval.args:
            nm = fval.tag.split(":", 1)[1]
            fname = nm if fval.tag.startswith("name:") else "=" + nm
            dummy = ast.Call(func=ast.Name(id=nm.split(".")[-1], ctx=ast.Load()), args=[], keywords=[])
            for step in (lambda: self._hooks(self, frame, dummy, fname, list(args), dict(kwargs), st),
                         lambda: self.builtin_call(dummy, fname, list(args), dict(kwargs), st, frame),
                         lambda: self.inline_call(dummy, fname, list(args), dict(kwargs), st, frame)):
                r = step()
                if r is not NotImplemented:
                    return r
            return NotImplemented
        if isinstance(fval, Opq) and fval.tag.startswith("attr:") and len(fval.args) == 1:
            cv = CallV(fval.tag[5:], fval.args[0], args, kwargs, e, st.loops)
            self.calls.append(cv)
            return cv
        return NotImplemented

    def _loop_elem(self, it, target, st, frame, node, kind):
        """(var, elem, loopctx or None); adds range facts to ``st``."""
        inner_seq = reordered(it)
        if inner_seq is not None:
            # a re-ordered view of a sequence: elements are those of the sequence, the loop remembers the re-ordering
            var, elem, lc = self._loop_elem(inner_seq, target, st, frame, node, kind)
            return var, elem, XLoop(var, it, node, st.atoms, kind)
        self.uid += 1
        tname = dotted(target) or "it"
        var, elem = None, None
        if isinstance(it, Rng):
            var = Lin.sym("%s#%d" % (tname, self.uid))
            elem = var
            self.gfact(st, it.lo, "<=", var, "loop range lower bound")
            self.gfact(st, var, "<=", it.hi - 1, "loop range upper bound")
        elif isinstance(it, ListV):
            var = Lin.sym("%s@%d" % (tname, self.uid))
            elem = subst(it.elem, {_one_sym(it.var): var}) if it.var is not None else it.elem
            inner = it.it
            if isinstance(inner, Rng):
                self.gfact(st, inner.lo, "<=", var, "loop range lower bound")
                self.gfact(st, var, "<=", inner.hi - 1, "loop range upper bound")
        elif isinstance(it, AccList) and isinstance(as_listv(it), ListV):
            return self._loop_acc(it, target, st, frame, node, kind)
        elif isinstance(it, ZipV):
            var = Lin.sym("%s#%d" % (tname.replace(".", "_"), self.uid))
            elems = [self.elem_at(x, var, st) for x in it.items]
            elem = Tup(elems)
            ext = [seq_len(x, self) for x in it.items]
            self.gfact(st, ZERO, "<=", var, "zip position")
            if ext and ext[0] is not None:
                self.gfact(st, var, "<=", ext[0] - 1, "zip position")
        elif isinstance(it, Src) and it.kind == "frame":
            var = Lin.sym("%s#%d" % (tname, self.uid))
            elem = Opq("column-label", [var])
        elif isinstance(it, NDS):
            sh = shape_of(it)
            var = Lin.sym("%s#%d" % (tname, self.uid))
            self.gfact(st, ZERO, "<=", var, "iteration over first axis")
            if sh and sh[0] is not None:
                self.gfact(st, var, "<=", sh[0] - 1, "iteration over first axis")
            elem = self.make_sub(it, [("i", var)], "item" if not isinstance(it, Sub) else it.how, st)
        elif isinstance(it, Pieces):
            var = Lin.sym("%s#%d" % (tname, self.uid))
            elem = Piece(it, var)
        elif isinstance(it, Rows):
            var = Lin.sym("%s#%d" % (tname, self.uid))
            elem = Row(it, var)
        elif isinstance(it, Cols):
            var = Lin.sym("%s#%d" % (tname, self.uid))
            elem = Tup([self._generic_elem(x) for x in it.items])
        elif isinstance(it, EVec):
            var = None
            elem = it.elem
        elif isinstance(it, Tup) and len(it.items) == 1:
            var, elem = None, it.items[0]
        elif isinstance(it, (Vec, FHV)):
            vec = it if isinstance(it, Vec) else it.vec
            var = Lin.sym("%s[i#%d]" % (vec.base, self.uid))
            elem = var + vec.off
        else:
            # an iterable that is not interpreted: its elements stay opaque, the iteration number gets a symbol
            var = Lin.sym("%s#%d" % (tname.replace(".", "_"), self.uid))
            self.gfact(st, ZERO, "<=", var, "iteration number")
            elem = Opq("elem", [it])
        return var, elem, XLoop(var, it, node, st.atoms, kind)

    def _loop_acc(self, acc, target, st, frame, node, kind):
        lv = as_listv(acc)
        var, elem, lc = self._loop_elem(lv, target, st, frame, node, kind)
        return var, elem, XLoop(var, acc, node, st.atoms, kind)

    def elem_at(self, seq, idx, st):
        """Element ``idx`` of a sequence value."""
        if isinstance(seq, (Rows, Pieces, Cols, EVec)):
            return self.make_sub(seq, [("i", idx)], "item", st)
        if isinstance(seq, Rng):
            return seq.lo + idx if seq.step == ONE else Opq("elem", [seq, idx])
        if isinstance(seq, AccList):
            el = self.acc_elem(seq, idx)
            return el if el is not None else Sub(seq, [("i", idx)])
        if isinstance(seq, ListV) and seq.var is not None:
            return subst(seq.elem, {_one_sym(seq.var): idx})
        if isinstance(seq, NDS):
            return self.make_sub(seq, [("i", idx)], seq.how if isinstance(seq, Sub) else "item", st)
        return Opq("elem", [seq, idx])

    def _generic_elem(self, x):
        if isinstance(x, EVec):
            return x.elem
        if isinstance(x, AccList):
            vals = []
            for val, loops, atoms, node in x.appends:
                vals.append(val.elem if isinstance(val, EVec) else val)
            if len(vals) == 1 and not [m for m, _ in x.other if m != "extend"]:
                return vals[0]
            return Opq("elem", [x])
        if isinstance(x, Lin):
            return x
        if isinstance(x, ListV) and isinstance(x.elem, Lin):
            return x.elem
        return Opq("elem", [x])

    def _position(self, lc):
        """Affine form of the 0-based iteration number of a loop, or None."""
        if lc.var is None:
            return None
        if isinstance(lc.it, Rng):
            return lc.var - lc.it.lo if lc.it.step == ONE else None
        if reordered(lc.it) is not None:
            return None
        return lc.var

    def _is_counter(self, body, name):
        """``name`` is advanced by exactly one ``name += 1`` that every iteration executes (and nothing else writes it)."""
        writes = [n for n in ast.walk(ast.Module(body=list(body), type_ignores=[])) if isinstance(n, ast.Name) and n.id == name and isinstance(n.ctx, (ast.Store, ast.Del))]
        augs = [n for n in ast.walk(ast.Module(body=list(body), type_ignores=[])) if isinstance(n, ast.AugAssign) and isinstance(n.target, ast.Name) and n.target.id == name]
        if len(writes) != 1 or len(augs) != 1 or not isinstance(augs[0].op, ast.Add) \
                or not (isinstance(augs[0].value, ast.Constant) and augs[0].value.value == 1 and not isinstance(augs[0].value.value, bool)):
            return False
        g = CFG(_Body(body))
        tgt = [nd for nd in g.nodes if nd.stmt is augs[0]]
        if not tgt or not g.must_pass(lambda nd: nd is tgt[0]):
            return False
        # a ``continue`` / ``break`` of this loop would end the iteration without reaching the increment
        stack = list(body)
        while stack:
            x = stack.pop()
            if isinstance(x, (ast.Continue, ast.Break)):
                return False
            if isinstance(x, (ast.For, ast.While, ast.FunctionDef, ast.ClassDef)):
                continue
            for f_ in ("body", "orelse", "finalbody"):
                stack.extend(getattr(x, f_, []) or [])
            for h in getattr(x, "handlers", []) or []:
                stack.extend(h.body)
        return True

    def _enter_loop(self, node, lc, header_names, st, body_st):
        """Bind counters, make the other loop-carried locals opaque; returns the counters found."""
        pos = self._position(lc)
        counters = []
        for nm in carried_names(node.body, header_names):
            cur = body_st.env.get(nm)
            if pos is not None and as_lin_val(cur) is not None and self._is_counter(node.body, nm):
                body_st.env[nm] = as_lin_val(cur) + pos
                counters.append(nm)
            elif not isinstance(cur, (AccList, Buf)):
                body_st.env[nm] = Opq("loop-carried:" + nm)
        lc.counters = tuple(counters)
        lc.bound_names = tuple(header_names)
        if isinstance(lc.it, Rng) and lc.it.lo == ZERO and lc.it.step == ONE and _one_sym(lc.it.hi) in self.lenof \
                and lc.it.hi == Lin.sym(_one_sym(lc.it.hi)):
            lc.over = self.lenof[_one_sym(lc.it.hi)]
        return counters

    def _leave_loop(self, node, lc, st, after, counters):
        n_ = self.position_count(lc)
        for nm in counters:
            cur = as_lin_val(st.env.get(nm))
            after.env[nm] = (cur + n_) if (cur is not None and n_ is not None) else Opq("loop-carried:" + nm)

    def _for(self, node, st, frame):
        it = self.ev(node.iter, st, frame)
        from ..absint import Gen
        if isinstance(it, Gen):
            return Interp._for(self, node, st, frame)
        results = []
        body_st = st.copy()
        var, elem, lc = self._loop_elem(it, node.target, body_st, frame, node, "for")
        body_st.loops = list(st.loops) + [lc]
        counters = self._enter_loop(node, lc, target_names(node.target), st, body_st)
        self.assign(node.target, elem, body_st, frame)
        self.record("loop", node, it, None, None, body_st, frame)
        after = st.copy()
        self._havoc(node.body, after)
        if isinstance(node.target, ast.Name):
            after.env[node.target.id] = Opq("loop-var-after:" + node.target.id)
        self._leave_loop(node, lc, st, after, counters)
        for s, o in self.block(node.body, body_st, frame):
            if o[0] == "return":
                results.append((s, o))
        if node.orelse:
            return results + self.block(node.orelse, after, frame)
        return results + [(after, ("fall",))]

    def _while(self, node, st, frame):
        """Counting ``while`` loops, read as the ``for`` loop they spell:
        ``i = c; while i < N: ...; i += 1``  and  ``while len(acc) < N: acc.append(..)``."""
        t = node.test
        if node.orelse or not (isinstance(t, ast.Compare) and len(t.ops) == 1 and isinstance(t.ops[0], (ast.Lt, ast.Gt))):
            return None
        small, big = (t.left, t.comparators[0]) if isinstance(t.ops[0], ast.Lt) else (t.comparators[0], t.left)
        hi = as_lin_val(self.ev(big, st, frame))
        if hi is None:
            return None
        counter, acc, lo = None, None, None
        if isinstance(small, ast.Name) and as_lin_val(st.env.get(small.id)) is not None and self._is_counter(node.body, small.id):
            counter, lo = small.id, as_lin_val(st.env[small.id])
        elif isinstance(small, ast.Call) and dotted(small.func) == "len" and len(small.args) == 1 and not small.keywords:
            v = self.ev(small.args[0], st, frame)
            if isinstance(v, AccList) and not v.appends and not v.other:
                acc, lo = v, ZERO
        if lo is None:
            return None
        self.uid += 1
        var = Lin.sym("%s#%d" % (counter or "k", self.uid))
        body_st = st.copy()
        self.gfact(body_st, lo, "<=", var, "loop range lower bound")
        self.gfact(body_st, var, "<=", hi - 1, "loop range upper bound")
        lc = XLoop(var, Rng(lo, hi), node, st.atoms, "for")
        body_st.loops = list(st.loops) + [lc]
        counters = self._enter_loop(node, lc, (counter,) if counter else (), st, body_st)
        if counter:
            body_st.env[counter] = var
        self.record("loop", node, lc.it, None, None, body_st, frame)
        after = st.copy()
        self._havoc(node.body, after)
        self._leave_loop(node, lc, st, after, counters)
        if counter:
            after.env[counter] = hi
        results = []
        for s, o in self.block(node.body, body_st, frame):
            if o[0] == "return":
                results.append((s, o))
        if acc is not None:
            own = [x for x in acc.appends if lc in x[1]]
            if len(own) != 1 or acc.other:
                acc.other.append(("while-fill", node))
        return results + [(after, ("fall",))]

    def _havoc(self, stmts, st):
        for sub_ in stmts:
            for n in ast.walk(sub_):
                if isinstance(n, ast.Name) and isinstance(n.ctx, ast.Store):
                    st.env[n.id] = Opq("loop-carried:" + n.id)

    def ev_ListComp(self, e, st, frame):
        if len(e.generators) != 1 or e.generators[0].is_async:
            return Opq("comprehension", [])
        g = e.generators[0]
        it = self.ev(g.iter, st, frame)
        s2 = st.copy()
        var, elem, lc = self._loop_elem(it, g.target, s2, frame, e, "comp-filtered" if g.ifs else "comp")
        s2.loops = list(st.loops) + [lc]
        self.assign(g.target, elem, s2, frame)
        self.record("loop", e, it, None, None, s2, frame)
        val = self.ev(e.elt, s2, frame)
        self.record("comp-elem", e, None, None, val, s2, frame)
        return ListV(val, var, it, e, bool(g.ifs))

    ev_GeneratorExp = ev_ListComp

    def ev_List(self, e, st, frame):
        if not e.elts:
            a = frame.func.args
            if any(d is e for d in list(a.defaults) + [d for d in a.kw_defaults if d is not None]):
                acc = AccList(e, (), frame.func)
                acc.persist = "it is a mutable default argument of %s()" % frame.func.name
                return acc
            return AccList(e, st.loops, frame.func)
        return Interp.ev_Tuple(self, e, st, frame)

    def ev_Dict(self, e, st, frame):
        if all(isinstance(k, ast.Constant) and isinstance(k.value, str) for k in e.keys):
            return DictV({k.value: self.ev(v, st, frame) for k, v in zip(e.keys, e.values)})
        return Opq("dict", [])

    def ev_Lambda(self, e, st, frame):
        meths = sorted({c.func.attr for c in ast.walk(e.body) if isinstance(c, ast.Call) and isinstance(c.func, ast.Attribute)
                        and isinstance(c.func.value, ast.Name) and c.func.value.id == "self"})
        return LamV(e, st.env, frame.module, frame.cls, frame.defcls, meths, frame.func)

    def ev_JoinedStr(self, e, st, frame):
        return Opq("fstring", [])

    def assign(self, target, val, st, frame):
        if isinstance(target, (ast.Tuple, ast.List)) and isinstance(val, Row) and len(target.elts) == 2:
            self.assign(target.elts[0], val.start(), st, frame)
            self.assign(target.elts[1], val.end(), st, frame)
            return
        if isinstance(target, ast.Attribute):
            base = self.ev(target.value, st, frame)
            if isinstance(base, SelfV):
                base.attrs[target.attr] = val
                st.heap[(id(base), target.attr)] = val
                self.record("attr-store", target, base, target.attr, val, st, frame)
                return
        Interp.assign(self, target, val, st, frame)

    def store_subscript(self, target, val, st, frame):
        base = self.ev(target.value, st, frame)
        how = "item"
        if isinstance(base, Loc):
            how, base = base.how, base.base
        spec = self.parse_spec(target.slice, st, frame)
        if isinstance(base, Buf):
            dup = [x for x in base.stores if x.node is target and [id(l.node) for l in x.loops] == [id(l.node) for l in st.loops]
                   and x.spec == tuple(spec) and _veq(x.value, val)]
            if not dup:
                base.stores.append(StoreRec(spec, val, st.loops, st.atoms, target, how))
        self.record("store", target, base, spec, val, st, frame, how)

    # ------------------------------------------------------------ expressions
    def _is(self, a, b):
        none_b = isinstance(b, K) and b.v is None
        none_a = isinstance(a, K) and a.v is None
        if none_b and isinstance(a, NOT_NONE):
            return False
        if none_a and isinstance(b, NOT_NONE):
            return False
        return Interp._is(self, a, b)

    def getattr(self, base, attr, e, st, frame):
        if isinstance(base, SelfV):
            if (id(base), attr) not in st.heap and attr not in base.attrs and base.cls is not None:
                hit = self.repo.lookup_method(base.cls, attr)
                if hit is not None and attr not in getattr(hit[0], "properties", {}):
                    return BoundM(base, attr)
            self.record("attr-load", e, base, attr, None, st, frame)
        if isinstance(base, NDS) and attr == "ndim":
            sh = shape_of(base)
            if sh is not None:
                return Lin.c(len(sh))
        if isinstance(base, NDS):
            if attr == "shape":
                sh = shape_of(base)
                if sh is not None:
                    return Tup([x if x is not None else Opq("dim") for x in sh])
            if attr in ("iloc", "loc"):
                return Loc(base, attr)
            if attr in ("values",):
                return base
            if attr == "size":
                sh = shape_of(base)
                if sh and len(sh) == 1 and sh[0] is not None:
                    return sh[0]
        if isinstance(base, Lsp) and attr == "values":
            return base
        return Interp.getattr(self, base, attr, e, st, frame)

    def binop(self, op, a, b, st):
        if isinstance(op, ast.FloorDiv):
            la, lb = as_lin_val(a), as_lin_val(b)
            if la is not None and lb is not None and lb.is_const() and lb.const > 0 and lb.const == int(lb.const):
                return self.floor_sym(la.scale(Fraction(1) / lb.const), st)
        if isinstance(op, ast.Mult):
            for x, y in ((a, b), (b, a)):
                ly = as_lin_val(y)
                if isinstance(x, Tup) and ly is not None and ly.is_const() and 0 <= ly.const <= 8 and ly.const == int(ly.const):
                    return Tup(list(x.items) * int(ly.const))
                if isinstance(x, Rng) and ly is not None and ly.is_const() and ly.const in (1, -1):
                    return x if ly.const == 1 else self.neg(x)
        if isinstance(a, EVec) or isinstance(b, EVec):
            ea = a.elem if isinstance(a, EVec) else a
            eb = b.elem if isinstance(b, EVec) else b
            r = Interp.binop(self, op, ea, eb, st)
            return EVec(r) if isinstance(r, Lin) else Opq("evec-op", [a, b])
        return Interp.binop(self, op, a, b, st)

    def parse_spec(self, sl, st, frame):
        items = sl.elts if isinstance(sl, ast.Tuple) else [sl]
        out = []
        for it in items:
            if isinstance(it, ast.Call) and isinstance(it.func, ast.Name) and it.func.id == "slice" and "slice" not in st.env \
                    and not it.keywords and 1 <= len(it.args) <= 3 and self.repo.resolve_name(frame.module, "slice") is None:
                a_ = list(it.args)
                lo_, hi_, st_ = (None, a_[0], None) if len(a_) == 1 else (a_[0], a_[1], a_[2] if len(a_) == 3 else None)
                none = lambda x: x is None or isinstance(x, ast.Constant) and x.value is None  # noqa: E731
                it = ast.Slice(lower=None if none(lo_) else lo_, upper=None if none(hi_) else hi_, step=None if none(st_) else st_)
            if isinstance(it, ast.Slice):
                lo = self.ev(it.lower, st, frame) if it.lower is not None else None
                hi = self.ev(it.upper, st, frame) if it.upper is not None else None
                llo = as_lin_val(lo) if lo is not None else None
                lhi = as_lin_val(hi) if hi is not None else None
                stepv = as_lin_val(self.ev(it.step, st, frame)) if it.step is not None else None
                if it.step is not None and stepv == Lin.c(-1) and lo is None and hi is None:
                    out.append(("x", Opq("reversed-axis", [])))
                elif it.step is not None or (lo is not None and llo is None) or (hi is not None and lhi is None):
                    out.append(("x", Opq("slice", [x for x in (lo, hi) if x is not None])))
                elif llo is None and lhi is None:
                    out.append(("a",))
                else:
                    out.append(("s", llo, lhi))
            else:
                v = self.ev(it, st, frame)
                lv = as_lin_val(v)
                if lv is not None:
                    out.append(("i", lv))
                elif isinstance(v, (Rng, Vec, EVec)):
                    out.append(("v", v))
                else:
                    out.append(("x", v))
        return out

    def ev_Subscript(self, e, st, frame):
        base = self.ev(e.value, st, frame)
        return self.subscript(base, e, st, frame)

    def subscript(self, base, e, st, frame):
        if isinstance(base, Alt):
            return Alt([(self.subscript(x, e, st, frame), f) for x, f in base.alts])
        how = "item"
        b = base
        if isinstance(b, Loc):
            how, b = b.how, b.base
        if isinstance(e.slice, ast.Slice) and e.slice.step is not None and isinstance(b, NDS + (AccList, ListV)):
            return Opq("slice-step", [b])
        if isinstance(b, NDS + (AccList, ListV, Piece, Row, Rows, Pieces, Cols, EVec)):
            spec = self.parse_spec(e.slice, st, frame)
            r = self.make_sub(b, spec, how, st)
            self.record("load", e, b, spec, r, st, frame, how)
            return r
        sl = e.slice
        if isinstance(b, Tup) and isinstance(sl, ast.Slice) and sl.step is None:
            lo = as_lin_val(self.ev(sl.lower, st, frame)) if sl.lower is not None else Lin.c(0)
            hi = as_lin_val(self.ev(sl.upper, st, frame)) if sl.upper is not None else Lin.c(len(b.items))
            if lo is not None and hi is not None and lo.is_const() and hi.is_const():
                return Tup(b.items[int(lo.const):int(hi.const)])
        if isinstance(sl, ast.Slice):
            lo = self.ev(sl.lower, st, frame) if sl.lower is not None else None
            hi = self.ev(sl.upper, st, frame) if sl.upper is not None else None
            if sl.step is not None:
                return Opq("slice-step", [base])
            return self.slice(base, lo, hi, st)
        idx = self.ev(sl, st, frame)
        return self.index(base, idx, e, st, frame)

    def make_sub(self, base, spec, how, st):
        spec = list(spec)
        if isinstance(base, Piece) and len(spec) == 1 and spec[0][0] == "i" and spec[0][1].is_const():
            c = spec[0][1].const
            if c not in (0, -1) and c == int(c):
                # members are consecutive positions: piece[k] = first + k, piece[-k] = last - k + 1
                self.make_sub(base, [("i", ZERO)], how, st)
                return base.first() + int(c) if c > 0 else base.last() + int(c) + 1
            if c in (0, -1):
                ln = shape_of(base.pieces.base) if isinstance(base.pieces.base, (Rng,) + NDS) else None
                self.gfact(st, ZERO, "<=", base.first(), "piece members are positions of the split array")
                self.gfact(st, base.first(), "<=", base.last(), "a piece is non-empty and ascending")
                if ln and ln[0] is not None:
                    self.gfact(st, base.last(), "<=", ln[0] - 1, "piece members are positions of the split array")
                return base.first() if c == 0 else base.last()
        if isinstance(base, Row) and len(spec) == 1 and spec[0][0] == "i" and spec[0][1].is_const():
            c = spec[0][1].const
            if c == 0:
                return base.start()
            if c in (1, -1):
                return base.end()
        if isinstance(base, Pad) and base.rows and spec and spec[0][0] == "i":
            row = Pad(self.make_sub(base.base, [spec[0]], how, st), base.left, base.right, base.mode, False)
            return self.make_sub(row, spec[1:], how, st) if spec[1:] else row
        if len(spec) == 1 and spec[0][0] == "i" and isinstance(base, (Rows, Pieces, Cols, EVec)):
            if isinstance(base, Rows):
                return Row(base, spec[0][1])
            if isinstance(base, Pieces):
                return Piece(base, spec[0][1])
            if isinstance(base, EVec):
                return base.elem
            return Tup([self._generic_elem(x) for x in base.items])
        if isinstance(base, ListV) and len(spec) == 1 and spec[0][0] == "i" and base.var is not None:
            return subst(base.elem, {_one_sym(base.var): spec[0][1]})
        if isinstance(base, AccList) and len(spec) == 1 and spec[0][0] == "i":
            el = self.acc_elem(base, spec[0][1])
            if el is not None:
                return el
        if isinstance(base, Buf) and spec and spec[0][0] == "i":
            row = self.buf_row(base, spec[0][1])
            if row is not None:
                rest = spec[1:]
                return self.make_sub(row, rest, how, st) if rest else row
        if isinstance(base, NDS):
            r = compose(base, spec, how)
            if isinstance(r, Cell):
                ln = r.length
                self.celllens[_one_sym(ln)] = r
                self.gfact(st, ln, "<=", Lin.sym("maxlen(%s)" % r.src.name), "cell length <= longest cell")
                self.gfact(st, Lin.sym("minlen(%s)" % r.src.name), "<=", ln, "shortest cell <= cell length")
            return r
        return Sub(base, spec, how)

    def acc_elem(self, acc, idx):
        """Element ``idx`` of a list filled by exactly one append per iteration of one unit-step loop."""
        if len(acc.appends) != 1 or acc.other:
            return None
        val, loops, atoms, node = acc.appends[0]
        own = [l for l in loops if l not in acc.created_loops]
        if len(own) != 1 or own[0].var is None:
            return None
        if self.position_count(own[0]) is not None:
            return subst(val, {_one_sym(own[0].var): idx})
        return None

    def position_count(self, loop):
        """Number of iterations if the loop variable runs over the positions 0, 1, ... in order (``range(n)``,
        ``enumerate`` / ``zip``, direct iteration over a sequence), else None."""
        if loop.var is None:
            return None
        it = loop.it
        if isinstance(it, Rng):
            return it.hi if it.lo == ZERO and it.step == ONE else None
        if reordered(it) is not None:
            return None
        if isinstance(it, (ZipV, ListV, AccList) + NDS):
            return seq_len(it, self)
        return None

    def buf_row(self, buf, idx):
        """Value stored into row ``idx`` of a buffer filled row by row in one unit-step loop over all rows."""
        if len(buf.stores) != 1:
            return None
        s = buf.stores[0]
        if len(s.spec) != 1 or s.spec[0][0] != "i":
            return None
        v = s.spec[0][1]
        syms = list(v.symbols())
        if len(syms) != 1 or v != Lin.sym(syms[0]):
            return None
        lp = [l for l in s.loops if l.var is not None and l.var == v]
        if len(lp) != 1 or self.position_count(lp[0]) is None or self.position_count(lp[0]) != buf.shape[0]:
            return None
        return subst(s.value, {syms[0]: idx})

    # ------------------------------------------------------------------ calls
    def ev(self, e, st, frame):
        if id(e) in self._recv:
            return self._recv[id(e)]
        return Interp.ev(self, e, st, frame)

    def ev_Call(self, e, st, frame):
        key = id(e.func.value) if isinstance(e.func, ast.Attribute) else None
        fresh = key is not None and key not in self._recv
        if fresh:
            self._recv[key] = Interp.ev(self, e.func.value, st, frame)
        try:
            return self._ev_call(e, st, frame)
        finally:
            if fresh:
                del self._recv[key]

    def _ev_call(self, e, st, frame):
        fname = dotted(e.func)
        args = [self.ev(a, st, frame) for a in e.args if not isinstance(a, ast.Starred)]
        if any(isinstance(a, ast.Starred) for a in e.args):
            args.append(Opq("starargs"))
        kwargs = {k.arg: self.ev(k.value, st, frame) for k in e.keywords if k.arg}
        for k in e.keywords:
            if k.arg is None:
                dv = self.ev(k.value, st, frame)
                if isinstance(dv, DictV):
                    for kk, vv in dv.items.items():
                        kwargs.setdefault(kk, vv)
                else:
                    kwargs["**"] = dv
        # call of a local name bound to a function value
        if isinstance(e.func, ast.Name) and e.func.id in st.env:
            fval = st.env[e.func.id]
            if isinstance(fval, Opq) and fval.tag.startswith("global:"):
                fname = "=" + fval.tag[len("global:"):]
            else:
                r = self.call_value(fval, args, kwargs, e, st, frame)
                if r is not NotImplemented:
                    return r
        r = self._hooks(self, frame, e, fname, args, kwargs, st)
        if r is not NotImplemented:
            return r
        r = self.builtin_call(e, fname, args, kwargs, st, frame)
        if r is not NotImplemented:
            return r
        r = self.inline_call(e, fname, args, kwargs, st, frame)
        if r is not NotImplemented:
            return r
        recv = None
        name = fname
        ext = self.ext_name(fname, frame)
        if fname and fname.startswith("="):
            name = fname[1:]
        elif isinstance(e.func, ast.Name) and fname in st.env:
            name, recv = "__call__", st.env[fname]
        elif ext is not None and not (isinstance(e.func, ast.Attribute) and dotted(e.func.value) in st.env):
            name = ext
        elif isinstance(e.func, ast.Attribute):
            recv = self.ev(e.func.value, st, frame)
            name = e.func.attr
            sym = self.resolve_sym(fname, frame)
            if sym is not None and sym.kind in ("func", "class") and not isinstance(recv, (SelfV,)):
                name, recv = sym.dotted, None
        else:
            sym = self.resolve_sym(fname, frame)
            if fname in st.env:
                name, recv = "__call__", st.env[fname]
            elif sym is not None and sym.dotted:
                name = sym.dotted
        cv = CallV(name, recv, args, kwargs, e, st.loops)
        self.calls.append(cv)
        return cv

    def resolve_sym(self, fname, frame):
        """Symbol of a callee name; ``=dotted`` names are aliases already resolved to a fully-qualified name."""
        if not fname:
            return None
        if fname.startswith("="):
            return self.repo._resolve_abs(fname[1:])
        return self.repo.resolve_dotted(frame.module, fname)

    def ext_name(self, fname, frame):
        if fname and fname.startswith("="):
            sym = self.resolve_sym(fname, frame)
            return sym.dotted if sym is not None and sym.kind == "ext" else None
        return Interp.ext_name(self, fname, frame)

    def resolve_callee(self, e, fname, st, frame):
        if fname and fname.startswith("="):
            sym = self.resolve_sym(fname, frame)
            if sym is not None and sym.kind == "func":
                return sym.module, sym.target, None, None, True
            return None
        f = e.func
        if isinstance(f, ast.Attribute) and not (isinstance(f.value, ast.Call) and dotted(f.value.func) == "super"):
            recv = self.ev(f.value, st, frame)
            if isinstance(recv, SelfV) and recv.cls is not None:
                hit = self.repo.lookup_method(recv.cls, f.attr)
                if hit:
                    k, fn = hit
                    return k.module, fn, recv, k, k.is_static(f.attr)
                return None
            if recv is not None and not isinstance(recv, Opq):
                return None
            if isinstance(recv, Opq) and not recv.tag.startswith("global:"):
                return None
        return Interp.resolve_callee(self, e, fname, st, frame)

    def type_of(self, v):
        """Set of python type names of an abstract value (None = unknown)."""
        if isinstance(v, Src):
            return {"nested": {"pandas.DataFrame"}, "np3": {"numpy.ndarray"}, "np2": {"numpy.ndarray"},
                    "series": {"pandas.Series"}, "frame": {"pandas.DataFrame"}}.get(v.kind)
        if isinstance(v, (Buf, Pad, Strided, Lsp)):
            return {"numpy.ndarray"}
        if isinstance(v, Lin):
            return {"builtins.int"}
        if isinstance(v, K):
            if v.v is None:
                return {"builtins.NoneType"}
            return {"builtins." + type(v.v).__name__}
        if isinstance(v, Rows):
            return {"numpy.ndarray"}
        if isinstance(v, CallV) and v.recv is not None and v.name in ("fillna", "replace", "interpolate", "copy", "astype",
                                                                      "ffill", "bfill", "dropna"):
            return self.type_of(v.recv)
        return None

    def _hooks(self, interp, frame, call, fname, args, kwargs, st):
        if self.extra_hooks is not None:
            r = self.extra_hooks(self, frame, call, fname, args, kwargs, st)
            if r is not NotImplemented:
                return r
        ext = self.ext_name(fname, frame)
        lins = [as_lin_val(a) for a in args]
        if ext == "builtins.isinstance" and len(args) == 2:
            tv = self.type_of(args[0])
            want = self._type_names(call.args[1], frame)
            if tv is not None and want is not None:
                return K(bool(tv & want))
            return Opq("isinstance", args)
        if ext in ("math.floor", "numpy.floor", "builtins.int", "numpy.int") and len(args) == 1 and lins[0] is not None:
            return self.floor_sym(lins[0], st)
        if ext in ("builtins.max", "builtins.min") and len(args) == 1 and not kwargs and isinstance(args[0], Tup) \
                and len(args[0].items) == 2 and all(as_lin_val(x) is not None for x in args[0].items):
            args = list(args[0].items)
            lins = [as_lin_val(a) for a in args]
        if ext in ("numpy.maximum", "numpy.minimum") and len(args) == 2 and not kwargs and any(isinstance(a, EVec) for a in args):
            els = [a.elem if isinstance(a, EVec) else as_lin_val(a) for a in args]
            if all(isinstance(x, Lin) for x in els):
                r = self._hooks(self, frame, call, fname, els, {}, st)
                if isinstance(r, Lin):
                    return EVec(r)
        if ext in ("builtins.max", "builtins.min", "numpy.maximum", "numpy.minimum") and len(args) == 2 and not kwargs \
                and all(l is not None for l in lins):
            big = ext.endswith(("max", "maximum"))
            a, b = lins
            for x, y in ((a, b), (b, a)):
                if st.facts.entails_cmp(x, ">=", y) is not None:
                    return x if big else y
            nm = "%s(%r, %r)" % ("max" if big else "min", *sorted([a, b], key=repr))
            r = Lin.sym(nm)
            self.derived[nm] = set(a.symbols()) | set(b.symbols())
            for x in (a, b):
                self.gfact(st, x if big else r, "<=", r if big else x, "definition of %s" % nm)
            return r
        if ext in ("math.ceil", "numpy.ceil") and len(args) == 1 and lins[0] is not None:
            return -self.floor_sym(-lins[0], st)
        if ext in ("numpy.full", "numpy.zeros", "numpy.empty", "numpy.ones"):
            b = self.bind_ext(ext, args, kwargs)
            shp = b.get("shape")
            dims = shp.items if isinstance(shp, Tup) else [shp]
            dl = [as_lin_val(d) for d in dims]
            if all(d is not None for d in dl):
                fill = b.get("fill_value") if ext == "numpy.full" else (K("uninit") if ext == "numpy.empty" else Lin.c(0 if ext == "numpy.zeros" else 1))
                buf = Buf(dl, fill, call, st.loops)
                buf.dtype = b.get("dtype")
                return buf
            return Opq("buf", args)
        if ext == "numpy.pad":
            b = self.bind_ext(ext, args, kwargs)
            pw = b.get("pad_width")
            left = right = None
            if as_lin_val(pw) is not None:
                left = right = as_lin_val(pw)
            elif isinstance(pw, Tup) and len(pw.items) == 2 and all(as_lin_val(x) is not None for x in pw.items):
                left, right = (as_lin_val(x) for x in pw.items)
            rows = False
            if isinstance(pw, Tup) and len(pw.items) == 2 and all(isinstance(x, Tup) and len(x.items) == 2 for x in pw.items):
                first = [as_lin_val(x) for x in pw.items[0].items]
                last = [as_lin_val(x) for x in pw.items[1].items]
                if first == [ZERO, ZERO] and None not in last:
                    left, right, rows = last[0], last[1], True
            mode = b.get("mode", K("constant"))
            if left is not None and isinstance(mode, K):
                return Pad(b.get("array"), left, right, mode.v, rows)
            return Opq("pad", args)
        if ext == "numpy.lib.stride_tricks.as_strided":
            b = self.bind_ext(ext, args, kwargs)
            base, shp, strd = b.get("x"), b.get("shape"), b.get("strides")
            if isinstance(shp, Tup) and isinstance(strd, Tup) and all(as_lin_val(x) is not None for x in shp.items):
                kinds = [_stride_kind(x, base) for x in strd.items]
                unit = None if (None in kinds or len(kinds) != len(shp.items)) else all(k == "unit" for k in kinds)
                steps = [_stride_items(x, base) for x in strd.items] if len(strd.items) == len(shp.items) else None
                return Strided(base, [as_lin_val(x) for x in shp.items], unit, steps)
            return Opq("as_strided", args)
        if ext == "numpy.linspace":
            b = self.bind_ext(ext, args, kwargs)
            if all(k in ("start", "stop", "num", "endpoint") for k in b):
                return Lsp(b.get("start"), b.get("stop"), b.get("num", Lin.c(50)), b.get("endpoint", K(True)))
            return Opq("linspace", args)
        if ext == "numpy.array_split":
            b = self.bind_ext(ext, args, kwargs)
            if "axis" not in b:
                return Pieces(b.get("ary"), b.get("indices_or_sections"))
        if ext == "numpy.column_stack" and len(args) == 1 and isinstance(args[0], Tup):
            return Cols(args[0].items)
        if ext == "builtins.hasattr" and len(args) == 2 and isinstance(args[1], K) and isinstance(args[1].v, str):
            if isinstance(args[0], SelfV):
                self.record("attr-load", call, args[0], args[1].v, None, st, frame)
                if (id(args[0]), args[1].v) in st.heap or args[1].v in args[0].attrs:
                    return K(True)
            if isinstance(args[0], Src) and args[1].v in ("shape",) and args[0].kind != "raw":
                return K(True)
        if ext == "builtins.getattr" and len(args) >= 2 and isinstance(args[0], SelfV) and isinstance(args[1], K) \
                and isinstance(args[1].v, str):
            self.record("attr-load", call, args[0], args[1].v, None, st, frame)
            if (id(args[0]), args[1].v) in st.heap:
                return st.heap[(id(args[0]), args[1].v)]
            if args[1].v in args[0].attrs:
                return args[0].attrs[args[1].v]
            if len(args) == 3 and isinstance(args[2], AccList):
                args[2].persist = "it is taken from self.%s when a previous call left one there" % args[1].v
                return args[2]
            return Opq("self." + args[1].v)
        if ext == "builtins.dict" and not args and "**" not in kwargs:
            return DictV(kwargs)
        if ext == "builtins.zip" and len(args) >= 2 and not kwargs:
            return ZipV(args)
        if ext == "builtins.enumerate" and len(args) == 1 and not kwargs:
            n_ = seq_len(args[0], self)
            if n_ is not None:
                return ZipV([Rng(ZERO, n_), args[0]])
        if ext == "builtins.map" and len(args) == 2 and not kwargs:
            seq = args[1]
            s2 = st.copy()
            var, elem, lc = self._loop_elem(seq, ast.Name(id="m", ctx=ast.Store()), s2, frame, call, "comp")
            s2.loops = list(st.loops) + [lc]
            self.record("loop", call, seq, None, None, s2, frame)
            fval = args[0]
            r = self.call_value(fval, [elem], {}, call, s2, frame)
            if r is NotImplemented:
                r = CallV("__call__", fval, [elem], {}, call, s2.loops)
            return ListV(r, var, seq, call)
        if ext == "builtins.list" and len(args) == 1 and not kwargs:
            if isinstance(args[0], (ListV, Rows, Cols, Pieces, Lsp)):
                return args[0]
        if ext == "builtins.list" and not args:
            return AccList(call, st.loops, frame.func)
        if ext in ("numpy.array", "numpy.asarray") and len(args) == 1 and isinstance(args[0], Tup) and args[0].items \
                and all(isinstance(x, Lin) for x in args[0].items) and not kwargs:
            return args[0]
        if ext == "builtins.len" and len(args) == 1:
            sh = shape_of(args[0]) if isinstance(args[0], NDS) else None
            if sh and sh[0] is not None:
                return sh[0]
            if isinstance(args[0], Lsp) and as_lin_val(args[0].num) is not None:
                return as_lin_val(args[0].num)
            if isinstance(args[0], ListV):
                sh = shape_of(args[0].it) if isinstance(args[0].it, NDS) else ([args[0].it.length()] if isinstance(args[0].it, Rng) else None)
                if sh and sh[0] is not None:
                    return sh[0]
            if isinstance(args[0], AccList):
                n = self.acc_len(args[0])
                if n is not None:
                    return n
            if isinstance(args[0], (Rows, Pieces, Cols, EVec)) or isinstance(args[0], CallV) and not args[0].loops:
                # a sequence of unknown length: one symbol per sequence value
                self.lenof["len(%r)" % (args[0],)] = args[0]
                return Lin.sym("len(%r)" % (args[0],))
        if isinstance(call.func, ast.Attribute):
            recv = self.ev(call.func.value, st, frame)
            meth = call.func.attr
            if isinstance(recv, AccList):
                if meth == "append" and len(args) == 1:
                    dup = [x for x in recv.appends if x[3] is call and [id(l.node) for l in x[1]] == [id(l.node) for l in st.loops]
                           and _veq(x[0], args[0])]
                    if not dup:
                        recv.appends.append((args[0], list(st.loops), dict(st.atoms), call))
                    self.record("append", call, recv, None, args[0], st, frame)
                    return K(None)
                if meth == "extend" and len(args) == 1 and isinstance(args[0], ListV) and isinstance(args[0].it, EVec) \
                        and isinstance(args[0].elem, Lin) and not args[0].filtered:
                    args = [EVec(args[0].elem)]
                if meth == "extend" and len(args) == 1 and isinstance(args[0], EVec):
                    recv.appends.append((args[0], list(st.loops), dict(st.atoms), call))
                    recv.other.append(("extend", call))
                    return K(None)
                recv.other.append((meth, call))
                self.record("mutate", call, recv, meth, None, st, frame)
                return Opq("list." + meth, [recv])
            if isinstance(recv, NDS):
                if meth in ("to_numpy", "copy") and not args:
                    return recv
                if meth == "squeeze" and isinstance(recv, Src) and recv.kind == "np3" and len(args) == 1 and lins[0] == ONE:
                    return Src(recv.name, "np2", [recv.shape[0], recv.shape[2]])
        return NotImplemented

    def acc_len(self, acc):
        if len(acc.appends) != 1 or acc.other:
            return None
        val, loops, atoms, node = acc.appends[0]
        own = [l for l in loops if l not in acc.created_loops]
        if len(own) == 1 and isinstance(own[0].it, Rng) and own[0].it.step == ONE:
            return own[0].it.hi - own[0].it.lo
        if len(own) == 1 and not isinstance(own[0].it, Rng):
            return self.position_count(own[0])
        return None

    def _type_names(self, node, frame):
        elts = node.elts if isinstance(node, ast.Tuple) else [node]
        out = set()
        for x in elts:
            d = dotted(x)
            if d is None:
                return None
            sym = self.repo.resolve_dotted(frame.module, d)
            if sym is None:
                out.add("builtins." + d)
            elif sym.kind == "ext":
                out.add(sym.dotted)
            else:
                return None
        # numpy.integer also matches python ints in our abstraction of "an integer option"
        if "numpy.integer" in out:
            out.add("builtins.int")
        return out


def _stride_kind(x, base):
    """'unit' (one element of ``base``), 'other' (a recognised different step) or None (unknown)."""
    if isinstance(x, Opq) and x.tag == "attr:itemsize" and len(x.args) == 1 and x.args[0] == base:
        return "unit"
    if isinstance(x, Opq) and x.tag == "index" and len(x.args) == 2 and isinstance(x.args[0], Opq) and x.args[0].tag == "attr:strides" \
            and x.args[0].args and x.args[0].args[0] == base and as_lin_val(x.args[1]) in (ZERO, Lin.c(-1)):
        sh = shape_of(base)
        return "unit" if sh is not None and len(sh) == 1 else None
    if isinstance(x, Opq) and x.tag in ("mul", "add", "sub") and any(_stride_kind(a, base) == "unit" for a in x.args):
        return "other"
    if isinstance(x, Lin):
        return "other"
    return None


def _stride_items(x, base):
    """Stride as a multiple of the item size of ``base`` (affine form), or None."""
    if _stride_kind(x, base) == "unit":
        return ONE
    if isinstance(x, Opq) and x.tag == "mul" and len(x.args) == 2:
        for a, b in ((x.args[0], x.args[1]), (x.args[1], x.args[0])):
            la = as_lin_val(a)
            if la is not None and _stride_kind(b, base) == "unit":
                return la
    return None


def reordered(v):
    """Inner sequence if ``v`` is a recognised re-ordering (reversed / sorted / set / [::-1]) of it, else None."""
    if isinstance(v, CallV) and v.name in ("builtins.reversed", "builtins.sorted", "builtins.set", "numpy.flip", "numpy.sort",
                                           "numpy.unique", "builtins.frozenset") and v.args:
        return v.args[0]
    if isinstance(v, Opq) and v.tag == "slice-step" and v.args:
        return v.args[0]
    if isinstance(v, Sub) and any(x == ("x", Opq("reversed-axis", [])) for x in v.spec):
        return compose(v.base, [("a",) if x == ("x", Opq("reversed-axis", [])) else x for x in v.spec], v.how)
    return None


def as_listv(v):
    """A list filled by one unconditional-looking append per iteration of one loop, as the equivalent comprehension."""
    if isinstance(v, AccList) and len(v.appends) == 1 and not v.other:
        val, loops, atoms, node = v.appends[0]
        own = [l for l in loops if l not in v.created_loops]
        if len(own) == 1 and own[0].var is not None:
            return ListV(val, own[0].var, own[0].it, node)
    return v


def _veq(a, b):
    try:
        return a is b or a == b
    except Exception:
        return False


def seq_len(v, it=None):
    """Length of a sequence value (Lin) or None."""
    if isinstance(v, Rng):
        return v.length()
    if isinstance(v, NDS):
        sh = shape_of(v)
        return sh[0] if sh else None
    if isinstance(v, ListV):
        return None if v.filtered else seq_len(v.it, it)
    if isinstance(v, AccList) and it is not None:
        return it.acc_len(v)
    if isinstance(v, ZipV):
        ls = [seq_len(x, it) for x in v.items]
        return ls[0] if ls and all(x is not None and x == ls[0] for x in ls) else None
    if isinstance(v, (Rows, Pieces, Cols, EVec)) or isinstance(v, CallV) and not v.loops:
        return Lin.sym("len(%r)" % (v,))
    return None


def _one_sym(lin):
    s = list(lin.symbols())
    return s[0] if len(s) == 1 else None


def _gcd(a, b):
    while b:
        a, b = b, a % b
    return a


def ret_values(traces):
    return [o[1] for s, o in traces if o[0] == "return"]


def relevant(facts, lin, rounds=4):
    """Facts transitively sharing a symbol with ``lin``."""
    syms = set(lin.symbols())
    keep = []
    for _ in range(rounds):
        grew = False
        for item in facts.items:
            if item in keep:
                continue
            fs = item[0].symbols()
            if fs & syms:
                keep.append(item)
                if not fs <= syms:
                    syms |= fs
                    grew = True
        if not grew:
            break
    return Facts(keep)


class _Body:
    def __init__(self, body):
        self.body = body


def _bound_in_expr(e):
    """Names bound by comprehensions / lambdas inside an expression (not locals of the function)."""
    out = set()
    for n in ast.walk(e):
        if isinstance(n, ast.comprehension):
            for t in ast.walk(n.target):
                if isinstance(t, ast.Name):
                    out.add(t.id)
        elif isinstance(n, ast.Lambda):
            for a in n.args.args + n.args.kwonlyargs:
                out.add(a.arg)
    return out


def _node_rw(n):
    """(reads, writes) of a CFG node as sets of local names."""
    reads, writes = set(), set()
    st = n.stmt
    if n.kind == "loop" and isinstance(st, ast.For):
        for t in ast.walk(st.target):
            if isinstance(t, ast.Name):
                writes.add(t.id)
    if n.kind == "with" and isinstance(st, ast.With):
        for i in st.items:
            if i.optional_vars is not None:
                for t in ast.walk(i.optional_vars):
                    if isinstance(t, ast.Name):
                        writes.add(t.id)
    if isinstance(st, (ast.FunctionDef, ast.ClassDef)) and n.kind == "stmt":
        writes.add(st.name)
    if isinstance(st, ast.AugAssign) and n.kind == "stmt" and isinstance(st.target, ast.Name):
        reads.add(st.target.id)
    for e in n.exprs:
        if e is None:
            continue
        bound = _bound_in_expr(e)
        for x in ast.walk(e):
            if isinstance(x, ast.Name) and x.id not in bound:
                if isinstance(x.ctx, ast.Load):
                    reads.add(x.id)
                elif isinstance(x.ctx, (ast.Store, ast.Del)):
                    writes.add(x.id)
    return reads, writes


_CARRIED = {}


def target_names(t):
    return tuple(sorted(x.id for x in ast.walk(t) if isinstance(x, ast.Name)))


def carried_names(body, bound=()):
    """Locals whose value can flow from one iteration of a loop body into the next: assigned in the body and
    read on some path before being assigned in the same iteration.  ``bound``: names the loop header assigns."""
    key = (id(body), tuple(bound))
    if key in _CARRIED and _CARRIED[key][0] is body:
        return _CARRIED[key][1]
    g = CFG(_Body(body))
    rw = {n.id: _node_rw(n) for n in g.nodes}
    assigned = set()
    for r, w in rw.values():
        assigned |= w
    reach = g.reachable()
    out = set()
    for name in assigned - set(bound):
        IN, OUT = g.forward_must(lambda n: name in rw[n.id][1])
        for n in g.nodes:
            if n.id in reach and name in rw[n.id][0] and not IN[n.id]:
                out.add(name)
                break
    _CARRIED[key] = (body, out)
    return out
