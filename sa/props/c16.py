"""C16 -- container typestate of the panel entry points (DESIGN 3/C16, rule R1).

Every ``fit`` / ``transform`` / ``fit_transform`` / ``predict`` / ``predict_proba`` /
``inverse_transform`` that a class of the anchored panel modules resolves to (along its C3 MRO,
per *concrete* class) is analysed twice: once under the scenario "the caller passes a 3-d numpy
array" and once under "the caller passes a nested pandas DataFrame".  A small forward dataflow
over the statement CFG tracks which local names hold the panel and in which container:

* ``check_X`` / ``check_X_y`` (resolved to ``sktime.utils.validation.panel``) move the container
  to numpy / pandas according to the *bound* ``coerce_to_numpy`` / ``coerce_to_pandas`` flags and
  leave it unchanged without a flag; an unassigned call does not change the caller's object;
* ``isinstance`` / ``hasattr`` tests on a tracked name are folded per container (dead branches
  are pruned, so an ``isinstance`` branch covering both containers is accepted as such);
* calls of repo functions / ``self`` / ``super()`` methods / nested functions / ``delayed(f)``
  are followed with the bound parameters (memoised summaries: uses inside, returned container,
  "never returns for this container");
* every other use of a tracked name is classified by a table of container-specific uses
  (pandas-only attributes, numpy-only attributes, multi-axis subscripts, 3-/2-tuple unpacking of
  ``shape``, positional row subscripts, numpy/scipy/pandas functions, sklearn's ColumnTransformer).

A use that is invalid for a container the name may hold on some path is a VIOLATION; a use the
tables do not know is UNDECIDED (fail closed).
"""
import ast

from ..flow import Flow
from ..index import ClassInfo, dotted
from .. import astq

NP, PD, U = "numpy", "pandas", "?"
OTHER = {NP: PD, PD: NP}
RULE = "R1"

ENTRY = ("fit", "transform", "fit_transform", "predict", "predict_proba", "inverse_transform")
APPLY = ("transform", "predict", "predict_proba", "inverse_transform")

ANCHOR_DIRS = ("sktime/transformations/panel/", "sktime/transformations/panel/dictionary_based/")
ANCHOR_FILES = (
    "sktime/transformations/panel/summarize/_extract.py",
    "sktime/transformations/panel/compose.py",
    "sktime/classification/interval_based/_tsf.py",
    "sktime/classification/interval_based/_rise.py",
    "sktime/classification/interval_based/_stsf.py",
    "sktime/classification/dictionary_based/_boss.py",
    "sktime/classification/dictionary_based/_cboss.py",
    "sktime/classification/dictionary_based/_tde.py",
    "sktime/classification/dictionary_based/_muse.py",
    "sktime/classification/compose/_column_ensemble.py",
    "sktime/regression/interval_based/_tsf.py",
)
PANEL_VALIDATION = "sktime/utils/validation/panel.py"

# entry points whose first argument is, by contract, not a panel
NOT_A_PANEL = {
    ("Tabularizer", "inverse_transform"): "input is the tabular output of transform (validated by sklearn check_array)",
}

# ---- tables ------------------------------------------------------------------------------------
# attributes of a DataFrame that a numpy array does not have (AttributeError on ndarray)
PANDAS_ONLY_ATTRS = {
    "iloc", "loc", "at", "iat", "columns", "index", "apply", "applymap", "reset_index", "set_index", "iterrows",
    "itertuples", "items", "iteritems", "to_numpy", "values", "name", "melt", "pivot", "rename", "drop", "reindex",
    "groupby", "isna", "isnull", "fillna", "dropna", "head", "tail", "join", "merge", "stack", "unstack", "xs",
    "sort_index", "sort_values", "keys", "get", "pop", "insert", "assign",
}
# attributes of an ndarray that a DataFrame does not have (AttributeError on DataFrame)
NUMPY_MISSING_ON_PANDAS = {"reshape", "flatten", "ravel", "tolist", "itemsize", "strides", "flat",
                           "tobytes", "view", "fill", "nbytes", "argmax", "argmin", "argsort", "repeat", "item"}
# exist on both, but only the ndarray meaning is the panel one (DESIGN: X.squeeze(1))
NUMPY_MEANING_ATTRS = {"squeeze", "swapaxes"}
NEUTRAL_ATTRS = {"shape", "ndim", "size", "copy", "T", "astype", "dtype", "dtypes"}
STATE_PRESERVING_METHODS = {"copy": (NP, PD), "reset_index": (PD,)}

NEUTRAL_EXT = {
    "builtins.len", "builtins.isinstance", "builtins.type", "builtins.hasattr", "builtins.getattr", "builtins.id",
    "builtins.print", "builtins.str", "builtins.repr", "builtins.callable", "len", "isinstance", "type", "hasattr",
    "getattr", "id", "print", "str", "repr", "callable",
    "sklearn.utils.validation.check_consistent_length", "sklearn.utils.check_consistent_length",
    "numpy.shape", "numpy.ndim", "numpy.size",
}
# sklearn's ColumnTransformer selects columns with _safe_indexing(X, cols, axis=1): 2-d / DataFrame only
EXT_CLASS_METHODS = {
    "sklearn.compose.ColumnTransformer": {"fit": PD, "transform": PD, "fit_transform": PD},
    "sklearn.compose._column_transformer.ColumnTransformer": {"fit": PD, "transform": PD, "fit_transform": PD},
    "sklearn.ensemble._forest.ForestClassifier": {"fit": None, "predict": None, "predict_proba": None,
                                                  "predict_log_proba": None, "score": None, "apply": None},
    "sklearn.ensemble._forest.ForestRegressor": {"fit": None, "predict": None, "score": None, "apply": None},
    "sklearn.ensemble._forest.BaseForest": {"fit": None, "apply": None},
    "sklearn.base.BaseEstimator": {},
    "object": {},
}
BUILTINS = set(dir(__import__("builtins")))
ROWKINDS = (("rows",), ("prow",))  # first axis = instances; "prow": a pandas object (label-indexed rows)
DIMKIND = {
    NP: {0: "instances", -3: "instances", 1: "columns", -2: "columns", 2: "time", -1: "time"},
    PD: {0: "instances", -2: "instances", 1: "columns", -1: "columns"},
}
DELAYED = {"joblib.delayed", "joblib.parallel.delayed", "sklearn.utils.fixes.delayed"}


class Summary:
    def __init__(self):
        self.viol = []  # (key, what, loc)
        self.und = []  # (key, why, loc)
        self.ret = None  # frozenset of containers of the returned panel, or None
        self.returns = True  # a normal return is reachable
        self.used = False  # the tracked value was used at all
        self.viol4 = []  # (key, what, loc): instance-independence findings (R4), reported for apply-type entry points
        self.reach_raises = set()  # (relpath, line) of raise statements reachable here or in callees given the panel
        self.batch_names = set()  # locals that hold the whole batch (panel / per-instance rows) somewhere
        self.reach_assign = {}  # local name -> ids of reachable statements that (re)bind it
        self.retdim = None  # frozenset of dimension values returned (R3), None = unknown
        self.stores = {}  # self attribute -> frozenset of dimension values stored (None = not a known dimension)


def _fs(*xs):
    return frozenset(xs)


class Analyzer:
    def __init__(self, repo):
        self.repo = repo
        self.flow = Flow(repo)
        self.memo = {}
        self.active = set()
        pm = repo.module(PANEL_VALIDATION)
        self.check_X = repo.func(PANEL_VALIDATION, "check_X")
        self.check_X_y = repo.func(PANEL_VALIDATION, "check_X_y")
        self.panel_module = pm
        self._fninfo = {}
        dp = "sktime/utils/data_processing.py"
        self.is_nested = repo.func(dp, "is_nested_dataframe")
        self.converters = {id(repo.func(dp, "from_3d_numpy_to_nested")): (NP, PD),
                           id(repo.func(dp, "from_nested_to_3d_numpy")): (PD, NP)}
        self.rows_helpers = {id(repo.func(dp, "from_nested_to_2d_array")): (PD,),
                             id(repo.func(dp, "from_3d_numpy_to_2d_array")): (NP,)}

    # ------------------------------------------------------------------ resolution
    def lookup(self, cls, name, after=None):
        """MRO lookup that stops at external bases known to define ``name``.
        -> ('repo', defcls, fn) | ('ext', extname, requirement) | ('extunknown', extname) | None"""
        mro = self.repo.mro(cls)
        start = 0
        if after is not None:
            for i, k in enumerate(mro):
                if k is after:
                    start = i + 1
                    break
        for k in mro[start:]:
            if isinstance(k, ClassInfo):
                if name in k.methods:
                    return ("repo", k, k.methods[name])
            else:
                ext = k[4:] if k.startswith("ext:") else k
                tab = EXT_CLASS_METHODS.get(ext)
                if tab is None:
                    if name in ENTRY:
                        return ("extunknown", ext)
                    continue
                if name in tab:
                    return ("ext", ext, tab[name])
        return None

    def fninfo(self, fn):
        info = self._fninfo.get(id(fn))
        if info is None:
            parents = {}
            for n in ast.walk(fn):
                for ch in ast.iter_child_nodes(n):
                    parents[id(ch)] = n
            local_defs = {}
            attr_try = {}  # id(stmt) -> True if inside a try body whose handlers catch AttributeError

            def rec(stmts, catching):
                for st in stmts:
                    attr_try[id(st)] = catching
                    if isinstance(st, (ast.FunctionDef, ast.AsyncFunctionDef)):
                        local_defs[st.name] = st
                        continue
                    if isinstance(st, ast.ClassDef):
                        continue
                    if isinstance(st, ast.Try):
                        c = catching or any(_catches_attribute_error(h) for h in st.handlers)
                        rec(st.body, c)
                        rec(st.orelse, catching)
                        rec(st.finalbody, catching)
                        for h in st.handlers:
                            attr_try[id(h)] = catching
                            rec(h.body, catching)
                        continue
                    for field in ("body", "orelse", "finalbody"):
                        sub = getattr(st, field, None)
                        if isinstance(sub, list) and sub and isinstance(sub[0], ast.stmt):
                            rec(sub, catching)

            rec(fn.body, False)
            stored = set()
            for n in astq.walk_no_nested(fn):
                if isinstance(n, ast.Name) and isinstance(n.ctx, (ast.Store, ast.Del)):
                    stored.add(n.id)
            info = self._fninfo[id(fn)] = (parents, local_defs, attr_try, stored)
        return info

    # ------------------------------------------------------------------ summaries
    def summary(self, fn, module, cls, defcls, bind, depth=0):
        """Analyse ``fn`` with parameters ``bind`` = {param: frozenset(containers)} holding the panel."""
        key = (id(fn), cls.qual if isinstance(cls, ClassInfo) else None,
               tuple(sorted((p, tuple(sorted(map(repr, s)))) for p, s in bind.items())))
        if key in self.memo:
            return self.memo[key]
        s = Summary()
        if key in self.active or depth > 10:
            s.ret = None
            return s  # recursion: no obligations from the cycle
        self.active.add(key)
        try:
            _FnRun(self, fn, module, cls, defcls, bind, s, depth).run()
        finally:
            self.active.discard(key)
        self.memo[key] = s
        return s


def _catches_attribute_error(h):
    if h.type is None:
        return True
    names = [h.type] if not isinstance(h.type, ast.Tuple) else h.type.elts
    for n in names:
        d = dotted(n) or ""
        if d.split(".")[-1] in ("AttributeError", "Exception", "BaseException"):
            return True
    return False


def _is_abstract(fn):
    body = [st for st in fn.body if not (isinstance(st, ast.Expr) and isinstance(st.value, ast.Constant))]
    return len(body) == 1 and isinstance(body[0], ast.Raise)


def qualname(fn, defcls):
    return "%s.%s" % (defcls.name, fn.name) if defcls is not None else fn.name


class _FnRun:
    """One dataflow run of one function for one parameter binding."""

    def __init__(self, an, fn, module, cls, defcls, bind, out, depth):
        self.an, self.fn, self.module, self.cls, self.defcls = an, fn, module, cls, defcls
        self.bind, self.out, self.depth = bind, out, depth
        self.repo = an.repo
        self.parents, self.local_defs, self.attr_try, self.stored = an.fninfo(fn)
        self.cfg = an.flow.cfg(fn)
        self.collect = False
        self._seen = set()
        self.params = set(astq.all_param_names(fn))
        # parameters fixed to a Boolean for this run (model-conformance runs of the validators)
        self.consts = {p: next(iter(v))[1] for p, v in bind.items()
                       if len(v) == 1 and isinstance(next(iter(v)), tuple) and next(iter(v))[0] == "const"}

    # ------------------------------------------------------------------ driver
    def run(self):
        g = self.cfg
        IN = {n.id: None for n in g.nodes}
        IN[g.entry.id] = {p: v for p, v in self.bind.items() if p not in self.consts}
        dirty = {g.entry.id}
        rounds = 0
        while dirty:
            rounds += 1
            if rounds > 20 * len(g.nodes) + 100:
                self.out.und.append(("fixpoint", "dataflow did not converge in %s" % self.fn.name, self.loc(self.fn)))
                break
            todo, dirty = dirty, set()
            for n in g.nodes:
                if n.id not in todo:
                    continue
                env = IN[n.id]
                if env is None:
                    continue
                for s, e in self.transfer(n, env):
                    if e is None:
                        continue
                    new = _join(IN[s.id], e)
                    if new != IN[s.id]:
                        IN[s.id] = new
                        dirty.add(s.id)
        # collection pass on the fixpoint
        self.collect = True
        rets = []
        for n in g.nodes:
            env = IN[n.id]
            if env is None:
                continue
            self.transfer(n, env)
            if n.kind == "return" and n.stmt.value is not None:
                rv = n.stmt.value
                if isinstance(rv, ast.Tuple) and rv.elts:
                    rv = rv.elts[0]
                rets.append(self.eval_value(rv, env))
            if isinstance(n.stmt, ast.Raise):
                self.out.reach_raises.add((self.module.relpath, n.stmt.lineno))
            if n.kind == "stmt" and isinstance(n.stmt, ast.Assign):
                self.record_stores(n.stmt, env)
            for nm, st0 in env.items():
                if any(c in (NP, PD) or c in ROWKINDS for c in st0):
                    self.out.batch_names.add(nm)
            if n.kind == "stmt" and isinstance(n.stmt, (ast.Assign, ast.AugAssign, ast.AnnAssign)):
                tg = n.stmt.targets if isinstance(n.stmt, ast.Assign) else [n.stmt.target]
                for t in tg:
                    for x in ast.walk(t):
                        if isinstance(x, ast.Name) and isinstance(x.ctx, ast.Store):
                            self.out.reach_assign.setdefault(x.id, set()).add((n.stmt.lineno, n.stmt.col_offset))
            if n.kind == "loop" and isinstance(n.stmt, ast.For) and isinstance(n.stmt.iter, ast.Call):
                it0 = n.stmt.iter
                r0 = self.resolve(it0)
                if r0[0] == "ext" and r0[1] == "builtins.range" and not it0.keywords and len(it0.args) in (2, 3) \
                        and self.eval_value(it0.args[1], env) == _fs(("dim", "instances")):
                    start, step = _const_int(it0.args[0]), (_const_int(it0.args[2]) if len(it0.args) == 3 else 1)
                    if (start is not None and start != 0) or (step is not None and step != 1):
                        self.viol4_at("instance-loop@%d:coverage" % n.stmt.lineno if False else "instance-loop:coverage",
                                      "the per-instance loop runs over range(%s) of the instances in %s: the instances are not visited "
                                      "exactly once each (skipped / visited twice through a negative position)" % (", ".join(astq.canon(a) for a in it0.args),
                                                                          qualname(self.fn, self.defcls)), self.loc(n.stmt))
            if n.kind == "loop" and isinstance(n.stmt, ast.For) and self.instance_iter(n.stmt.iter, env):
                loop = n.stmt
                if any(isinstance(x, (ast.Break, ast.Continue)) for b in loop.body for x in astq.walk_no_nested(b)
                       if not _inside_inner_loop(loop, x)):
                    continue
                car = sorted(carried_names(loop.body, _target_names(loop.target)) - _pure_counters(loop.body))
                shared = carried_buffers(self.fn, loop)
                if shared:
                    self.viol4_at("instance-loop#%d:buffer" % (sorted((x.lineno, x.col_offset) for x in astq.walk_no_nested(self.fn)
                                                                      if isinstance(x, ast.For)).index((loop.lineno, loop.col_offset)) + 1),
                                  "the array %s is created before the per-instance loop of %s, partially overwritten for each instance "
                                  "and read back: what an earlier (longer) instance wrote stays in it for the next one" % (
                                      ", ".join(shared), qualname(self.fn, self.defcls)), self.loc(loop))
                ordinal = sorted((x.lineno, x.col_offset) for x in astq.walk_no_nested(self.fn)
                                 if isinstance(x, ast.For)).index((loop.lineno, loop.col_offset)) + 1
                if car:
                    self.viol4_at("instance-loop#%d:state" % ordinal,
                                  "local(s) %s keep their value from the previous instance when the next one is processed in the "
                                  "per-instance loop of %s: output row i depends on the rows before it" % (
                                      ", ".join(car), qualname(self.fn, self.defcls)), self.loc(loop))
                else:
                    self.out.viol4.append(("ok:instance-loop#%d" % ordinal, "", self.loc(loop)))
        self.out.returns = IN[g.exit.id] is not None
        ret = set()
        dims, dims_known = set(), bool(rets)
        for r in rets:
            if r:
                ret |= set(c for c in r if c in (NP, PD))
            if r and all(isinstance(c, tuple) for c in r):
                dims |= set(r)
            else:
                dims_known = False
        self.out.ret = frozenset(ret) if ret else None
        self.out.retdim = frozenset(dims) if dims_known and dims else None

    def record_stores(self, st, env):
        """self.<attr> = <dimension value>  (also through tuple unpacking of the panel's shape)."""
        def put(attr, d):
            known = d is not None and all(isinstance(c, tuple) for c in d)
            if attr in self.out.stores and self.out.stores[attr] is None:
                return
            if not known:
                self.out.stores[attr] = None
            else:
                self.out.stores[attr] = frozenset(self.out.stores.get(attr, frozenset()) | d)

        for t in st.targets:
            if astq.is_self_attr(t):
                put(t.attr, self.eval_value(st.value, env))
            elif isinstance(t, (ast.Tuple, ast.List)):
                parts = self.shape_unpack(t, st.value, env)
                for e, d in zip(t.elts, parts or [None] * len(t.elts)):
                    if astq.is_self_attr(e):
                        put(e.attr, d)

    def shape_unpack(self, t, value, env):
        """Dimension values of `a, b, c = panel.shape` per target position (None when not applicable)."""
        if not (isinstance(value, ast.Attribute) and value.attr == "shape" and isinstance(value.value, ast.Name)):
            return None
        s = env.get(value.value.id)
        if not s or len(s) != 1:
            return None
        (c,) = tuple(s)
        n = len(t.elts)
        if (c == NP and n == 3) or (c == PD and n == 2):
            return [_fs(("dim", DIMKIND[c][i])) for i in range(n)]
        if c in ROWKINDS and n == 2:
            return [_fs(("dim", "instances")), None]
        return None

    def loc(self, node):
        return "%s:%s" % (self.module.relpath, getattr(node, "lineno", "?"))

    # ------------------------------------------------------------------ recording
    def viol(self, key, what, node):
        if self.collect and ("v", key) not in self._seen:
            self._seen.add(("v", key))
            self.out.viol.append((key, what, self.loc(node)))

    def und(self, key, why, node):
        if self.collect and ("u", key) not in self._seen:
            self._seen.add(("u", key))
            self.out.und.append((key, why, self.loc(node)))

    # ------------------------------------------------------------------ transfer
    def transfer(self, node, env):
        """-> list of (successor, env or None)."""
        st = node.stmt
        if not env and not (self.consts and (node.kind == "test" or isinstance(st, ast.Expr))):
            return [(s, env) for s, _ in node.succ]
        raising = {}  # name -> containers for which this node certainly raises AttributeError (caught)
        if node.kind not in ("entry", "exit", "raise"):
            for e in node.exprs:
                if e is not None:
                    self.scan(e, env, node, raising)
        out = dict(env)
        if node.kind == "stmt" or node.kind == "return":
            self.assign(st, env, out)
        elif node.kind == "loop":
            for nm in _target_names(st.target):
                out.pop(nm, None)
            iv = self.index_var_kind(st.iter, env) if isinstance(st.target, ast.Name) else None
            if iv is not None:
                out[st.target.id] = _fs(("idxvar", iv))
        elif node.kind == "with":
            for it in st.items:
                if it.optional_vars is not None:
                    for nm in _target_names(it.optional_vars):
                        out.pop(nm, None)
        normal = out
        if node.kind == "stmt" and isinstance(st, ast.Expr) and isinstance(st.value, ast.Call) and (env or self.consts):
            r0 = self.resolve(st.value)
            if r0[0] == "repo":
                tr = self.tracked_args(r0[1], r0[6], r0[5], env)
                if tr:
                    binds = _singletons(tr)
                    if binds and all(not self.an.summary(r0[1], r0[2], r0[3], r0[4], b0, self.depth + 1).returns for b0 in binds):
                        normal = None
        if raising and normal is not None:
            normal = dict(out)
            for nm, cs in raising.items():
                if nm in normal:
                    rest = frozenset(c for c in normal[nm] if c not in cs)
                    if not rest:
                        normal = None
                        break
                    normal[nm] = rest
        res = []
        for s, label in node.succ:
            if label == "exc":
                res.append((s, dict(env)))
            elif node.kind == "test" and label in (True, False) and normal is not None:
                res.append((s, self.refine(st.test, normal, label)))
            else:
                res.append((s, normal))
        return res

    def assign(self, st, env, out):
        if isinstance(st, ast.Assign):
            for t in st.targets:
                self.bind_target(t, st.value, env, out)
        elif isinstance(st, ast.AnnAssign) and st.value is not None:
            self.bind_target(st.target, st.value, env, out)
        elif isinstance(st, ast.AugAssign):
            for nm in _target_names(st.target):
                out.pop(nm, None)
        elif isinstance(st, ast.Delete):
            for t in st.targets:
                for nm in _target_names(t):
                    out.pop(nm, None)
        elif isinstance(st, (ast.FunctionDef, ast.AsyncFunctionDef, ast.ClassDef)):
            out.pop(st.name, None)
        elif isinstance(st, (ast.Import, ast.ImportFrom)):
            for a in st.names:
                out.pop((a.asname or a.name).split(".")[0], None)
        elif isinstance(st, ast.ExceptHandler) and st.name:
            out.pop(st.name, None)

    def bind_target(self, t, value, env, out):
        if isinstance(t, ast.Name):
            s = self.eval_value(value, env)
            if s:
                out[t.id] = s
            else:
                out.pop(t.id, None)
                # a local that holds a foldable Boolean (a flag alias, `is_frame = isinstance(X, pd.DataFrame)`)
                tv = self.const_of(value, env)
                if tv is not None:
                    out[t.id] = _fs(("const", tv))
        elif isinstance(t, (ast.Tuple, ast.List)):
            if isinstance(value, ast.Call) and self.normaliser(value) is self.an.check_X_y and t.elts:
                s = self.eval_value(value, env)
                first = t.elts[0]
                if isinstance(first, ast.Name):
                    if s:
                        out[first.id] = s
                    else:
                        out.pop(first.id, None)
                for e in t.elts[1:]:
                    for nm in _target_names(e):
                        out.pop(nm, None)
            elif isinstance(value, (ast.Tuple, ast.List)) and len(value.elts) == len(t.elts):
                for te, ve in zip(t.elts, value.elts):
                    self.bind_target(te, ve, env, out)
            elif self.shape_unpack(t, value, env):
                for te, d in zip(t.elts, self.shape_unpack(t, value, env)):
                    if isinstance(te, ast.Name):
                        if d is None:
                            out.pop(te.id, None)
                        else:
                            out[te.id] = d
            else:
                for nm in _target_names(t):
                    out.pop(nm, None)
        # attribute / subscript targets do not rebind a local

    # ------------------------------------------------------------------ values
    def normaliser(self, call):
        """check_X / check_X_y FunctionDef if ``call`` resolves to the panel validators."""
        f = call.func
        base = f.id if isinstance(f, ast.Name) else (dotted(f) or "").split(".")[0]
        if base and self.is_local(base):
            return None
        t = self.an.flow.resolve_call(call, self.module, self.cls, self.defcls)
        if t.kind == "func" and (t.func is self.an.check_X or t.func is self.an.check_X_y):
            return t.func
        return None

    def is_local(self, name):
        return name in self.params or name in self.local_defs or name in self.stored

    def eval_value(self, e, env):
        """Containers of the panel that ``e`` evaluates to, or None when ``e`` is not (known to be) the panel."""
        if isinstance(e, ast.Name):
            return env.get(e.id)
        if isinstance(e, ast.IfExp):
            t = self.truth_env(e.test, env)
            if t is None:
                t = self.const_of(e.test, env)
            parts = []
            if t is not False:
                parts.append(self.eval_value(e.body, env))
            if t is not True:
                parts.append(self.eval_value(e.orelse, env))
            if any(p for p in parts):
                s = set()
                for p in parts:
                    s |= set(p) if p else {U}
                return frozenset(s)
            return None
        if isinstance(e, ast.Call):
            nf = self.normaliser(e)
            if nf is not None:
                e = self.expand_kwargs(e)
                b = astq.bind_call(nf, e)
                if not b or "X" not in b:
                    return None
                s = self.eval_value(b["X"], env)
                if not s:
                    return None
                flags = self.flags(b, e, env)
                if flags is None:
                    return None
                to_np, to_pd = flags
                if to_np and to_pd:
                    return None  # check_X raises
                if to_np:
                    return _fs(NP)
                if to_pd:
                    return _fs(PD)
                return s
            f = e.func
            if isinstance(f, ast.Attribute) and isinstance(f.value, ast.Name) and f.attr in STATE_PRESERVING_METHODS:
                s = env.get(f.value.id)
                if s:
                    keep = frozenset(c for c in s if c == U or c in STATE_PRESERVING_METHODS[f.attr])
                    return keep or None
            r = self.resolve(e)
            if r[0] == "repo" and id(r[1]) in self.an.converters and e.args:
                src, dst = self.an.converters[id(r[1])]
                a0 = self.eval_value(e.args[0], env)
                if a0 == _fs(src):
                    return _fs(dst)
                return None
            if r[0] == "repo":
                _, fn, module, cls, defcls, skip_self, call = r
                tracked = self.tracked_args(fn, call, skip_self, env)
                if tracked:
                    ret = set()
                    for bind in _singletons(tracked):
                        sm = self.an.summary(fn, module, cls, defcls, bind, self.depth + 1)
                        if sm.ret:
                            ret |= set(sm.ret)
                    if ret:
                        return frozenset(ret)
        return self.dim_value(e, env)

    # ------------------------------------------------------------------ dimensions (R3)
    def dim_value(self, e, env):
        """Which axis of the panel a scalar / index denotes: {('dim', kind)} / {('index', kind)} / {('cell',)}."""
        def one(name):
            s = env.get(name)
            if not s or len(s) != 1:
                return None
            return next(iter(s))

        ROWS = ("rows",)
        PROW = ("prow",)
        # --- sub-selections: all instances of some columns ("rows") vs. some instances ("select", "instances")
        if isinstance(e, ast.Subscript) and isinstance(e.value, ast.Name) and one(e.value.id) == NP:
            sl = e.slice
            if isinstance(sl, ast.Tuple) and len(sl.elts) == 2 and isinstance(sl.elts[0], ast.Slice) and sl.elts[0].lower is None \
                    and sl.elts[0].upper is None and sl.elts[0].step is None and not isinstance(sl.elts[1], ast.Slice):
                return _fs(ROWS)  # X[:, key]: the selected columns of every instance
            if not isinstance(sl, (ast.Tuple, ast.Slice)):
                return _fs(("select", "instances"))  # X[key]: the selected instances
        if isinstance(e, ast.Subscript) and isinstance(e.value, ast.Attribute) and e.value.attr == "loc" \
                and isinstance(e.value.value, ast.Name) and one(e.value.value.id) == PD and isinstance(e.slice, ast.Tuple) \
                and len(e.slice.elts) == 2 and isinstance(e.slice.elts[0], ast.Slice) and e.slice.elts[0].lower is None \
                and e.slice.elts[0].upper is None:
            return _fs(PROW)
        # --- values whose first axis is still the instance axis ("rows")
        if isinstance(e, ast.Subscript) and isinstance(e.value, ast.Name) and one(e.value.id) == PD \
                and not isinstance(e.slice, (ast.Slice, ast.Tuple)):
            return _fs(PROW)  # column(s) of a nested frame: one cell per instance, indexed by the row labels
        if isinstance(e, ast.Subscript) and isinstance(e.value, ast.Attribute) and e.value.attr == "iloc" \
                and isinstance(e.value.value, ast.Name) and one(e.value.value.id) == PD and isinstance(e.slice, ast.Tuple) \
                and len(e.slice.elts) == 2 and isinstance(e.slice.elts[0], ast.Slice) and e.slice.elts[0].lower is None \
                and e.slice.elts[0].upper is None and e.slice.elts[0].step is None:
            return _fs(PROW)
        if isinstance(e, ast.Subscript) and isinstance(e.value, ast.Attribute) and e.value.attr == "shape" \
                and isinstance(e.value.value, ast.Name) and one(e.value.value.id) in ROWKINDS and _const_int(e.slice) == 0:
            return _fs(("dim", "instances"))
        if isinstance(e, (ast.ListComp,)) and len(e.generators) == 1 and not e.generators[0].ifs \
                and self.instance_iter(e.generators[0].iter, env):
            return _fs(ROWS)
        if isinstance(e, ast.Call):
            f0 = e.func
            if isinstance(f0, ast.Attribute) and f0.attr == "squeeze" and isinstance(f0.value, ast.Name) \
                    and one(f0.value.id) == NP and len(e.args) == 1 and _const_int(e.args[0]) == 1:
                return _fs(ROWS)
            r0 = self.resolve(e)
            if r0[0] == "repo" and id(r0[1]) in self.an.rows_helpers and e.args:
                a0 = self.eval_value(e.args[0], env)
                if a0 and len(a0) == 1 and (next(iter(a0)) in self.an.rows_helpers[id(r0[1])] or next(iter(a0)) in ROWKINDS):
                    as_numpy = any(k.arg == "return_numpy" and isinstance(k.value, ast.Constant) and k.value.value is True
                                   for k in e.keywords) or self.an.rows_helpers[id(r0[1])] == (NP,)
                    return _fs(ROWS if as_numpy else PROW)
            if r0[0] == "ext" and r0[1] == "pandas.DataFrame" and len(e.args) == 1 and not e.keywords:
                a0 = self.eval_value(e.args[0], env)
                if a0 and len(a0) == 1 and next(iter(a0)) in ROWKINDS:
                    return _fs(PROW)
            if r0[0] == "ext" and r0[1] == "numpy.reshape" and len(e.args) == 2 and isinstance(e.args[0], ast.Name) \
                    and one(e.args[0].id) == NP and isinstance(e.args[1], (ast.Tuple, ast.List)) and e.args[1].elts \
                    and self.eval_value(e.args[1].elts[0], env) == _fs(("dim", "instances")):
                return _fs(ROWS)
            if r0[0] == "ext" and r0[1] == "builtins.len" and len(e.args) == 1 and isinstance(e.args[0], ast.Name) \
                    and one(e.args[0].id) in ROWKINDS:
                return _fs(("dim", "instances"))

        if isinstance(e, ast.Subscript) and isinstance(e.value, ast.Attribute) and isinstance(e.value.value, ast.Name):
            a, base = e.value.attr, one(e.value.value.id)
            if a == "shape" and base is not None:
                kv = _const_int(e.slice)
                if isinstance(kv, int) and not isinstance(kv, bool):
                    if base in ROWKINDS:
                        return _fs(("dim", "instances" if kv == 0 else "other"))
                    if base in (NP, PD) and kv in DIMKIND[base]:
                        return _fs(("dim", DIMKIND[base][kv]))
                    if base == ("cell",) and kv in (0, -1):
                        return _fs(("dim", "time"))
                return None
            if a == "iloc" and base == PD and isinstance(e.slice, ast.Tuple) and len(e.slice.elts) == 2 \
                    and not any(isinstance(x, ast.Slice) for x in e.slice.elts):
                return _fs(("cell",))
            return None
        if isinstance(e, ast.BinOp) and isinstance(e.op, ast.FloorDiv):
            l = self.eval_value(e.left, env)
            if l == _fs(("dim", "instances")):
                return _fs(("dimfloor", astq.canon(self.resolve_local(e.right))))
            return None
        if isinstance(e, ast.BinOp) and isinstance(e.op, ast.Mult):
            for a, b in ((e.left, e.right), (e.right, e.left)):
                va = self.eval_value(a, env)
                if va and len(va) == 1 and next(iter(va))[0] == "dimfloor" \
                        and next(iter(va))[1] == astq.canon(self.resolve_local(b)):
                    # k * (n // k): the largest multiple of k below n -- not the number of instances
                    return _fs(("dim", "instances rounded down to a multiple of %s" % next(iter(va))[1]))
            return None
        if isinstance(e, ast.Attribute) and isinstance(e.value, ast.Name):
            base = one(e.value.id)
            if e.attr == "index" and base == PD:
                return _fs(("index", "instances"))
            if e.attr == "columns" and base == PD:
                return _fs(("index", "columns"))
            if e.attr == "index" and base == ("cell",):
                return _fs(("index", "time"))
            return None
        if isinstance(e, ast.Call):
            r = self.resolve(e)
            if r[0] == "ext":
                ext = r[1]
                if ext in ("builtins.len",) and len(e.args) == 1 and isinstance(e.args[0], ast.Name):
                    base = one(e.args[0].id)
                    if base in (NP, PD):
                        return _fs(("dim", "instances"))
                    if base == ("cell",):
                        return _fs(("dim", "time"))
                    return None
                if ext in ("pandas.RangeIndex", "numpy.arange", "builtins.range") and len(e.args) == 1 and not e.keywords:
                    d = self.eval_value(e.args[0], env)
                    if d and all(isinstance(c, tuple) and c[0] == "dim" for c in d):
                        return frozenset(("index", c[1]) for c in d)
                return None
            if r[0] == "repo":
                _, fn, module, cls, defcls, skip_self, call = r
                tracked = self.tracked_args(fn, call, skip_self, env)
                if tracked:
                    out = set()
                    for bind in _singletons(tracked):
                        sm = self.an.summary(fn, module, cls, defcls, bind, self.depth + 1)
                        if sm.retdim is None:
                            return None
                        out |= set(sm.retdim)
                    return frozenset(out) or None
        return None

    def resolve_local(self, e):
        if isinstance(e, ast.Name):
            vals = astq.assigned_values(self.fn, e.id)
            if len(vals) == 1 and not isinstance(vals[0], ast.Name):
                return e
        return e

    def index_var_kind(self, it, env):
        """`range(D)` / `range(0, D)` with D a known axis length -> that axis ('instances' / 'columns' / 'time' / 'other')."""
        if isinstance(it, ast.Call) and not it.keywords and 1 <= len(it.args) <= 2:
            r = self.resolve(it)
            if r[0] == "ext" and r[1] == "builtins.range" and (len(it.args) == 1 or _const_int(it.args[0]) == 0):
                d = self.eval_value(it.args[-1], env)
                if d and len(d) == 1:
                    (c,) = tuple(d)
                    if isinstance(c, tuple) and c[0] == "dim":
                        return c[1]
            if r[0] == "ext" and r[1] == "builtins.range" and len(it.args) == 2:
                # range(start, stop) between positions of a blocked enumeration: the positions inherit the axis of `start`
                d = self.eval_value(it.args[0], env)
                if d and len(d) == 1 and isinstance(next(iter(d)), tuple) and next(iter(d))[0] == "idxvar":
                    return next(iter(d))[1]
        if isinstance(it, ast.Call) and not it.keywords and len(it.args) == 3 and _const_int(it.args[0]) == 0:
            r = self.resolve(it)
            if r[0] == "ext" and r[1] == "builtins.range":
                d = self.eval_value(it.args[1], env)  # block starts 0, s, 2s, ... below the bound
                if d and len(d) == 1 and isinstance(next(iter(d)), tuple) and next(iter(d))[0] == "dim":
                    return next(iter(d))[1]
        return None

    def axisless_squeeze(self, call, env):
        """np.squeeze(P[...]) / P[...].squeeze() without an axis on (a slice of) the 3-d numpy panel removes *every* axis of
        length one -- also the instance axis of a one-instance batch or the time axis of a one-point window."""
        f = call.func
        subject = None
        if isinstance(f, ast.Attribute) and f.attr == "squeeze" and not call.args and not call.keywords:
            subject = f.value
        else:
            r = self.resolve(call) if isinstance(f, (ast.Attribute, ast.Name)) else ("",)
            if r[0] == "ext" and r[1] == "numpy.squeeze" and len(call.args) == 1 and not call.keywords:
                subject = call.args[0]
        if subject is None:
            return
        root = subject.value if isinstance(subject, ast.Subscript) else subject
        if isinstance(root, ast.Name) and env.get(root.id) == _fs(NP) and (
                root is subject or (isinstance(subject.slice, ast.Tuple) and all(isinstance(x, ast.Slice) for x in subject.slice.elts))):
            self.viol4_at("squeeze-all-axes", "%s squeezes the panel without naming the axis: a batch with one instance (or a window "
                          "with one time point) loses that axis too, so the result for a single instance is computed along another "
                          "axis than in the batch; use squeeze(1)" % astq.canon(call)[:60], self.loc(call))

    def index_use(self, sub, env):
        """panel[i] / panel[i, ...] / panel.iloc[i, ...] with i a loop variable over another axis than the instances."""
        base, idx = sub.value, sub.slice
        first = idx.elts[0] if isinstance(idx, ast.Tuple) and idx.elts else idx
        if not isinstance(first, ast.Name):
            return
        st = env.get(first.id)
        if not st or len(st) != 1:
            return
        (c,) = tuple(st)
        if not (isinstance(c, tuple) and c[0] == "idxvar"):
            return
        holder = base.value if isinstance(base, ast.Attribute) and base.attr == "iloc" else base
        if not isinstance(holder, ast.Name):
            return
        hs0 = env.get(holder.id)
        if holder is base and hs0 == _fs(("prow",)) and isinstance(c, tuple) and c[0] == "idxvar" and not isinstance(idx, ast.Tuple):
            self.viol4_at("label-lookup", "%s looks the instance up by *label* in a pandas object (rows of a nested frame), but %s is a "
                          "position 0..n-1: for a frame whose row index is not 0..n-1 another instance (or a KeyError) is taken in %s; "
                          "use .iloc" % (astq.canon(sub)[:50], first.id, qualname(self.fn, self.defcls)), self.loc(sub),)
            return
        hs = env.get(holder.id)
        if not hs or len(hs) != 1:
            return
        (h,) = tuple(hs)
        if c[1] == "instances":
            return
        positional_first_axis = (h == NP and holder is base) or (h == ("rows",) and holder is base) or (
            h == PD and holder is not base)
        if positional_first_axis:
            self.viol4_at("instance-index:%s" % c[1],
                          "%s selects an instance by position, but the position runs over the %s axis (its loop is range over a "
                          "length that is not the number of instances): instances are skipped / read out of range in %s"
                          % (astq.canon(sub)[:50], c[1], qualname(self.fn, self.defcls)), self.loc(sub))

    def instance_iter(self, it, env):
        """Does iterating ``it`` visit the instances of the batch one by one?"""
        v = self.eval_value(it, env) if not isinstance(it, ast.Call) else None
        if v is not None and (v == _fs(("rows",)) or v == _fs(("prow",)) or v == _fs(NP)):
            return True
        if isinstance(it, ast.Call):
            r = self.resolve(it)
            if r[0] == "ext" and r[1] == "builtins.range" and not it.keywords and 1 <= len(it.args) <= 2:
                if len(it.args) == 2 and _const_int(it.args[0]) != 0:
                    return False
                return self.eval_value(it.args[-1], env) == _fs(("dim", "instances"))
            if r[0] == "ext" and r[1] in ("builtins.enumerate", "builtins.zip") and it.args:
                return any(self.instance_iter(a, env) for a in it.args)
            v = self.eval_value(it, env)
            return v is not None and (v == _fs(("rows",)) or v == _fs(("prow",)))
        return False

    def dcall(self, call, env):
        """A repo callee that receives derived batch values (rows / cells / dimensions) but not the panel name itself."""
        r = self.resolve(call)
        if r[0] != "repo":
            return
        _, fn, module, cls, defcls, skip_self, rcall = r
        if id(fn) in self.an.rows_helpers:
            return
        tracked = self.tracked_args(fn, rcall, skip_self, env)
        if not tracked:
            return
        qn = qualname(fn, defcls if fn.name not in self.local_defs else None)
        for bind in _singletons(tracked):
            sm = self.an.summary(fn, module, cls, defcls, bind, self.depth + 1)
            for k, what, loc in sm.viol:
                self.viol_at("%s>%s" % (qn, k), "%s (reached through %s)" % (what, qn), loc)
            for k, why, loc in sm.und:
                self.und_at("%s>%s" % (qn, k), why, loc)
            for k, what, loc in sm.viol4:
                self.viol4_at("%s>%s" % (qn, k), "%s (reached through %s)" % (what, qn), loc)
            self.out.reach_raises |= sm.reach_raises

    def viol4_at(self, key, what, loc):
        if self.collect and ("4", key) not in self._seen:
            self._seen.add(("4", key))
            self.out.viol4.append((key, what, loc))

    def expand_kwargs(self, call):
        """f(a, **opts) with `opts` a dict literal of string keys assigned once  ->  f(a, k1=v1, ...)."""
        stars = [k for k in call.keywords if k.arg is None]
        if len(stars) != 1 or not isinstance(stars[0].value, ast.Name):
            return call
        vals = astq.assigned_values(self.fn, stars[0].value.id)
        if len(vals) != 1 or not isinstance(vals[0], ast.Dict) or not all(
                isinstance(k, ast.Constant) and isinstance(k.value, str) for k in vals[0].keys):
            return call
        kws = [k for k in call.keywords if k.arg is not None] + [ast.keyword(arg=k.value, value=v)
                                                                  for k, v in zip(vals[0].keys, vals[0].values)]
        new = ast.Call(func=call.func, args=call.args, keywords=kws)
        return ast.copy_location(new, call)

    def const_of(self, e, env):
        """Boolean value of ``e`` when it folds the same way for everything the environment allows, else None."""
        if isinstance(e, ast.Name):
            st = env.get(e.id)
            if st and len(st) == 1 and isinstance(next(iter(st)), tuple) and next(iter(st))[0] == "const":
                return next(iter(st))[1]
            if e.id in self.consts and e.id not in self.stored:
                return self.consts[e.id]
            return None
        if isinstance(e, (ast.Call, ast.Compare, ast.BoolOp, ast.UnaryOp)):
            t = self.truth_env(e, env)
            if t is None and self.consts:
                t = self.truth(e, None, None)
            return t
        return None

    def flags(self, b, call, env=None):
        out = []
        for p in ("coerce_to_numpy", "coerce_to_pandas"):
            v = b.get(p)
            if v is None:
                out.append(False)
            elif isinstance(v, ast.Constant) and isinstance(v.value, bool):
                out.append(v.value)
            elif isinstance(v, ast.Name) and self.const_of(v, env or {}) is not None:
                out.append(self.const_of(v, env or {}))
            else:
                self.und("check_X:%s" % p, "coercion flag %s is not a literal: %s" % (p, ast.unparse(v)), call)
                return None
        if "**" in b or "*" in b:
            self.und("check_X:star", "star arguments in a check_X call", call)
            return None
        return out

    def tracked_args(self, fn, call, skip_self, env):
        b = astq.bind_call(fn, call, skip_self)
        if b is None:
            return None
        out = {}
        for p, v in b.items():
            if isinstance(v, ast.AST) and p not in ("*", "**"):
                s = self.eval_value(v, env)
                if s:
                    out[p] = s
                elif self.consts or any(isinstance(c, tuple) and c[0] == "const" for st0 in env.values() for c in st0):
                    cv = self.const_of(v, env) if isinstance(v, (ast.Name, ast.Constant)) else None
                    if isinstance(v, ast.Constant) and isinstance(v.value, bool):
                        cv = v.value
                    if cv is not None:
                        out[p] = _fs(("const", cv))
        return out

    # ------------------------------------------------------------------ tests
    def truth(self, test, name, c):
        """Truth of ``test`` when tracked ``name`` holds container ``c`` (True/False/None)."""
        if isinstance(test, ast.UnaryOp) and isinstance(test.op, ast.Not):
            t = self.truth(test.operand, name, c)
            return None if t is None else (not t)
        if isinstance(test, ast.BoolOp):
            vals = [self.truth(v, name, c) for v in test.values]
            if isinstance(test.op, ast.And):
                if any(v is False for v in vals):
                    return False
                return True if all(v is True for v in vals) else None
            if any(v is True for v in vals):
                return True
            return False if all(v is False for v in vals) else None
        if isinstance(test, ast.Name) and test.id == name and isinstance(c, tuple) and c and c[0] == "const":
            return c[1]
        if isinstance(test, ast.Name) and test.id in self.consts and test.id not in self.stored:
            return self.consts[test.id]
        if isinstance(test, ast.Constant) and isinstance(test.value, bool):
            return test.value
        if isinstance(test, ast.Compare) and len(test.ops) == 1 and isinstance(test.ops[0], (ast.Eq, ast.NotEq)) and c in (NP, PD):
            for a, b in ((test.left, test.comparators[0]), (test.comparators[0], test.left)):
                if isinstance(a, ast.Attribute) and a.attr == "ndim" and isinstance(a.value, ast.Name) and a.value.id == name \
                        and _const_int(b) is not None:
                    eq = ({NP: 3, PD: 2}[c] == _const_int(b))
                    return eq if isinstance(test.ops[0], ast.Eq) else not eq
        if isinstance(test, ast.Call) and len(test.args) == 1 and isinstance(test.args[0], ast.Name) and test.args[0].id == name \
                and c in (NP, PD) and not test.keywords:
            base = test.func.id if isinstance(test.func, ast.Name) else (dotted(test.func) or "").split(".")[0]
            if base and not self.is_local(base):
                sym = self.repo.resolve_expr(self.module, test.func)
                if sym is not None and sym.kind == "func" and sym.target is self.an.is_nested:
                    return c == PD  # a valid panel frame is a nested frame; an array is not a frame
        if isinstance(test, ast.Call) and isinstance(test.func, ast.Name) and not self.is_local(test.func.id):
            if test.func.id == "isinstance" and len(test.args) == 2 and isinstance(test.args[0], ast.Name) \
                    and test.args[0].id == name:
                kinds = self.type_kinds(test.args[1])
                if kinds is None:
                    return None
                return c in kinds
            if test.func.id == "hasattr" and len(test.args) == 2 and isinstance(test.args[0], ast.Name) \
                    and test.args[0].id == name and isinstance(test.args[1], ast.Constant):
                a = test.args[1].value
                if a in PANDAS_ONLY_ATTRS:
                    return c == PD
                if a in NUMPY_MISSING_ON_PANDAS:
                    return c == NP
                if a in NEUTRAL_ATTRS or a in NUMPY_MEANING_ATTRS:
                    return True
        return None

    def type_kinds(self, texpr):
        """Set of panel containers matched by a type expression; None when unknown."""
        elts = texpr.elts if isinstance(texpr, (ast.Tuple, ast.List)) else [texpr]
        kinds = set()
        for t in elts:
            sym = self.repo.resolve_expr(self.module, t)
            if sym is not None and sym.kind == "const" and isinstance(sym.target, (ast.Tuple, ast.List)):
                sub = self.type_kinds_in(sym.module, sym.target)
                if sub is None:
                    return None
                kinds |= sub
                continue
            d = sym.dotted if sym is not None else None
            if d in ("pandas.DataFrame", "pandas.core.frame.DataFrame"):
                kinds.add(PD)
            elif d in ("numpy.ndarray",):
                kinds.add(NP)
            elif d in ("pandas.Series", "pandas.core.series.Series", "builtins.list", "list", "tuple", "dict", "str",
                       "int", "float"):
                pass
            else:
                return None
        return kinds

    def type_kinds_in(self, module, texpr):
        saved = self.module
        self.module = module
        try:
            return self.type_kinds(texpr)
        finally:
            self.module = saved

    def truth_env(self, test, env):
        """Truth of a test under the whole environment (only when it folds the same way for every
        container of every tracked name it mentions)."""
        vals = set()
        names = {n.id for n in ast.walk(test) if isinstance(n, ast.Name) and n.id in env}
        if not names:
            return None
        for nm in names:
            for c in env[nm]:
                if c == U or (isinstance(c, tuple) and c[0] != "const"):
                    return None
                vals.add(self.truth(test, nm, c))
        if len(vals) == 1:
            return vals.pop()
        return None

    def refine(self, test, env, branch):
        names = {n.id for n in ast.walk(test) if isinstance(n, ast.Name) and n.id in env}
        if not names:
            if self.consts:
                t = self.truth(test, None, None)
                if t is not None and t != branch:
                    return None
            return env
        out = dict(env)
        for nm in names:
            keep = set()
            for c in env[nm]:
                if c == U or (isinstance(c, tuple) and c[0] != "const"):
                    keep.add(c)
                    continue
                t = self.truth(test, nm, c)
                if t is None or t == branch:
                    keep.add(c)
            if not keep:
                return None
            out[nm] = frozenset(keep)
        return out

    # ------------------------------------------------------------------ uses
    def scan(self, expr, env, node, raising):
        """Visit every load of a tracked name inside ``expr`` (pruning folded-dead sub-expressions)."""
        if not env:
            return

        def visit(n, env=env):
            if isinstance(n, ast.IfExp):
                t = self.truth_env(n.test, env)
                visit(n.test, env)
                if t is not False:
                    visit(n.body, env)
                if t is not True:
                    visit(n.orelse, env)
                return
            if isinstance(n, ast.BoolOp):
                for v in n.values:
                    visit(v, env)
                    t = self.truth_env(v, env)
                    if (isinstance(n.op, ast.And) and t is False) or (isinstance(n.op, ast.Or) and t is True):
                        break
                return
            if isinstance(n, (ast.FunctionDef, ast.AsyncFunctionDef, ast.ClassDef)):
                return
            if isinstance(n, ast.Lambda):
                shadow = set(astq.all_param_names(n)) if hasattr(n, "args") else set()
                if any(isinstance(x, ast.Name) and x.id in env and x.id not in shadow
                       and any(c in (NP, PD) for c in env[x.id]) for x in ast.walk(n.body)):
                    self.und("lambda", "panel captured by a lambda", n)
                return
            if isinstance(n, (ast.ListComp, ast.SetComp, ast.GeneratorExp, ast.DictComp)):
                inner = env
                for gen in n.generators:
                    for nm in _target_names(gen.target):
                        if nm in env and any(c in (NP, PD) for c in env[nm]):
                            self.und("comprehension-shadow", "comprehension variable shadows the panel name %s" % nm, n)
                            return
                    visit(gen.iter, inner)
                    iv = self.index_var_kind(gen.iter, inner) if isinstance(gen.target, ast.Name) else None
                    inner = dict(inner)
                    for nm in _target_names(gen.target):
                        inner.pop(nm, None)
                    if iv is not None:
                        inner[gen.target.id] = _fs(("idxvar", iv))
                    for cond in gen.ifs:
                        visit(cond, inner)
                if isinstance(n, ast.DictComp):
                    visit(n.key, inner)
                    visit(n.value, inner)
                else:
                    visit(n.elt, inner)
                return
            if isinstance(n, ast.Name):
                if isinstance(n.ctx, ast.Load) and n.id in env:
                    self.use(n, env, node, raising)
                return
            for ch in ast.iter_child_nodes(n):
                visit(ch, env)
            if isinstance(n, ast.Subscript) and self.collect:
                self.index_use(n, env)
            if isinstance(n, ast.Call) and self.collect:
                self.axisless_squeeze(n, env)
            if isinstance(n, ast.Call) and self.collect:
                direct = [a for a in list(n.args) + [k.value for k in n.keywords] if isinstance(a, ast.Name) and a.id in env
                          and any(c in (NP, PD) for c in env[a.id])]
                if not direct:
                    self.dcall(n, env)

        visit(expr)

    def parent(self, n):
        return self.parents.get(id(n))

    def use(self, name, env, node, raising):
        states = [c for c in env[name.id] if c in (NP, PD)]
        if not states:
            return
        self.out.used = True
        p = self.parent(name)
        # --- attribute access ---------------------------------------------------------------
        if isinstance(p, ast.Attribute) and p.value is name:
            self.attr_use(name, p, states, node, raising)
            return
        # --- subscript ----------------------------------------------------------------------
        if isinstance(p, ast.Subscript) and p.value is name:
            idx = p.slice
            if isinstance(idx, ast.Tuple):
                if PD in states:
                    self.viol("panel[multi-axis]", "multi-axis subscript %s on a nested DataFrame (numpy-only use; "
                              "the panel is not coerced to numpy on this path)" % ast.unparse(p), p)
                return
            if isinstance(idx, ast.Slice):
                return  # row slice in both containers
            if PD in states and self.is_row_index(idx, set(env)):
                self.viol("panel[row-index]", "positional instance subscript %s on a nested DataFrame selects a column, "
                          "not an instance (numpy-only use without numpy coercion)" % ast.unparse(p), p)
            return
        # --- call argument ------------------------------------------------------------------
        if isinstance(p, ast.Call) and (name in p.args or any(k.value is name for k in p.keywords)):
            self.call_use(name, p, env, states, node)
            return
        if isinstance(p, ast.keyword):
            pp = self.parent(p)
            if isinstance(pp, ast.Call):
                self.call_use(name, pp, env, states, node)
                return
        if isinstance(p, ast.Starred):
            self.und("star-arg", "panel passed as a star argument", p)
            return
        # --- neutral contexts ---------------------------------------------------------------
        if isinstance(p, (ast.Return, ast.Assign, ast.AnnAssign, ast.Expr)):
            return
        if isinstance(p, ast.Compare):
            ops_ok = all(isinstance(o, (ast.Is, ast.IsNot)) for o in p.ops)
            if ops_ok:
                return
            self.und("compare", "panel used in a comparison %s" % ast.unparse(p), p)
            return
        if isinstance(p, (ast.For, ast.comprehension)) and getattr(p, "iter", None) is name:
            return  # iteration: instances (numpy) / column labels (pandas); no exact verdict
        if isinstance(p, (ast.Tuple, ast.List)):
            pp = self.parent(p)
            if isinstance(pp, ast.Return) or (isinstance(pp, ast.Assign) and pp.value is p):
                return
            self.und("packed", "panel packed into a literal %s" % ast.unparse(p)[:60], p)
            return
        if isinstance(p, ast.IfExp) and p.test is not name:
            return
        if isinstance(p, ast.If) or isinstance(p, ast.While) or isinstance(p, ast.UnaryOp) or isinstance(p, ast.BoolOp) \
                or (isinstance(p, ast.IfExp) and p.test is name):
            self.und("truth", "truth value of the panel", p)
            return
        self.und("use:%s" % type(p).__name__, "unclassified use of the panel: %s" % ast.unparse(p)[:80], p)

    def is_row_index(self, idx, pnames):
        """idx is a loop variable over range(.., B) with B == len(panel) / panel.shape[0] (any tracked name)."""
        if not isinstance(idx, ast.Name):
            return False
        for n in astq.walk_no_nested(self.fn):
            it = None
            if isinstance(n, ast.For) and isinstance(n.target, ast.Name) and n.target.id == idx.id:
                it = n.iter
            elif isinstance(n, ast.comprehension) and isinstance(n.target, ast.Name) and n.target.id == idx.id:
                it = n.iter
            if it is None:
                continue
            if isinstance(it, ast.Call) and isinstance(it.func, ast.Name) and it.func.id == "range" and it.args \
                    and not it.keywords and len(it.args) <= 2:
                cands = {astq.canon(it.args[-1])}
                if isinstance(it.args[-1], ast.Name):
                    vals = astq.assigned_values(self.fn, it.args[-1].id)
                    if len(vals) == 1:
                        cands.add(astq.canon(vals[0]))
                if any(c in ("len(%s)" % pn, "%s.shape[0]" % pn) for pn in pnames for c in cands):
                    return True
        return False

    def attr_use(self, name, p, states, node, raising):
        a = p.attr
        gp = self.parent(p)
        if a == "shape":
            # X.shape[k]
            if isinstance(gp, ast.Subscript) and gp.value is p:
                kv = _const_int(gp.slice)
                if isinstance(kv, int) and not isinstance(kv, bool) and (kv >= 2 or kv <= -3) and PD in states:
                    self.viol("panel.shape[%d]" % kv, "shape[%d] of a nested DataFrame does not exist (the time axis is only "
                              "an axis of the 3-d numpy container)" % kv, gp)
                return
            # a, b, c = X.shape
            if isinstance(gp, ast.Assign) and gp.value is p:
                for t in gp.targets:
                    if isinstance(t, (ast.Tuple, ast.List)) and not any(isinstance(e, ast.Starred) for e in t.elts):
                        n = len(t.elts)
                        if n == 3 and PD in states:
                            self.viol("panel.shape[3-unpack]", "3-tuple unpacking of the shape of a nested DataFrame "
                                      "(numpy-only use without numpy coercion)", gp)
                        elif n == 2 and NP in states:
                            self.viol("panel.shape[2-unpack]", "2-tuple unpacking of the shape of a 3-d numpy panel "
                                      "(pandas-only use without pandas coercion)", gp)
                        elif n not in (2, 3):
                            self.viol("panel.shape[%d-unpack]" % n, "shape of a panel unpacked into %d names" % n, gp)
            return
        if a in NEUTRAL_ATTRS:
            return
        inside_try = self.attr_try.get(id(node.stmt), False) if node.stmt is not None else False
        if a in PANDAS_ONLY_ATTRS:
            if NP in states:
                if inside_try:
                    raising.setdefault(name.id, set()).add(NP)
                else:
                    self.viol("panel.%s" % a, "pandas-only use .%s on a panel that is a 3-d numpy array on this path "
                              "(not coerced with coerce_to_pandas=True)" % a, p)
            return
        if a in NUMPY_MISSING_ON_PANDAS or a in NUMPY_MEANING_ATTRS:
            if PD in states:
                if inside_try and a in NUMPY_MISSING_ON_PANDAS:
                    raising.setdefault(name.id, set()).add(PD)
                else:
                    self.viol("panel.%s" % a, "numpy-only use .%s on a panel that is a nested DataFrame on this path "
                              "(not coerced with coerce_to_numpy=True)" % a, p)
            return
        self.und("panel.%s" % a, "attribute .%s of the panel is not in the container tables" % a, p)

    # ------------------------------------------------------------------ calls
    def resolve(self, call):
        """-> ('normaliser',) | ('repo', fn, module, cls, defcls, skip_self, call) | ('ext', dotted, req)
              | ('attr', name) | ('callback', name) | ('unknown', text)"""
        f = call.func
        if isinstance(f, ast.Call) and not f.keywords and len(f.args) == 1:
            inner = self.an.flow.resolve_call(f, self.module, self.cls, self.defcls)
            base = f.func.id if isinstance(f.func, ast.Name) else None
            if inner.kind == "ext" and inner.ext in DELAYED and not (base and self.is_local(base)):
                fake = ast.Call(func=f.args[0], args=call.args, keywords=call.keywords)
                ast.copy_location(fake, call)
                return self.resolve(fake)
        if self.normaliser(call) is not None:
            return ("normaliser",)
        if isinstance(f, ast.Name):
            if f.id in self.local_defs:
                return ("repo", self.local_defs[f.id], self.module, self.cls, self.defcls, False, call)
            if self.is_local(f.id):
                return ("callback", f.id)
        if isinstance(f, ast.Attribute):
            v = f.value
            is_self = isinstance(v, ast.Name) and v.id == "self" and self.cls is not None and "self" in self.params
            is_super = isinstance(v, ast.Call) and dotted(v.func) == "super" and self.cls is not None \
                and self.defcls is not None
            if is_self or is_super:
                hit = self.an.lookup(self.cls, f.attr, after=self.defcls if is_super else None)
                if hit is None:
                    return ("attr", f.attr)
                if hit[0] == "repo":
                    k, fn = hit[1], hit[2]
                    return ("repo", fn, k.module, self.cls, k, not k.is_static(f.attr), call)
                if hit[0] == "ext":
                    return ("ext", hit[1] + "." + f.attr, hit[2])
                return ("unknown", "method %s of external base %s" % (f.attr, hit[1]))
            base = (dotted(f) or "").split(".")[0]
            if not base or self.is_local(base) or base == "self":
                return ("attr", f.attr)
        t = self.an.flow.resolve_call(call, self.module, self.cls, self.defcls)
        if t.kind == "func" and t.func is not None:
            if t.defcls is not None:
                if not t.defcls.is_static(t.name):
                    return ("unknown", "method %s.%s called through its class" % (t.defcls.name, t.name))
                return ("repo", t.func, t.module, None, t.defcls, False, call)
            return ("repo", t.func, t.module, None, None, False, call)
        if t.kind == "ext":
            return ("ext", t.ext, "?")
        if t.kind == "attr":
            return ("attr", t.name)
        if t.kind == "class":
            return ("unknown", "constructor of %s" % t.cls.name)
        if t.kind == "unknown" and isinstance(f, ast.Name) and f.id in BUILTINS:
            return ("ext", "builtins." + f.id, "?")
        return ("unknown", ast.unparse(f)[:60])

    def call_use(self, name, call, env, states, node):
        r = self.resolve(call)
        kind = r[0]
        if kind == "normaliser":
            return
        if kind == "repo":
            _, fn, module, cls, defcls, skip_self, rcall = r
            tracked = self.tracked_args(fn, rcall, skip_self, env)
            if tracked is None:
                self.und("call:%s" % fn.name, "cannot bind the arguments of %s" % ast.unparse(call)[:80], call)
                return
            if not tracked:
                self.und("call:%s" % fn.name, "panel reaches %s through a star argument" % fn.name, call)
                return
            qn = qualname(fn, defcls if fn.name not in self.local_defs else None)
            for bind in _singletons(tracked):
                sm = self.an.summary(fn, module, cls, defcls, bind, self.depth + 1)
                for k, what, loc in sm.viol:
                    self.viol_at("%s>%s" % (qn, k), "%s (reached through %s)" % (what, qn), loc)
                for k, why, loc in sm.und:
                    self.und_at("%s>%s" % (qn, k), why, loc)
                for k, what, loc in sm.viol4:
                    self.viol4_at("%s>%s" % (qn, k), "%s (reached through %s)" % (what, qn), loc)
                self.out.reach_raises |= sm.reach_raises
                if not sm.returns and len(bind) == 1 and all(x in (NP, PD) for s0 in bind.values() for x in s0):
                    (p, s), = bind.items()
                    (c,) = tuple(s)
                    other = self.an.summary(fn, module, cls, defcls, {p: _fs(OTHER[c])}, self.depth + 1)
                    if other.returns:
                        self.viol("call:%s[rejects-%s]" % (qn, c), "%s never returns normally for a %s panel but does for a %s "
                                  "panel: the panel reaches it in the wrong container" % (qn, c, OTHER[c]), call)
            return
        if kind == "ext":
            ext, req = r[1], r[2]
            if req in (NP, PD):
                bad = [c for c in states if c != req]
                if bad:
                    self.viol("ext:%s" % ext, "%s is handed a %s panel; it needs the %s container (the panel is not "
                              "normalised with check_X on this path)" % (ext, bad[0], req), call)
                return
            if req is None:
                self.und("ext:%s" % ext, "panel handed to external method %s" % ext, call)
                return
            if ext in NEUTRAL_EXT:
                return
            top = ext.split(".")[0]
            if top in ("numpy", "scipy"):
                if PD in states:
                    self.viol("ext:%s" % ext, "%s applied to a panel that is a nested DataFrame on this path (numpy-only use "
                              "without numpy coercion)" % ext, call)
                return
            if ext in ("pandas.DataFrame", "pandas.concat"):
                if NP in states:
                    self.viol("ext:%s" % ext, "%s applied to a 3-d numpy panel (pandas-only use without pandas coercion)"
                              % ext, call)
                return
            self.und("ext:%s" % ext, "panel handed to external callable %s" % ext, call)
            return
        if kind == "attr":
            if r[1] in ENTRY:
                return  # delegation to an inner estimator that normalises its own input
            self.und("attr-call:%s" % r[1], "panel handed to %s" % ast.unparse(call.func)[:60], call)
            return
        if kind == "callback":
            if self.guarded_by_callable(call, r[1]):
                return  # user-supplied callable
            self.und("callback:%s" % r[1], "panel handed to local callable %s" % r[1], call)
            return
        self.und("call:unknown", "panel handed to %s" % r[1], call)

    def viol_at(self, key, what, loc):
        if self.collect and ("v", key) not in self._seen:
            self._seen.add(("v", key))
            self.out.viol.append((key, what, loc))

    def und_at(self, key, why, loc):
        if self.collect and ("u", key) not in self._seen:
            self._seen.add(("u", key))
            self.out.und.append((key, why, loc))

    def guarded_by_callable(self, call, name):
        n = call
        while n is not None:
            par = self.parents.get(id(n))
            if isinstance(par, ast.IfExp) and par.body is n and isinstance(par.test, ast.Call) and isinstance(par.test.func, ast.Name) \
                    and par.test.func.id == "callable" and len(par.test.args) == 1 and isinstance(par.test.args[0], ast.Name) \
                    and par.test.args[0].id == name:
                return True
            n = par
        for st in astq.enclosing_stmts(self.fn, call):
            if isinstance(st, ast.If) and isinstance(st.test, ast.Call) and isinstance(st.test.func, ast.Name) \
                    and st.test.func.id == "callable" and len(st.test.args) == 1 \
                    and isinstance(st.test.args[0], ast.Name) and st.test.args[0].id == name \
                    and any(n is call for b in st.body for n in ast.walk(b)):
                return True
        return False


def _const_int(e):
    """Integer value of a literal expression (constants folded through unary minus and + - *)."""
    if isinstance(e, ast.Constant) and isinstance(e.value, int) and not isinstance(e.value, bool):
        return e.value
    if isinstance(e, ast.UnaryOp) and isinstance(e.op, ast.USub):
        v = _const_int(e.operand)
        return -v if v is not None else None
    if isinstance(e, ast.BinOp) and isinstance(e.op, (ast.Add, ast.Sub, ast.Mult)):
        a, b = _const_int(e.left), _const_int(e.right)
        if a is None or b is None:
            return None
        return a + b if isinstance(e.op, ast.Add) else (a - b if isinstance(e.op, ast.Sub) else a * b)
    return None


def _inside_inner_loop(loop, x):
    for st in loop.body:
        for inner in astq.walk_no_nested(st):
            if isinstance(inner, (ast.For, ast.While)) and any(y is x for y in ast.walk(inner)):
                return True
    return False


def _pure_counters(body):
    """Names that the loop body only ever changes by `name += <constant>`: position counters, independent of the data."""
    binds = {}
    for st in body:
        for x in astq.walk_no_nested(st):
            if isinstance(x, ast.AugAssign) and isinstance(x.target, ast.Name):
                ok = isinstance(x.op, (ast.Add, ast.Sub)) and isinstance(x.value, ast.Constant)
                binds.setdefault(x.target.id, []).append(ok)
            elif isinstance(x, ast.Name) and isinstance(x.ctx, ast.Store):
                par_aug = False
                binds.setdefault(x.id, []).append(None)
    out = set()
    for nm, kinds in binds.items():
        real = [k for k in kinds if k is not None]
        # an AugAssign target also shows up as a Store name: one None per AugAssign
        if real and all(real) and kinds.count(None) == len(real):
            out.add(nm)
    return out


def carried_buffers(fn, loop):
    """Names bound (to a fresh array) before the loop whose elements are stored inside the loop at positions that are not the
    loop's own instance position, and which are read inside the loop: a buffer shared by all instances."""
    bound_inside = {x.id for b in loop.body for x in ast.walk(b) if isinstance(x, ast.Name) and isinstance(x.ctx, ast.Store)}
    own = set(_target_names(loop.target))
    out = []
    store_roots = {}
    for b in loop.body:
        for n in ast.walk(b):
            tgts = n.targets if isinstance(n, ast.Assign) else ([n.target] if isinstance(n, ast.AugAssign) else [])
            for t in tgts:
                if not isinstance(t, ast.Subscript):
                    continue
                chain = t
                while isinstance(chain.value, ast.Subscript):
                    chain = chain.value
                root = chain.value
                if not isinstance(root, ast.Name) or root.id in bound_inside or root.id in own:
                    continue
                idx = chain.slice
                first = idx.elts[0] if isinstance(idx, ast.Tuple) and idx.elts else idx
                at_own_position = isinstance(first, ast.Name) and (first.id in own or first.id in bound_inside)
                store_roots.setdefault(root.id, []).append((at_own_position, t))
    for name, stores in store_roots.items():
        if all(o for o, _ in stores):
            continue
        inits = astq.assigned_values(fn, name)
        fresh = len(inits) == 1 and isinstance(inits[0], ast.Call) and (dotted(inits[0].func) or "").split(".")[-1] in (
            "full", "zeros", "empty", "ones", "array", "zeros_like", "empty_like", "full_like")
        if not fresh:
            continue
        store_ids = {id(x) for _, t in stores for x in ast.walk(t)}
        reads = [x for b in loop.body for x in ast.walk(b) if isinstance(x, ast.Name) and x.id == name and isinstance(x.ctx, ast.Load)
                 and id(x) not in store_ids]
        if reads:
            out.append(name)
    return sorted(out)


class _BodyFn:
    """Minimal FunctionDef stand-in so that a loop body can be given to CFG."""
    def __init__(self, body):
        self.body = body


_CARRIED = {}


def _rw(node):
    """(names read, names bound) at a CFG node."""
    reads, writes = set(), set()
    st = node.stmt
    for e in node.exprs:
        if e is None:
            continue
        scoped = set()
        for x in ast.walk(e):
            if isinstance(x, ast.comprehension):
                scoped |= set(_target_names(x.target))
            elif isinstance(x, ast.Lambda):
                scoped |= {a.arg for a in x.args.args}
        for x in ast.walk(e):
            if isinstance(x, ast.Name) and x.id not in scoped:
                (reads if isinstance(x.ctx, ast.Load) else writes).add(x.id)
    if isinstance(st, ast.AugAssign) and isinstance(st.target, ast.Name):
        reads.add(st.target.id)
        writes.add(st.target.id)
    if node.kind == "loop" and isinstance(st, ast.For):
        writes |= set(_target_names(st.target))
    if node.kind == "with":
        for it in st.items:
            if it.optional_vars is not None:
                writes |= set(_target_names(it.optional_vars))
    if isinstance(st, (ast.FunctionDef, ast.AsyncFunctionDef, ast.ClassDef)):
        writes.add(st.name)
    return reads, writes


def carried_names(body, bound=()):
    """Locals whose value can flow from one iteration of a loop body into the next: bound in the body and read on some
    path before being bound in the same iteration."""
    from ..cfg import CFG
    key = id(body)
    if key in _CARRIED and _CARRIED[key][0] is body:
        return _CARRIED[key][1]
    g = CFG(_BodyFn(body))
    rw = {n.id: _rw(n) for n in g.nodes}
    assigned = set()
    for r, w in rw.values():
        assigned |= w
    reach = g.reachable()
    out = set()
    for name in assigned - set(bound):
        IN, _ = g.forward_must(lambda n: name in rw[n.id][1])
        for n in g.nodes:
            if n.id in reach and name in rw[n.id][0] and not IN[n.id]:
                # an augmented assignment of a name defined earlier in the same iteration is fine (IN true); here it is not
                out.add(name)
                break
    _CARRIED[key] = (body, out)
    return out


def _target_names(t):
    out = []
    for n in ast.walk(t):
        if isinstance(n, ast.Name):
            out.append(n.id)
    return out


def _join(a, b):
    if a is None:
        return dict(b)
    if b is None:
        return dict(a)
    out = {}
    for nm in set(a) | set(b):
        s = (a.get(nm) or _fs(U)) | (b.get(nm) or _fs(U))
        if s != _fs(U):
            out[nm] = frozenset(s)
    return out


def _singletons(tracked):
    """Yield bindings with one container per tracked parameter (cartesian product, U dropped)."""
    items = sorted(tracked.items())
    combos = [{}]
    for p, s in items:
        cs = [c for c in sorted(x for x in s if isinstance(x, str)) if c != U]
        dv = frozenset(x for x in s if isinstance(x, tuple))
        if dv and not cs and U not in s:
            combos = [dict(c0, **{p: dv}) for c0 in combos]
            continue
        if not cs:
            continue
        combos = [dict(c0, **{p: _fs(c)}) for c0 in combos for c in cs]
    return [c for c in combos if c]


# --------------------------------------------------------------------------------------------------
def anchored_classes(repo):
    out = []
    for m in repo.non_test_modules():
        rel = m.relpath
        d = rel.rsplit("/", 1)[0] + "/"
        if not (d in ANCHOR_DIRS or rel in ANCHOR_FILES):
            continue
        for nm, node in m.defs.items():
            if isinstance(node, ast.ClassDef):
                out.append(repo.classes[m.name + ":" + nm])
    return sorted(out, key=lambda c: c.qual)


def run(ctx):
    repo = ctx.repo
    ctx.explain("C16-R1 container typestate: every fit/transform/fit_transform/predict/predict_proba/inverse_transform "
                "resolved (C3 MRO, per concrete class) for the classes of the anchored panel modules is analysed under the "
                "two input scenarios '3-d numpy' and 'nested DataFrame' by a forward dataflow over the CFG that follows "
                "check_X/check_X_y coercion flags (bound parameters), folds isinstance/hasattr branches, follows repo "
                "helpers, self/super methods, nested functions and joblib.delayed with bound arguments, and classifies every "
                "other use of the panel with a table of container-specific uses. R2 row correspondence: per-position results "
                "are never stored into a frame that carries another frame's row labels as a fresh-RangeIndex Series (pandas "
                "label alignment). R3: every axis length / index the dataflow can name (shape[k], len, cell length, RangeIndex "
                "of them, through helpers) that an entry point stores on self denotes the same axis (instances / columns / "
                "time) under both input containers. R4 instance independence of apply-type entry points (structural): no local is "
                "carried from one iteration of a per-instance loop to the next (pure position counters excepted), no min/max/sum "
                "reduction over the batch reaches the output (rejecting guards may use it), no list on self that feeds the output "
                "is appended to without being re-created in the call. R5: check_X / check_X_y rebind every argument other than X "
                "by the same statements for both containers. Equivariance / batch-vs-single equality as relations between runs "
                "(e.g. shared random state across a batch, numeric window arithmetic) are not decided.")
    ctx.assume("a numpy.ndarray has none of the pandas-only attributes of the table and a DataFrame none of the "
               "numpy-only ones; DataFrame[tuple] / DataFrame.shape[2] fail; DataFrame.squeeze(1) is not the 2-d panel")
    ctx.assume("inner estimators receiving the panel through fit/transform/predict/predict_proba normalise it themselves "
               "(they are instances of this rule when defined in the repo)")
    ctx.assume("sklearn.compose.ColumnTransformer selects columns with _safe_indexing(X, cols, axis=1), which rejects "
               "anything but 2-d arrays / DataFrames (sklearn >= 0.22)")
    # frozen anchors (fail closed when they vanish)
    for rel, cn in (("sktime/transformations/panel/compose.py", "ColumnTransformer"),
                    ("sktime/transformations/panel/reduce.py", "Tabularizer"),
                    ("sktime/transformations/panel/summarize/_extract.py", "FittedParamExtractor"),
                    ("sktime/classification/compose/_column_ensemble.py", "BaseColumnEnsembleClassifier"),
                    ("sktime/classification/dictionary_based/_muse.py", "MUSE"),
                    ("sktime/classification/interval_based/_tsf.py", "TimeSeriesForestClassifier"),
                    ("sktime/regression/interval_based/_tsf.py", "TimeSeriesForestRegressor")):
        repo.cls(rel + ":" + cn)
    an = Analyzer(repo)
    n_entry = 0
    seen_dims = set()
    seen_apply = set()
    for cls in anchored_classes(repo):
        for mname in ENTRY:
            hit = an.lookup(cls, mname)
            if hit is None:
                continue
            if hit[0] != "repo":
                ctx.info("%s.%s resolves to external %s (not analysed)" % (cls.name, mname, hit[1]))
                continue
            defcls, fn = hit[1], hit[2]
            if _is_abstract(fn):
                continue
            pos = astq.param_names(fn, skip_self=True)
            construct0 = "%s.%s" % (cls.name, mname)
            loc = ctx.loc(defcls.module, fn)
            if (cls.name, mname) in NOT_A_PANEL or (defcls.name, mname) in NOT_A_PANEL:
                ctx.info("%s: %s" % (construct0, NOT_A_PANEL.get((cls.name, mname)) or NOT_A_PANEL[(defcls.name, mname)]))
                continue
            if not pos:
                ctx.undecided(RULE, construct0, "entry point without a data parameter", loc)
                continue
            panel = pos[0]
            n_entry += 1
            sums = {}
            for c in (NP, PD):
                sums[c] = an.summary(fn, defcls.module, cls, defcls, {panel: _fs(c)})
            for c in (NP, PD):
                sm = sums[c]
                construct = "%s[%s]" % (construct0, c)
                bad = False
                for k, what, l in sm.viol:
                    ctx.violation(RULE, "%s:%s" % (construct, k), what, l, witness={"input container": c,
                                                                                   "defined in": defcls.qual})
                    bad = True
                for k, why, l in sm.und:
                    ctx.undecided(RULE, "%s:%s" % (construct, k), why, l)
                    bad = True
                if not sm.returns and sums[OTHER[c]].returns:
                    ctx.violation(RULE, "%s:rejects" % construct, "%s never returns normally for a %s panel but does for a "
                                  "%s panel" % (construct0, c, OTHER[c]), loc)
                    bad = True
                if not bad:
                    detail = "defined in %s; " % defcls.name
                    if not sm.used:
                        detail += "the panel is not used"
                    else:
                        detail += "every use of the panel matches its container on every path"
                    ctx.ok(RULE, construct, detail, loc, nontrivial=sm.used)
            # R4: instance independence of apply-type entry points
            if mname in APPLY:
                reported = set()
                for c in (NP, PD):
                    for k, what, l in sums[c].viol4:
                        if k in reported:
                            continue
                        reported.add(k)
                        if k.split(">")[-1].startswith("ok:"):
                            ctx.ok("R4", "%s:%s" % (construct0, k.replace("ok:", "")), "no local carries a value from one instance "
                                   "to the next", l)
                        else:
                            ctx.violation("R4", "%s:%s" % (construct0, k), what, l)
                if (defcls.name, mname) not in seen_apply:
                    seen_apply.add((defcls.name, mname))
                    names = sums[NP].batch_names | sums[PD].batch_names
                    batch_aggregates(ctx, repo, an, cls, defcls, fn, construct0, names)
                    self_accumulators(ctx, an, defcls, fn, construct0)
                    refits(ctx, repo, an, cls, defcls, fn, construct0)
            # R3: a fitted dimension must denote the same axis of the panel for both containers
            for attr in sorted(set(sums[NP].stores) & set(sums[PD].stores)):
                a, b = sums[NP].stores[attr], sums[PD].stores[attr]
                if not a or not b:
                    continue
                if (defcls.name, mname, attr) in seen_dims:
                    continue
                seen_dims.add((defcls.name, mname, attr))
                ctx.check(a == b, "R3", "%s.%s:self.%s" % (defcls.name, mname, attr),
                          "self.%s denotes %s of the panel for both containers" % (attr, _dimshow(a)),
                          "self.%s denotes %s for a 3-d numpy panel but %s for a nested DataFrame holding the same data: the "
                          "fitted state depends on the container" % (attr, _dimshow(a), _dimshow(b)), loc,
                          witness={"numpy": _dimshow(a), "pandas": _dimshow(b)})
    ctx.count("entry_points", n_entry)
    ctx.floor(RULE, 252)  # 126 resolved (class, entry point) pairs x 2 input containers
    label_alignment(ctx, repo)
    validators(ctx, repo, an)
    refresh_guards(ctx, repo, an)
    helper_conformance(ctx, repo)
    validator_model(ctx, repo, an)
    ctx.floor("R4", 32)
    ctx.floor("R5", 4)
    ctx.floor("R6", 31)
    ctx.floor("R7", 34)



def _dimshow(d):
    def one(c):
        if c[0] == "dim":
            return "%s axis" % c[1]
        if c[0] == "index":
            return "index over the %s axis" % c[1]
        if c[0] == "select":
            return "a selection of %s" % c[1]
        if c[0] == "rows":
            return "a selection of columns (all instances)"
        return c[0]
    return " / ".join(sorted(one(c) for c in d))


# -------------------------------------------------------------------------------------------------- R2
def label_alignment(ctx, repo):
    """R2 row correspondence: results computed per instance *position* must not be aligned by *label*.
    pandas aligns `frame[col] = Series` on the index; a Series built from a list carries a fresh RangeIndex, so storing
    it into a frame that was created with the row index of another frame (`pd.DataFrame(index=X.index)`) puts the result
    of position k into the row labelled k.  Every column store into a locally created DataFrame of the anchored panel
    modules is an instance."""
    from ..flow import Flow
    flow = Flow(repo)
    n = 0
    for m in repo.non_test_modules():
        rel = m.relpath
        d = rel.rsplit("/", 1)[0] + "/"
        if not (d in ANCHOR_DIRS or rel in ANCHOR_FILES):
            continue
        fns = []
        for nm, node in m.defs.items():
            if isinstance(node, ast.FunctionDef):
                fns.append((nm, node))
            elif isinstance(node, ast.ClassDef):
                for st in node.body:
                    if isinstance(st, ast.FunctionDef):
                        fns.append(("%s.%s" % (nm, st.name), st))
        for qn, fn in fns:
            stored = {x.id for x in astq.walk_no_nested(fn) if isinstance(x, ast.Name) and isinstance(x.ctx, ast.Store)}
            stored |= set(astq.all_param_names(fn))

            def ext(e):
                dd = dotted(e)
                if not dd or dd.split(".")[0] in stored:
                    return None
                sym = repo.resolve_dotted(m, dd)
                return sym.dotted if sym is not None else None

            def self_method(name, _qn=qn):
                if "." not in _qn:
                    return None
                k = repo.classes.get(m.name + ":" + _qn.split(".")[0])
                hit = repo.lookup_method(k, name) if k is not None else None
                return hit[1] if hit else None

            frames = {}  # name -> list of (kind, index expr, assign stmt)
            for a in astq.walk_no_nested(fn):
                if isinstance(a, ast.Assign) and len(a.targets) == 1 and isinstance(a.targets[0], ast.Name) \
                        and isinstance(a.value, ast.Call) and ext(a.value.func) == "pandas.DataFrame":
                    idx = None
                    for k in a.value.keywords:
                        if k.arg == "index":
                            idx = k.value
                    if idx is None and len(a.value.args) >= 2:
                        idx = a.value.args[1]
                    if isinstance(idx, ast.Constant) and idx.value is None:
                        idx = None
                    frames.setdefault(a.targets[0].id, []).append((idx, a))
            if not frames:
                continue
            g = None
            col_stores = [a for a in astq.walk_no_nested(fn)
                          if isinstance(a, ast.Assign) and len(a.targets) == 1 and isinstance(a.targets[0], ast.Subscript)
                          and isinstance(a.targets[0].value, ast.Name) and a.targets[0].value.id in frames
                          and not isinstance(a.targets[0].slice, (ast.Tuple, ast.Slice))]
            col_stores.sort(key=lambda a: (a.lineno, a.col_offset))
            for ordinal, a in enumerate(col_stores, 1):
                fname = a.targets[0].value.id
                n += 1
                construct = "%s:column-store#%d" % (qn, ordinal)
                loc = ctx.loc(m, a)
                v = a.value
                # value: positional (list / array) or a Series with a fresh RangeIndex?
                fresh_series = False
                positional = False
                if isinstance(v, ast.Call) and ext(v.func) == "pandas.Series":
                    has_index = any(k.arg == "index" for k in v.keywords) or len(v.args) >= 2
                    arg = v.args[0] if v.args else None
                    label_carrying = isinstance(arg, ast.Call) and ext(arg.func) in ("pandas.Series", "builtins.dict")
                    label_carrying = label_carrying or isinstance(arg, ast.Dict)
                    if not has_index and arg is not None and not label_carrying and not _may_be_series(fn, arg, ext, self_method):
                        fresh_series = True
                elif isinstance(v, ast.Call) and isinstance(v.func, ast.Attribute) and isinstance(v.func.value, ast.Name) \
                        and v.func.value.id == "self" and self_method(v.func.attr) is not None:
                    # a helper of the class that rebuilds the column as pd.Series(<list of per-position results>)
                    callee = self_method(v.func.attr)
                    cstored = {x.id for x in astq.walk_no_nested(callee) if isinstance(x, ast.Name) and isinstance(x.ctx, ast.Store)}
                    rets = astq.returns(callee)

                    def fresh_ret(rv):
                        if not (isinstance(rv, ast.Call) and dotted(rv.func) and dotted(rv.func).split(".")[0] not in cstored):
                            return False
                        sym = repo.resolve_dotted(m, dotted(rv.func))
                        if sym is None or sym.dotted != "pandas.Series":
                            return False
                        has_idx = any(k.arg == "index" for k in rv.keywords) or len(rv.args) >= 2
                        return not has_idx and bool(rv.args) and isinstance(rv.args[0], (ast.List, ast.ListComp))

                    if rets and all(fresh_ret(r.value) for r in rets):
                        fresh_series = True
                elif isinstance(v, (ast.List, ast.ListComp)) or (isinstance(v, ast.Name) and _is_list_local(fn, v.id)):
                    positional = True
                # the frame: created with someone else's row labels?  (constructor index= or a later .index = store
                # that can precede this column store)
                label_idx = []
                for idx, st in frames[fname]:
                    if idx is not None:
                        label_idx.append(idx)
                for b in astq.walk_no_nested(fn):
                    if isinstance(b, ast.Assign) and any(isinstance(t, ast.Attribute) and t.attr == "index"
                                                         and isinstance(t.value, ast.Name) and t.value.id == fname
                                                         for t in b.targets):
                        g = g or flow.cfg(fn)
                        nb, na = g.node_of(b), g.node_of(a)
                        if nb is not None and na is not None and g.may_reach_after(nb, lambda x: x is na):
                            label_idx.append(b.value)
                foreign = [i for i in label_idx if isinstance(i, ast.Attribute) and i.attr == "index"]
                ranges = [i for i in label_idx if isinstance(i, ast.Call) and ext(i.func) in (
                    "builtins.range", "numpy.arange", "pandas.RangeIndex")]
                if positional or not label_idx:
                    ctx.ok("R2", construct, "positional value / frame without row labels of its own", loc, nontrivial=bool(label_idx))
                elif fresh_series and foreign:
                    ctx.violation("R2", construct, "the frame carries the row labels %s but the column is stored as %s, a Series "
                                  "with a fresh RangeIndex: pandas aligns on labels, so the result of the instance at position k "
                                  "lands in the row labelled k (wrong instance / NaN for any non-default row index)" % (
                                      astq.canon(foreign[0]), astq.canon(v)[:60]), loc,
                                  witness={"input": "nested DataFrame with permuted or sub-selected row index, e.g. X.iloc[[2, 0, 1]]"})
                elif fresh_series and len(ranges) == len(label_idx):
                    ctx.ok("R2", construct, "frame index is a default range", loc)
                elif fresh_series:
                    ctx.undecided("R2", construct, "frame index %s vs. fresh-index Series not interpretable" % astq.canon(label_idx[0])[:50], loc)
                else:
                    ctx.ok("R2", construct, "value keeps its own labels / is not a fresh-index Series", loc, nontrivial=False)
    ctx.floor("R2", 10)
    ctx.floor("R3", 13)


def _is_list_local(fn, name):
    vals = astq.assigned_values(fn, name)
    return bool(vals) and all(isinstance(v, (ast.List, ast.ListComp)) for v in vals)


def _may_be_series(fn, arg, ext, self_method=None):
    """Could the argument of pd.Series(arg) itself carry labels (Series / dict)?"""
    if isinstance(arg, ast.Name):
        vals = astq.assigned_values(fn, arg.id)
        if not vals:
            return True  # parameter / loop variable: unknown
        for v in vals:
            if isinstance(v, (ast.List, ast.ListComp, ast.Tuple)):
                continue
            if isinstance(v, ast.Call) and ext(v.func) in ("numpy.array", "numpy.asarray", "numpy.zeros", "numpy.hstack",
                                                           "builtins.list"):
                continue
            if isinstance(v, ast.Call) and isinstance(v.func, ast.Attribute) and isinstance(v.func.value, ast.Name) \
                    and v.func.value.id == "self" and self_method is not None:
                callee = self_method(v.func.attr)
                rets = astq.returns(callee) if callee is not None else []
                if rets and all(isinstance(r.value, (ast.List, ast.ListComp)) for r in rets):
                    continue  # helper returns a plain list of per-position results
            return True
        return False
    if isinstance(arg, (ast.List, ast.ListComp, ast.Tuple)):
        return False
    if isinstance(arg, ast.Attribute) and isinstance(arg.value, ast.Name) and arg.value.id == "self":
        return False
    return True



# -------------------------------------------------------------------------------------------------- R4 (b), (c)
REDUCERS = {"builtins.min", "builtins.max", "builtins.sum", "numpy.min", "numpy.max", "numpy.amin", "numpy.amax", "numpy.sum",
            "numpy.mean", "numpy.median", "numpy.std", "numpy.var", "numpy.nanmin", "numpy.nanmax", "numpy.nanmean"}


def _reduces_param(repo, module, fn, depth=0):
    """Parameters of ``fn`` that every return value reduces with min / max / sum (possibly through a nested helper)."""
    params = astq.all_param_names(fn)
    rets = astq.returns(fn)
    if not rets or depth > 2:
        return set()
    out = None
    for r in rets:
        v = r.value
        hit = set()
        if isinstance(v, ast.Call) and isinstance(v.func, ast.Name) and v.func.id in ("min", "max", "sum") \
                and not astq.assigned_in(fn, v.func.id):
            hit = {x.id for a in v.args for x in ast.walk(a) if isinstance(x, ast.Name) and x.id in params}
        out = hit if out is None else (out & hit)
    return out or set()


def batch_aggregates(ctx, repo, an, cls, defcls, fn, construct0, batch_names):
    """An apply-type method must not let a min / max / sum taken over the instances of the batch reach its output
    (rejecting guards may use it): the row of one instance would depend on which other instances share the batch."""
    module = defcls.module
    stored = {x.id for x in astq.walk_no_nested(fn) if isinstance(x, ast.Name) and isinstance(x.ctx, ast.Store)}
    stored |= set(astq.all_param_names(fn))

    def ext(e):
        dd = dotted(e)
        if not dd or dd.split(".")[0] in stored:
            return None
        sym = repo.resolve_dotted(module, dd)
        if sym is not None:
            return sym.dotted
        return "builtins." + dd if dd in BUILTINS else None

    def mentions(e, names):
        return any(isinstance(x, ast.Name) and x.id in names for x in ast.walk(e))

    def is_aggregate(c):
        if not isinstance(c, ast.Call):
            return False
        ex = ext(c.func)
        if ex in REDUCERS:
            ax = None
            for k in c.keywords:
                if k.arg == "axis":
                    ax = k.value
            if len(c.args) > 1 and ex.startswith("numpy."):
                ax = c.args[1]
            if ax is not None and not (isinstance(ax, ast.Constant) and ax.value in (0, None)):
                return False
            return bool(c.args) and isinstance(c.args[0], ast.Name) and c.args[0].id in batch_names
        # repo helper reducing the batch it is given
        target = None
        f = c.func
        if isinstance(f, ast.Attribute) and isinstance(f.value, ast.Name) and f.value.id == "self":
            hit = an.lookup(cls, f.attr)
            if hit is not None and hit[0] == "repo":
                target = (hit[2], not hit[1].is_static(f.attr))
        elif isinstance(f, ast.Name) and f.id not in stored:
            sym = repo.resolve_name(module, f.id)
            if sym is not None and sym.kind == "func":
                target = (sym.target, False)
        if target is None:
            return False
        b = astq.bind_call(target[0], c, skip_self=target[1])
        red = _reduces_param(repo, module, target[0])
        return bool(b) and any(isinstance(v, ast.Name) and v.id in batch_names for p, v in b.items()
                               if p in red and isinstance(v, ast.AST))

    assigns = [a for a in astq.walk_no_nested(fn) if isinstance(a, ast.Assign)]
    tainted = set()
    sources = {}
    changed = True
    while changed:
        changed = False
        for a in assigns:
            src = any(is_aggregate(c) for c in astq.calls(a.value)) or mentions(a.value, tainted)
            if src:
                for t in a.targets:
                    if isinstance(t, ast.Name) and t.id not in tainted:
                        tainted.add(t.id)
                        sources[t.id] = a
                        changed = True
    if not tainted:
        return
    loc = ctx.loc(module, fn)
    construct = "%s:batch-aggregate" % construct0
    bad = None
    for n in astq.walk_no_nested(fn):
        if isinstance(n, ast.Return) and n.value is not None and mentions(n.value, tainted):
            bad = n
        elif isinstance(n, ast.Assign) and mentions(n.value, tainted) and any(
                isinstance(t, (ast.Attribute, ast.Subscript)) for t in n.targets):
            bad = n
    roots = sorted(nm for nm, a in sources.items() if any(is_aggregate(c) for c in astq.calls(a.value)))
    if bad is not None:
        ctx.violation("R4", construct, "%s is a reduction over all instances of the batch and reaches the output (%s): the row of an "
                      "instance depends on the other instances passed with it (batch output != single-instance output); use the "
                      "fitted state instead" % (", ".join(roots), astq.canon(bad.value)[:60]), ctx.loc(module, bad),
                      witness={"input": "the same instance alone vs. together with a shorter / longer one"})
    else:
        ctx.ok("R4", construct, "batch reductions (%s) are only used in rejecting guards" % ", ".join(roots), loc)


def self_accumulators(ctx, an, defcls, fn, construct0):
    """An apply-type method must not append to a list on self that it does not reset first when that list feeds its output:
    rows of earlier calls would stay in it."""
    from ..cfg import CFG
    module = defcls.module
    muts = {}
    for n in astq.walk_no_nested(fn):
        if isinstance(n, ast.Call) and isinstance(n.func, ast.Attribute) and n.func.attr in ("append", "extend", "insert") \
                and astq.is_self_attr(n.func.value):
            muts.setdefault(n.func.value.attr, []).append(n)
        elif isinstance(n, ast.AugAssign) and astq.is_self_attr(n.target):
            muts.setdefault(n.target.attr, []).append(n)
    if not muts:
        return
    g = an.flow.cfg(fn)
    for attr, sites in sorted(muts.items()):
        receivers = {id(c.func.value) for c in sites if isinstance(c, ast.Call)} | {id(c.target) for c in sites if isinstance(c, ast.AugAssign)}
        reads = [x for x in astq.walk_no_nested(fn) if astq.is_self_attr(x, "self", attr) and isinstance(x.ctx, ast.Load)
                 and id(x) not in receivers]
        IN, _ = g.forward_must(lambda nd: isinstance(nd.stmt, ast.Assign) and any(astq.is_self_attr(t, "self", attr)
                                                                                   for t in nd.stmt.targets))
        fresh = all((g.node_of(c) is not None and IN.get(g.node_of(c).id, False)) for c in sites)
        construct = "%s:self.%s" % (construct0, attr)
        loc = ctx.loc(module, sites[0])
        if fresh:
            ctx.ok("R4", construct, "self.%s is re-created in the call before it collects per-instance results" % attr, loc)
        elif reads:
            ctx.violation("R4", construct, "self.%s collects per-instance results and feeds the output, but it is not re-created in "
                          "this call before the first append: rows of earlier calls stay in it (the number of output rows differs "
                          "from the number of input rows on the second call)" % attr, loc,
                          witness={"history": "transform(X); transform(X)"})
        else:
            ctx.ok("R4", construct, "self.%s accumulates across calls but does not feed the output of this method" % attr, loc,
                   nontrivial=False)


# -------------------------------------------------------------------------------------------------- R5
def validators(ctx, repo, an):
    """Container independence of the validators themselves: every argument other than X (the labels y) must be rebound by
    the same statements whether X is a 3-d array or a nested frame."""
    for fname in ("check_X", "check_X_y"):
        fn = repo.func(PANEL_VALIDATION, fname)
        mod = repo.module(PANEL_VALIDATION)
        sums = {c: an.summary(fn, mod, None, None, {"X": _fs(c)}) for c in (NP, PD)}
        others = [p for p in astq.all_param_names(fn) if p != "X"]
        diff = []
        for p in others:
            a, b = sums[NP].reach_assign.get(p, set()), sums[PD].reach_assign.get(p, set())
            if a != b:
                diff.append((p, sorted(a ^ b)))
        loc = ctx.loc(mod, fn)
        # X itself: a rebinding that only one container reaches must be one of the two container conversions
        conv = {id(repo.func("sktime/utils/data_processing.py", "from_3d_numpy_to_nested")),
                id(repo.func("sktime/utils/data_processing.py", "from_nested_to_3d_numpy"))}
        xa, xb = sums[NP].reach_assign.get("X", set()), sums[PD].reach_assign.get("X", set())
        bad_x = []
        _depth = [0]

        def _rename(expr, par):
            import copy

            class R(ast.NodeTransformer):
                def visit_Name(self, node):
                    return ast.copy_location(ast.Name(id="X", ctx=node.ctx), node) if node.id == par else node

            return R().visit(copy.deepcopy(expr))

        for pos in sorted(xa ^ xb):
            st = next((n for n in astq.walk_no_nested(fn) if isinstance(n, ast.Assign) and (n.lineno, n.col_offset) == pos), None)
            v = st.value if st is not None else None

            def allowed(x):
                if isinstance(x, ast.Name) and x.id == "X":
                    return True
                if isinstance(x, ast.IfExp):
                    return allowed(x.body) and allowed(x.orelse)
                sym = repo.resolve_expr(mod, x.func) if isinstance(x, ast.Call) else None
                if sym is not None and sym.kind == "func" and id(sym.target) in conv:
                    return True
                if sym is not None and sym.kind == "func" and sym.module is mod and _depth[0] < 3:
                    # a local helper of the validator: each of its returns must itself be X or a conversion of it
                    bb = astq.bind_call(sym.target, x)
                    pars = [p0 for p0, a0 in (bb or {}).items() if isinstance(a0, ast.Name) and a0.id == "X"]
                    rets = astq.returns(sym.target)
                    if len(pars) == 1 and rets:
                        _depth[0] += 1
                        try:
                            return all(r0.value is not None and allowed(_rename(r0.value, pars[0])) for r0 in rets)
                        finally:
                            _depth[0] -= 1
                return False

            if not allowed(v):
                bad_x.append((pos, v))
        if bad_x:
            pos, v = bad_x[0]
            ctx.violation("R5", "%s:X" % fname, "X is rebound to %s only when it is a %s: the data of one container is rearranged "
                          "while the other container holding the same data is left as it is (only the two container conversions "
                          "may be container-specific)" % (astq.canon(v)[:60] if v is not None else "?",
                                                          "3-d array" if pos in xa else "nested DataFrame"),
                          "%s:%s" % (mod.relpath, pos[0]), witness={"input": "array of shape (n, 3, 2) vs. the nested frame of the same data"})
        else:
            ctx.ok("R5", "%s:X" % fname, "container-specific rebindings of X are the container conversions only", loc)
        if diff:
            p, lines = diff[0]
            ctx.violation("R5", "%s:%s" % (fname, p), "argument %s is rebound at line %s only when X is a %s: the validator treats %s "
                          "differently for the two containers of the same data (e.g. label-based re-ordering for a nested frame, "
                          "positional pairing for the 3-d array)" % (
                              p, lines[0][0], "nested DataFrame" if lines[0] in sums[PD].reach_assign.get(p, set()) else "3-d array", p),
                          "%s:%s" % (mod.relpath, lines[0][0]), witness={"input": "nested X with permuted index and a Series y"})
        else:
            ctx.ok("R5", "%s:arguments" % fname, "arguments other than X (%s) are rebound by the same statements for both containers"
                   % ", ".join(others), loc)



# -------------------------------------------------------------------------------------------------- R6 (H1)
def _mentions_own_attr(test, attr):
    for x in ast.walk(test):
        if astq.is_self_attr(x, "self", attr):
            return True
        if isinstance(x, ast.Call) and isinstance(x.func, ast.Name) and x.func.id in ("getattr", "hasattr") and len(x.args) >= 2 \
                and isinstance(x.args[0], ast.Name) and x.args[0].id == "self" and isinstance(x.args[1], ast.Constant) \
                and x.args[1].value == attr:
            return True
    return False


def refresh_guards(ctx, repo, an):
    """R6: state that a method of an anchored estimator establishes on self is re-established on every call: a store
    `self.a = ...` that only happens when a test of the attribute's *own previous value* (is None / hasattr / getattr /
    length unchanged) succeeds keeps the value of an earlier call when the object is used again on other data."""
    for cls in anchored_classes(repo):
        for mname, fn in sorted(cls.methods.items()):
            if mname == "__init__" or mname in cls.properties:
                continue
            stores = [(a, st) for a, v, st in astq.self_attr_stores(fn) if isinstance(st, ast.Assign)]
            if not stores:
                continue
            g = an.flow.cfg(fn)
            bad = []
            guarded = 0
            for attr, st in stores:
                nd = g.node_of(st)
                if nd is None:
                    continue
                guards = g.guards_of(nd)
                if guards:
                    guarded += 1
                for test, branch in guards:
                    if _mentions_own_attr(test, attr):
                        # the tested value is of an earlier call only if this call has not (re)assigned it before the test
                        tn = g.node_of(test)
                        IN, _ = g.forward_must(lambda n0: isinstance(n0.stmt, ast.Assign) and n0.stmt is not st and any(
                            astq.is_self_attr(t, "self", attr) for t in n0.stmt.targets))
                        if tn is not None and IN.get(tn.id, False):
                            continue
                        bad.append((attr, st, test))
            construct = "%s.%s" % (cls.name, mname)
            if bad:
                for attr, st, test in bad:
                    ctx.violation("R6", "%s:self.%s" % (construct, attr), "self.%s is only stored when `%s` allows it, a test of its own "
                                  "previous value: on a second call (same object, other data) the value established by the first "
                                  "call is kept" % (attr, astq.canon(test)[:70]), ctx.loc(cls.module, st),
                                  witness={"history": "call %s twice with different data (same number of instances)" % mname})
            else:
                ctx.ok("R6", construct, "%d stores on self (%d under a guard), none guarded by the attribute's own previous value" % (
                    len(stores), guarded), ctx.loc(cls.module, fn), nontrivial=guarded > 0)



# -------------------------------------------------------------------------------------------------- R7
def helper_conformance(ctx, repo):
    """R7 model conformance: the contracts R1/R3/R4 assume of the helpers they model, decided from the helpers' source.
    * from_3d_numpy_to_2d_array: row-major reshape keeping the instance axis (result is a function of the values only);
    * from_nested_to_2d_array: the cells of a column are laid out positionally (no label-aligning pandas constructor);
    * converters behind check_X's coercion keep the instance order (no groupby that sorts the instance labels);
    * _enforce_min_instances rejects exactly n < min (a single instance is a valid panel)."""
    dp = "sktime/utils/data_processing.py"
    mod = repo.module(dp)

    def ext(m, fn, e):
        dd = dotted(e)
        stored = {x.id for x in astq.walk_no_nested(fn) if isinstance(x, ast.Name) and isinstance(x.ctx, ast.Store)}
        if not dd or dd.split(".")[0] in stored or dd.split(".")[0] in astq.all_param_names(fn):
            return None
        sym = repo.resolve_dotted(m, dd)
        return sym.dotted if sym is not None else None

    # (a) reshape
    fn = repo.func(dp, "from_3d_numpy_to_2d_array")
    par = astq.param_names(fn)[0]
    resh = [c for c in astq.calls(fn) if (isinstance(c.func, ast.Attribute) and c.func.attr == "reshape"
                                          and isinstance(c.func.value, ast.Name) and c.func.value.id == par)
            or (ext(mod, fn, c.func) == "numpy.reshape" and c.args and isinstance(c.args[0], ast.Name) and c.args[0].id == par)]
    c0 = "from_3d_numpy_to_2d_array:reshape"
    if len(resh) != 1:
        ctx.undecided("R7", c0, "expected one reshape of the panel, found %d" % len(resh), ctx.loc(mod, fn))
    else:
        c = resh[0]
        order = next((k.value for k in c.keywords if k.arg == "order"), None)
        dims = list(c.args[1:] if ext(mod, fn, c.func) == "numpy.reshape" else c.args)
        if len(dims) == 1 and isinstance(dims[0], (ast.Tuple, ast.List)):
            dims = list(dims[0].elts)
        first_ok = bool(dims) and astq.canon(dims[0]) in ("%s.shape[0]" % par, "len(%s)" % par) and len(dims) == 2 \
            and _const_int(dims[1]) == -1
        if order is not None and not (isinstance(order, ast.Constant) and order.value == "C"):
            ctx.violation("R7", c0, "the panel is flattened with order=%s: the position of a value in the row then depends on the "
                          "memory layout of the caller's array (Fortran-ordered / transposed views), not only on its values; "
                          "R1/R4 model this helper as the row-major (instance, column*time) layout" % astq.canon(order), ctx.loc(mod, c),
                          witness={"input": "np.asfortranarray(X) vs X (same values)"})
        else:
            ctx.check(first_ok, "R7", c0, "row-major reshape to (n_instances, -1)",
                      "the reshape target %s does not keep the instance axis first" % [astq.canon(d) for d in dims], ctx.loc(mod, c))

    # (b) positional cells
    fn = repo.func(dp, "from_nested_to_2d_array")
    par = astq.param_names(fn)[0]
    bad = None
    for c in astq.calls(fn):
        if ext(mod, fn, c.func) in ("pandas.DataFrame", "pandas.concat", "pandas.Series") and c.args:
            for x in ast.walk(c.args[0]):
                if isinstance(x, ast.Call) and isinstance(x.func, ast.Attribute) and x.func.attr in ("tolist", "to_list") \
                        and any(isinstance(y, ast.Name) and y.id == par for y in ast.walk(x.func.value)) \
                        and not isinstance(x.func.value, ast.Name):
                    bad = c
    c0 = "from_nested_to_2d_array:cells"
    if bad is not None:
        ctx.violation("R7", c0, "the cells of a column are passed through %s: pandas aligns the per-instance Series on their own "
                      "index labels (union of labels, NaN where an instance lacks one) instead of laying the values out "
                      "positionally; R1/R4 model this helper as row i = values of instance i in order" % astq.canon(bad)[:70],
                      ctx.loc(mod, bad), witness={"input": "two instances whose Series cells carry different time indexes"})
    else:
        ctx.ok("R7", c0, "cell values are stacked positionally (no label-aligning constructor on the cell list)", ctx.loc(mod, fn))

    # (c) instance order in the converters behind coerce_to_numpy
    for name in ("from_nested_to_3d_numpy", "from_nested_to_multi_index", "from_multi_index_to_3d_numpy"):
        fn = repo.func(dp, name)
        parents = {}
        for n in ast.walk(fn):
            for ch in ast.iter_child_nodes(n):
                parents[id(ch)] = n
        bad = None
        for c in astq.calls(fn):
            if isinstance(c.func, ast.Attribute) and c.func.attr == "groupby":
                srt = next((k.value for k in c.keywords if k.arg == "sort"), None)
                if srt is not None and isinstance(srt, ast.Constant) and srt.value is False:
                    continue
                p = parents.get(id(c))
                if isinstance(p, ast.Call) and isinstance(p.func, ast.Name) and p.func.id == "len":
                    continue  # only counted
                bad = c
        c0 = "%s:instance-order" % name
        if bad is not None:
            ctx.violation("R7", c0, "instances are taken from %s: groupby sorts the group keys, so the rows of the 3-d array follow "
                          "the sorted instance labels, not the order of the frame (check_X(coerce_to_numpy=True) re-orders a "
                          "nested frame with unsorted index, the 3-d array of the same data keeps its order)" % astq.canon(bad)[:60],
                          ctx.loc(mod, bad), witness={"input": "nested frame with row index [2, 0, 1] and a non-nested column"})
        else:
            ctx.ok("R7", c0, "no order-changing grouping of the instances", ctx.loc(mod, fn))

    # (c') instance labels must keep their order: no sorting / np.unique of the frame's index in the converters
    for name in ("from_nested_to_3d_numpy", "from_nested_to_multi_index", "from_multi_index_to_3d_numpy"):
        fn = repo.func(dp, name)
        par = astq.param_names(fn)[0]
        bad = None
        for c in astq.calls(fn):
            ex = ext(mod, fn, c.func)
            sorts = ex in ("numpy.unique", "numpy.sort", "builtins.sorted") or (
                isinstance(c.func, ast.Attribute) and c.func.attr in ("sort_values", "sort_index", "sort") and ex is None)
            if not sorts:
                continue
            subject = c.args[0] if ex in ("numpy.unique", "numpy.sort", "builtins.sorted") and c.args else (
                c.func.value if isinstance(c.func, ast.Attribute) else None)
            if subject is not None and any(isinstance(x, ast.Attribute) and x.attr == "index" and isinstance(x.value, ast.Name)
                                           and x.value.id == par for x in ast.walk(subject)):
                bad = c
        c0 = "%s:instance-labels" % name
        if bad is not None:
            ctx.violation("R7", c0, "the instance labels are taken through %s, which sorts them: the instances of the converted panel "
                          "follow the sorted labels, not the row order of the frame" % astq.canon(bad)[:60], ctx.loc(mod, bad),
                          witness={"input": "nested frame with row index [2, 0, 1]"})
        else:
            ctx.ok("R7", c0, "instance labels are enumerated in frame order", ctx.loc(mod, fn))

    # (c'') the column selector of the column ensemble selects the same axis for both containers
    ce = "sktime/classification/compose/_column_ensemble.py"
    gc = repo.func(ce, "_get_column")
    an2 = Analyzer(repo)
    par = astq.param_names(gc)[0]
    dims = {}
    for c in (NP, PD):
        sm = an2.summary(gc, repo.module(ce), None, None, {par: _fs(c)})
        dims[c] = sm.retdim
    c0 = "_get_column:axis"
    if dims[NP] is None or dims[PD] is None:
        ctx.undecided("R7", c0, "returned selection not interpretable (%s / %s)" % (dims[NP], dims[PD]), ctx.loc(repo.module(ce), gc))
    else:
        norm = lambda d: frozenset(("rows",) if x == ("prow",) else x for x in d)
        ctx.check(norm(dims[NP]) == norm(dims[PD]) == _fs(("rows",)), "R7", c0, "selects columns (all instances) for both containers",
                  "for a 3-d array the helper returns %s, for a nested frame %s: members of the column ensemble are fed instances "
                  "instead of columns for one container" % (_dimshow(dims[NP]), _dimshow(dims[PD])), ctx.loc(repo.module(ce), gc),
                  witness={"input": "X3d of shape (n, 3, t), key [0]"})

    # (d) minimum-instances predicate
    vm = repo.module(PANEL_VALIDATION)
    fn = repo.func(PANEL_VALIDATION, "_enforce_min_instances")
    pars = astq.param_names(fn)
    from ..cfg import CFG
    g = CFG(fn)
    c0 = "_enforce_min_instances:predicate"

    def only_raises(start):
        seen, stack, hits_exit = set(), [start], False
        while stack:
            n = stack.pop()
            if n.id in seen:
                continue
            seen.add(n.id)
            if n is g.exit:
                hits_exit = True
            stack.extend(x for x, _ in n.succ)
        return not hits_exit

    tests = [n for n in g.nodes if n.kind == "test" and isinstance(n.stmt, ast.If)]
    guards = []
    for tn in tests:
        for br in (True, False):
            heads = [x for x, lab in tn.succ if lab == br]
            other = [x for x, lab in tn.succ if lab == (not br)]
            if heads and all(only_raises(h) for h in heads) and other and not all(only_raises(o) for o in other):
                guards.append((tn, tn.stmt.test, br))
    if len(guards) != 1 or len(pars) < 2:
        ctx.undecided("R7", c0, "expected one rejecting guard", ctx.loc(vm, fn))
    else:
        _, test, branch = guards[0]
        while isinstance(test, ast.UnaryOp) and isinstance(test.op, ast.Not):
            test, branch = test.operand, not branch
        t = astq.inline_locals(fn, test)
        want_n = "%s.shape[0]" % pars[0]
        ok = None
        if isinstance(t, ast.Compare) and len(t.ops) == 1:
            l, r, op = astq.canon(t.left), astq.canon(t.comparators[0]), t.ops[0]
            if {l, r} == {want_n, pars[1]} or {l, r} == {"len(%s)" % pars[0], pars[1]}:
                n_left = l != pars[1]
                rejects_lt = (isinstance(op, ast.Lt) and n_left) or (isinstance(op, ast.Gt) and not n_left)
                accepts_ge = (isinstance(op, ast.GtE) and n_left) or (isinstance(op, ast.LtE) and not n_left)
                ok = (rejects_lt and branch is True) or (accepts_ge and branch is False)
        ctx.check(ok, "R7", c0, "rejects exactly n_instances < min_instances", "the guard `%s` does not reject exactly n < min: a panel "
                  "with n == min_instances (a single instance with the default 1) is rejected / a smaller one accepted, so the "
                  "single-instance output cannot equal the corresponding row of the batch output" % astq.canon(test),
                  ctx.loc(vm, test), witness={"input": "X with exactly one instance"})



def validator_model(ctx, repo, an):
    """R7: R1 models check_X / check_X_y by their coercion flags.  Decide that model from their source: for each input
    container and each flag setting the validator returns the promised container (both flags: check_X rejects), and
    both flags default to False."""
    mod = repo.module(PANEL_VALIDATION)
    for fname in ("check_X", "check_X_y"):
        fn = repo.func(PANEL_VALIDATION, fname)
        loc = ctx.loc(mod, fn)
        defaults = astq.param_defaults(fn)
        for flag in ("coerce_to_numpy", "coerce_to_pandas"):
            d = defaults.get(flag)
            ctx.check(isinstance(d, ast.Constant) and d.value is False, "R7", "%s:default:%s" % (fname, flag),
                      "%s defaults to False (no coercion unless asked)" % flag,
                      "%s defaults to %s: callers that pass no flag get a converted container" % (
                          flag, astq.canon(d) if d is not None else "<none>"), loc)
        reach = {}
        for c in (NP, PD):
            for to_np, to_pd in ((False, False), (True, False), (False, True)):
                bind = {"X": _fs(c), "coerce_to_numpy": _fs(("const", to_np)), "coerce_to_pandas": _fs(("const", to_pd))}
                reach[(c, to_np, to_pd)] = an.summary(fn, mod, None, None, bind).reach_raises
        neutral = set().union(*[r for (c, _, _), r in reach.items() if c == NP]) & set().union(
            *[r for (c, _, _), r in reach.items() if c == PD])
        for to_np, to_pd in ((False, False), (True, False), (False, True)):
            diff = sorted((reach[(NP, to_np, to_pd)] ^ reach[(PD, to_np, to_pd)]) & neutral)
            construct = "%s:guards[numpy=%s,pandas=%s]" % (fname, to_np, to_pd)
            if diff:
                missing_for = NP if diff[0] not in reach[(NP, to_np, to_pd)] else PD
                ctx.violation("R7", construct, "the rejecting guard at %s:%s (a validation that applies to both containers) is not "
                              "reached for a %s panel with these flags but is for the other container: the same data is validated "
                              "differently depending on its container" % (diff[0][0], diff[0][1], missing_for), loc,
                              witness={"input": "multivariate / too small panel passed as %s" % missing_for})
            else:
                ctx.ok("R7", construct, "both containers pass the same container-neutral rejecting guards (%d)" % len(neutral), loc)
        for c in (NP, PD):
            for to_np, to_pd in ((False, False), (True, False), (False, True), (True, True)):
                if to_np and to_pd and fname != "check_X":
                    continue
                bind = {"X": _fs(c), "coerce_to_numpy": _fs(("const", to_np)), "coerce_to_pandas": _fs(("const", to_pd))}
                sm = an.summary(fn, mod, None, None, bind)
                construct = "%s:model[%s,numpy=%s,pandas=%s]" % (fname, c, to_np, to_pd)
                if sm.und:
                    ctx.undecided("R7", construct, sm.und[0][1], sm.und[0][2])
                    continue
                if to_np and to_pd:
                    ctx.check(not sm.returns, "R7", construct, "both flags are rejected",
                              "check_X returns normally with both coercion flags set", loc)
                    continue
                want = NP if to_np else (PD if to_pd else c)
                got = sm.ret
                ctx.check(sm.returns and got == _fs(want), "R7", construct, "returns the %s container" % want,
                          "%s(X: %s, coerce_to_numpy=%s, coerce_to_pandas=%s) %s; every caller analysed by R1 relies on the %s container"
                          % (fname, c, to_np, to_pd, ("returns %s" % ("/".join(sorted(got)) if got else "an untracked value"))
                             if sm.returns else "never returns normally", want), loc,
                          witness={"input": "%s panel" % c})



def refits(ctx, repo, an, cls, defcls, fn, construct0):
    """R4: an apply-type method must not (re)fit a component that lives on self across calls: `self.a.fit(...)` /
    `self.a.fit_transform(...)` / `self.a[i].fit...` is only accepted when self.a is (re)created earlier in the same call
    (fit-in-transform clones).  Otherwise the output of an instance depends on the batch it is passed with and the fitted
    state is overwritten by the apply data."""
    g = an.flow.cfg(fn)
    sites = []
    for c in astq.calls(fn):
        f = c.func
        if isinstance(f, ast.Attribute) and f.attr in ("fit", "fit_transform", "partial_fit", "fit_predict"):
            recv = f.value
            while isinstance(recv, ast.Subscript):
                recv = recv.value
            if astq.is_self_attr(recv):
                sites.append((recv.attr, c))
    for attr, c in sites:
        def creates(nd, attr=attr):
            if isinstance(nd.stmt, ast.Assign) and any(astq.is_self_attr(t, "self", attr) for t in nd.stmt.targets):
                return True
            for call in nd.calls():
                f = call.func
                if isinstance(f, ast.Attribute) and isinstance(f.value, ast.Name) and f.value.id == "self":
                    hit = an.lookup(cls, f.attr)
                    if hit is not None and hit[0] == "repo":
                        g2 = an.flow.cfg(hit[2])
                        if g2.must_pass(lambda n2: isinstance(n2.stmt, ast.Assign) and any(
                                astq.is_self_attr(t, "self", attr) for t in n2.stmt.targets)):
                            return True
            return False

        IN, _ = g.forward_must(creates)
        nd = g.node_of(c)
        fresh = nd is not None and IN.get(nd.id, False)
        construct = "%s:refit:self.%s" % (construct0, attr)
        ctx.check(fresh, "R4", construct, "self.%s is created in this call before it is fitted (fit-in-transform clone)" % attr,
                  "%s calls %s on self.%s, which was established before this call: the fitted component is re-estimated on the data "
                  "being transformed, so the output of an instance depends on the batch it arrives in and the fitted state is "
                  "overwritten" % (construct0, astq.canon(c.func)[:50], attr), ctx.loc(defcls.module, c),
                  witness={"history": "fit(X_train); transform(X[:1]) vs transform(X)[:1]"})
