"""C09 -- composite forecasters mean exactly the composition of their parts (DESIGN 3/C09).

R1 pipeline representation typestate (fit / _predict / update / transform / inverse_transform of
   TransformedTargetForecaster): what representation of the series reaches every inner estimator.
R2 ensemble: members fitted as clones on the caller's (y, X, fh); column-wise concatenation; the
   aggregator applied is the one *named* by the option string, after a rejecting membership check.
R3 multiplexer: the component cloned is the one whose name equals ``selected_forecaster``;
   fit / _predict / update delegate to it with all arguments.
R4 stacking: members fitted on the training window of one SingleWindowSplitter split, their forecasts
   (and only those) are the meta-regressor's features, its target is the test window, the
   meta-regressor is a clone, and the members are refitted on the full series afterwards.

All rules are predicates over the provenance events of ``_c09_prov`` (resolved callees, bound
arguments, loop-carried chains, path facts) -- never over text or local names.
"""
import ast

from ..index import AnalysisError
from .. import astq
from ._c09_prov import (Prov, Chain, NONE, alts, const, is_const, seq_shape, strip_views, interface_positions,
                        bind_interface, is_clone_of, none_valued, note_base_attrs, mentions, forwarded, analysed,
                        check_first_call_only, borrow, element_view, as_position)

PIPE = "sktime/forecasting/compose/_pipeline.py"
ENS = "sktime/forecasting/compose/_ensemble.py"
MUX = "sktime/forecasting/compose/_multiplexer.py"
STACK = "sktime/forecasting/compose/_stack.py"
META = "sktime/forecasting/base/_meta.py"
ONLINE = "sktime/forecasting/online_learning/_online_ensemble.py"
BASE = "sktime/forecasting/base/_base.py"
TBASE = "sktime/transformations/base.py"

SKIP_TAG = "skip-inverse-transform"


def P(name):
    return ("param", name)


def loc_of(e):
    return "%s:%s" % (e.frame.module.relpath, e.lineno)


def fsig(repo, method):
    """Formal parameters (without self) of the forecaster interface method."""
    return astq.param_names(repo.func(BASE, "BaseForecaster." + method), skip_self=True)


def tpos(repo, method):
    root = repo.cls(TBASE + ":_SeriesToSeriesTransformer")
    pos = interface_positions(repo, root, method)
    if pos is None:
        base = repo.cls(TBASE + ":BaseTransformer")
        pos = interface_positions(repo, base, method)
    return pos


# ------------------------------------------------------------------------------------------ R1 pipeline
def step_attr(t):
    """'steps' / 'steps_' when the term denotes the whole (possibly copied) list of pipeline steps."""
    base, rev, sl = seq_shape(t)
    if rev or sl is not None:
        return None
    if isinstance(base, tuple) and base[0] in ("attr0", "attr@") and base[1] in ("steps", "steps_"):
        return base[1]
    return None


def step_component(t, k):
    """``<steps>[i][k]`` with a constant position i -> (attr, i), else None."""
    if isinstance(t, tuple) and t[0] == "item" and t[2] == ("const", k):
        inner = t[1]
        if isinstance(inner, tuple) and inner[0] == "item" and is_const(inner[2]) and isinstance(inner[2][1], int):
            a = step_attr(inner[1])
            if a:
                return a, inner[2][1]
    return None


def last_step_component(t, k):
    """``<steps>[-1][k]`` -> 'steps' | 'steps_' | None."""
    sc = step_component(t, k)
    return sc[0] if sc is not None and sc[1] == -1 else None


def wrong_step(ctx, res, construct, events, what):
    """A call that should go to the last step's forecaster goes to another fixed step: VIOLATION (True if reported)."""
    for e in events:
        src = is_clone_of(res, e.recv)
        sc = step_component(src if src is not None else e.recv, 1)
        if sc is not None and sc[1] != -1:
            ctx.violation("R1", construct, "%s is sent to steps[%d], not to the last step (the forecaster)" % (what, sc[1]), loc_of(e))
            return True
    return False


class TLoop:
    """A loop read as an iteration over the pipeline's transformers."""

    def __init__(self, res, L):
        self.L = L
        self.res = res
        it = L.iter
        self.seq = it[1] if isinstance(it, tuple) and it[0] == "enum" else it
        self.enumerated = isinstance(it, tuple) and it[0] == "enum"
        self.base, self.rev, self.sl = seq_shape(it)
        self.attr = self.base[1] if isinstance(self.base, tuple) and self.base[0] in ("attr0", "attr@") else None
        self.elem = ("elem", self.seq, L.id)
        self.transformer = ("item", self.elem, ("const", 1))
        self.name = ("item", self.elem, ("const", 0))
        self.index = ("idx", self.seq, L.id)

    def slice_verdict(self):
        """True: all steps but the last; False: provably another range; None: not interpretable."""
        if self.sl is None:
            return False
        lo, hi, st = self.sl[1], self.sl[2], self.sl[3]
        if st != NONE:
            return None
        if not (is_const(lo) and is_const(hi)):
            return None
        return lo[1] in (None, 0) and hi[1] == -1


def check_tloop(ctx, construct, tl, want_rev, fitted_only, loc):
    """Obligations on the transformer loop feeding a sink: range, direction, fitted vs constructor steps."""
    ok = True
    if tl.attr not in ("steps", "steps_"):
        ctx.undecided("R1", construct + ":range", "loop does not iterate the pipeline steps: %r" % (tl.base,), loc)
        return False
    if fitted_only and tl.attr != "steps_":
        ctx.violation("R1", construct + ":range", "iterates the constructor's `steps` (unfitted originals) instead of the fitted `steps_`", loc)
        ok = False
    ex = tl.res.early_exits(tl.L.id)
    if ex:
        e0 = ex[0]
        why = ", ".join("%s is %s" % (tl.res.fmt(c), p) for c, p, _ in tl.res.facts(e0)[-1:]) or "unconditionally"
        ctx.violation("R1", construct + ":range", "the transformer loop is left early by `%s` (%s): the remaining transformers are not visited "
                      "(a step that should merely be skipped ends the chain)" % (e0.kind, why), loc_of(e0))
        ok = False
    sv = tl.slice_verdict()
    if sv is None:
        ctx.undecided("R1", construct + ":range", "cannot interpret the step range %r" % (tl.sl,), loc)
        return False
    if sv is False:
        ctx.violation("R1", construct + ":range", "transformer loop does not cover exactly all steps but the last (range %s)"
                      % ("whole list" if tl.sl is None else "%s:%s" % (const(tl.sl[1]), const(tl.sl[2]))), loc)
        ok = False
    elif ok:
        ctx.ok("R1", construct + ":range", "iterates %s[:-1] (every transformer, not the final forecaster), never left early" % tl.attr, loc)
    if tl.rev != want_rev:
        ctx.violation("R1", construct + ":order", "transformers are visited in %s order, must be %s"
                      % ("reversed" if tl.rev else "forward", "reversed" if want_rev else "forward"), loc,
                      witness={"iterates": repr(tl.L.iter)})
        ok = False
    else:
        ctx.ok("R1", construct + ":order", "%s order" % ("reversed" if want_rev else "forward"), loc)
    return ok


def check_chain(ctx, res, construct, value, method, want_rev, init_param, loc, fitted_only=True, conditional=False,
                what="value"):
    """``value`` must be CHAIN(method)(init_param) over all transformers in the wanted direction.
    Returns (Chain, TLoop, step event) when the shape is the chain (obligations recorded), else None."""
    ch = Chain(res, value)
    if not ch.ok:
        if value == P(init_param):
            ctx.violation("R1", construct, "%s is the untransformed `%s` (no transformer was applied)" % (what, init_param), loc,
                          witness={"value": res.fmt(value)})
        else:
            ctx.undecided("R1", construct, "%s is not a value carried through a transformer loop: %s" % (what, res.fmt(value)), loc)
        return None
    tl = TLoop(res, ch.loop)
    if ch.other or len(ch.steps) != 1:
        ctx.undecided("R1", construct, "loop-carried %s has %d step calls and %d other updates" % (what, len(ch.steps), len(ch.other)), loc)
        return None
    e = ch.steps[0]
    good = True
    init = res.plain(ch.init)
    if init_param != "<forecast>" and init != P(init_param):
        if init[0] in ("param", "attr0", "attr@", "const") or not mentions(res, init, P(init_param)):
            ctx.violation("R1", construct + ":init", "the chain does not start from `%s` but from %s" % (init_param, res.fmt(ch.init)), loc)
            good = False
        else:
            ctx.undecided("R1", construct + ":init", "the chain starts from a value derived from `%s`: %s" % (init_param, res.fmt(ch.init)), loc)
            return None
    if e.name != method:
        ctx.violation("R1", construct + ":method", "each transformer is applied with `%s`, must be `%s`" % (e.name, method), loc_of(e))
        good = False
    if res.loops_of(e)[-1:] != [ch.loop.id]:
        ctx.undecided("R1", construct, "step call is not directly inside the carrying loop", loc_of(e))
        return None
    a0 = e.args[0] if e.args else (next(iter(e.kwargs.values()), None) if len(e.kwargs) == 1 else None)
    if a0 != value:
        if a0 is not None and mentions(res, a0, value):
            ctx.undecided("R1", construct + ":running", "`%s` is applied to a value derived from the running value: %s" % (e.name, res.fmt(a0)), loc_of(e))
            return None
        ctx.violation("R1", construct + ":running", "`%s` is not applied to the running value (output of the previous transformer) but to %s"
                      % (e.name, res.fmt(a0)), loc_of(e))
        good = False
    recv = e.recv
    cl = is_clone_of(res, recv)
    if (cl if cl is not None else recv) != tl.transformer:
        if mentions(res, recv, tl.elem):
            ctx.undecided("R1", construct + ":receiver", "`%s` is called on %s" % (e.name, res.fmt(recv)), loc_of(e))
            return None
        ctx.violation("R1", construct + ":receiver", "`%s` is not called on the loop's transformer but on %s" % (e.name, res.fmt(recv)), loc_of(e))
        good = False
    if ch.passthrough != conditional:
        if ch.passthrough:
            ctx.violation("R1", construct + ":every-transformer", "`%s` is skipped for some transformers (conditional update of the running value)" % e.name,
                          loc_of(e), witness={"facts": [res.fmt(c) for c, _, _ in res.facts(e)]})
            good = False
    good = check_tloop(ctx, construct, tl, want_rev, fitted_only, loc_of(e)) and good
    if good:
        ctx.ok("R1", construct, "%s = CHAIN(%s) over all transformers, %s" % (what, method, "reversed" if want_rev else "forward"), loc)
    return ch, tl, e


def r1_fit(ctx, repo, cls):
    res = analysed(ctx, Prov(repo, no_inline=("_has_tag",)).run_method(cls, "fit"))
    C = "TransformedTargetForecaster.fit"
    check_first_call_only(ctx, res, "R1", C, loc_of)
    sig = fsig(repo, "fit")
    fits = [e for e in res.calls("fit", kind=("call",)) if e.target.kind == "attr"]
    final = []
    for e in fits:
        src = is_clone_of(res, e.recv)
        if last_step_component(src if src is not None else e.recv, 1):
            final.append((e, src))
    if not final:
        if wrong_step(ctx, res, C + ":final-forecaster", fits, "fit"):
            return
        if not fits:
            ctx.violation("R1", C + ":final-forecaster", "the final forecaster is never fitted", ctx.loc(cls.module, cls.methods["fit"]))
            return
    if len(final) != 1:
        ctx.undecided("R1", C + ":final-forecaster", "expected one fit call on the final step's forecaster, found %d" % len(final),
                      ctx.loc(cls.module, cls.methods["fit"]))
        return
    ef, src = final[0]
    loc = loc_of(ef)
    ctx.check(src is not None, "R1", C + ":forecaster-clone", "final forecaster is a clone of steps[-1]",
              "final forecaster is fitted without `clone` (the constructor argument itself is fitted)", loc)
    b = ef.bind(sig)
    if b is None or "y" not in b:
        ctx.undecided("R1", C + ":final-forecaster", "cannot bind the final fit call to (y, X, fh)", loc)
        return
    got = check_chain(ctx, res, C + ":final-forecaster-data", b["y"], "fit_transform", False, "y", loc, fitted_only=False,
                      what="the series the final forecaster is fitted on")
    for p in ("X", "fh"):
        forwarded(ctx, res, "R1", C + ":forward:" + p, b.get(p), P(p), "%s forwarded unchanged to the final forecaster" % p,
                  "the final forecaster's `%s` is not the caller's `%s`" % (p, p), loc)
    unconditional = res.unconditional(ef)
    ctx.check(unconditional, "R1", C + ":final-forecaster:always", "final fit is executed on every path",
              "the final forecaster is fitted only on some paths", loc)
    # the fitted objects are the ones remembered in steps_
    sets = [e for e in res.of_kind("setitem") if "steps_" in note_base_attrs(res, e)]
    if got is not None:
        ch, tl, est = got
        cl = is_clone_of(res, est.recv)
        ctx.check(cl is not None, "R1", C + ":transformer-clone", "each transformer is a clone of the step",
                  "transformers are fitted without `clone` (constructor arguments are mutated)", loc_of(est))
        st = [e for e in sets if res.loops_of(e)[-1:] == [ch.loop.id]]
        later = [e for e in res.stores("steps_") if e.id > est.id]
        key = C + ":store-transformer"
        if len(st) == 1:
            s = st[0]
            v = s.value
            pair = isinstance(v, tuple) and v[0] == "tuple" and len(v[1]) == 2
            if not pair:
                ctx.undecided("R1", key, "steps_[...] receives %s" % res.fmt(v), loc_of(s))
            elif v[1][1] == tl.transformer or (is_clone_of(res, v[1][1]) == tl.transformer and v[1][1] != est.recv):
                ctx.violation("R1", key, "steps_[i] receives %s, not the clone that was fitted (later calls use an unfitted transformer)"
                              % res.fmt(v[1][1]), loc_of(s))
            elif v[1][1] != est.recv:
                ctx.undecided("R1", key, "steps_[i] receives %s" % res.fmt(v[1][1]), loc_of(s))
            elif as_position(res, s.index) != tl.index or tl.rev or const(tl.sl[1] if tl.sl else NONE, 0) not in (None, 0):
                pidx = as_position(res, s.index)
                if is_const(pidx) or (isinstance(pidx, tuple) and pidx[0] == "idx") or \
                        (isinstance(pidx, tuple) and pidx[0] == "binop" and tl.index in pidx[2:] and any(is_const(x) and x[1] for x in pidx[2:])):
                    ctx.violation("R1", key, "the fitted transformer is stored at position %s, not at its own position" % res.fmt(s.index), loc_of(s))
                else:
                    ctx.undecided("R1", key, "cannot relate the store index %s to the loop position" % res.fmt(s.index), loc_of(s))
            else:
                ctx.ok("R1", key, "steps_[i] = (name_i, fitted clone_i)", loc_of(s))
        elif not st and not later:
            ctx.violation("R1", key, "the fitted transformers are not written back to steps_ (later calls would use unfitted ones)", loc)
        else:
            ctx.undecided("R1", key, "fitted transformers are remembered in a way the rule does not interpret", loc)
    fin = [e for e in sets if not res.loops_of(e) and e.index == ("const", -1)]
    key = C + ":store-forecaster"
    if len(fin) == 1:
        v = fin[0].value
        pair = isinstance(v, tuple) and v[0] == "tuple" and len(v[1]) == 2
        if pair and v[1][1] == ef.recv:
            ctx.ok("R1", key, "steps_[-1] = (name, the fitted forecaster)", loc_of(fin[0]))
        elif pair and (last_step_component(v[1][1], 1) or (is_clone_of(res, v[1][1]) is not None and v[1][1] != ef.recv)):
            ctx.violation("R1", key, "steps_[-1] receives %s, not the forecaster that was fitted" % res.fmt(v[1][1]), loc_of(fin[0]))
        else:
            ctx.undecided("R1", key, "steps_[-1] receives %s" % res.fmt(v), loc_of(fin[0]))
    elif not fin and not [e for e in res.stores("steps_") if e.id > ef.id]:
        ctx.violation("R1", key, "the fitted forecaster is not stored in steps_[-1] (predict would use the unfitted original)", loc)
    else:
        ctx.undecided("R1", key, "the fitted forecaster is remembered in a way the rule does not interpret", loc)


def has_tag_fact(res, e, transformer):
    """Path facts of ``e`` relative to its innermost loop, split into (tag facts, other facts)."""
    tag, other = [], []
    idx = max([i for i, c in enumerate(e.ctx) if c[0] == "loop"] or [-1])
    for cond, pol, origin in res.facts(e, upto=idx + 1):
        ce = res.ret_event(cond)
        if ce is not None and ce.target is not None and ce.target.dotted == "sktime.utils._has_tag" and ce.bound:
            tag.append((ce, pol))
        else:
            other.append((cond, pol))
    return tag, other


def declared_tags(repo):
    tags = set()
    root = repo.cls(TBASE + ":BaseTransformer")
    for k in [root] + repo.subclasses(root):
        d = k.class_attrs.get("_tags")
        if isinstance(d, ast.Dict):
            for key in d.keys:
                if isinstance(key, ast.Constant) and isinstance(key.value, str):
                    tags.add(key.value)
    return tags


def r1_predict(ctx, repo, cls):
    res = analysed(ctx, Prov(repo, no_inline=("_has_tag",)).run_method(cls, "_predict"))
    C = "TransformedTargetForecaster._predict"
    fn = repo.lookup_method(cls, "_predict")[1]
    loc0 = ctx.loc(cls.module, fn)
    rets = [(v, c) for v, c in res.returns]
    if len(rets) > 1:
        # returns from inside a loop are early exits of that loop (reported by the range obligation below)
        outer = [(v, c) for v, c in rets if not any(x[0] == "loop" for x in c)]
        if len(outer) == 1:
            rets = outer
    if len(rets) != 1:
        ctx.undecided("R1", C + ":result", "expected a single return, found %d" % len(rets), loc0)
        return
    value = rets[0][0]
    preds = [e for e in res.calls("predict", kind=("call",)) if e.target.kind == "attr"]
    pe = [e for e in preds if last_step_component(e.recv, 1)]
    if not pe and wrong_step(ctx, res, C + ":forecast", preds, "predict"):
        return
    if len(pe) != 1:
        ctx.undecided("R1", C + ":forecast", "expected one predict call on the final step, found %d" % len(pe), loc0)
        return
    pe = pe[0]
    ctx.check(last_step_component(pe.recv, 1) == "steps_", "R1", C + ":forecast:receiver", "forecast comes from the fitted steps_[-1]",
              "forecast is requested from the constructor's unfitted steps[-1]", loc_of(pe))
    b = pe.bind(fsig(repo, "predict"))
    for p in astq.param_names(fn, skip_self=True):
        if b is None:
            ctx.undecided("R1", C + ":forecast:forward:" + p, "cannot bind the predict call", loc_of(pe))
        else:
            forwarded(ctx, res, "R1", C + ":forecast:forward:" + p, b.get(p), P(p), "%s forwarded to the final forecaster" % p,
                      "the final forecaster does not receive the caller's `%s`" % p, loc_of(pe))
    if value == ("ret", pe.id):
        ctx.violation("R1", C + ":inverse-chain", "the forecast is returned in the transformed representation (no inverse transform applied)", loc0)
        return
    ch = Chain(res, value)
    if ch.ok and ch.init != ("ret", pe.id):
        ctx.violation("R1", C + ":inverse-chain:init", "the inverse chain does not start from the final forecaster's forecast but from %s"
                      % res.fmt(ch.init), loc0)
    got = check_chain(ctx, res, C + ":inverse-chain", value, "inverse_transform", True, "<forecast>", loc0, conditional=True,
                      what="the returned forecast")
    if got is None:
        return
    ch, tl, e = got
    tag, other = has_tag_fact(res, e, tl.transformer)
    loc = loc_of(e)
    if other:
        ctx.undecided("R1", C + ":skip-tag", "inverse transform guarded by conditions the rule does not know: %s"
                      % [res.fmt(c) for c, _ in other], loc)
        return
    if not tag:
        if not ch.passthrough:
            ctx.violation("R1", C + ":skip-tag", "every transformer is inverted; the `%s` tag is not honoured" % SKIP_TAG, loc)
        else:
            ctx.undecided("R1", C + ":skip-tag", "inverse transform is conditional but not on the tag", loc)
        return
    if len(tag) != 1:
        ctx.undecided("R1", C + ":skip-tag", "several tag tests guard the inverse transform", loc)
        return
    te, pol = tag[0]
    tagname = const(te.bound.get("tag"))
    ctx.check(te.bound.get("Estimator") == tl.transformer, "R1", C + ":skip-tag:subject", "the tag is read from the transformer being inverted",
              "the tag is read from %s, not from the transformer being inverted" % res.fmt(te.bound.get("Estimator")), loc)
    ctx.check(tagname == SKIP_TAG and tagname in declared_tags(repo), "R1", C + ":skip-tag:name",
              "tag `%s` is the one declared by the transformers" % SKIP_TAG,
              "tag tested is %r; transformers declare %r" % (tagname, SKIP_TAG), loc)
    ctx.check(pol is False, "R1", C + ":skip-tag:polarity", "inverse applied iff the transformer does NOT carry the tag",
              "inverted tag test: the inverse transform is applied only to transformers tagged `%s`" % SKIP_TAG, loc,
              witness={"fact": "%s is %s" % (res.fmt(("ret", te.id)), pol)})


def r1_tag_helpers(ctx, repo):
    """R1 models ``_has_tag(est, tag)`` as "the value of that tag for est's class, False when undeclared, the most
    derived class winning".  Decide that contract from the helpers' own source."""
    umod = repo.module("sktime/utils/__init__.py")
    fn = repo.func("sktime/utils/__init__.py", "_has_tag")
    res = analysed(ctx, Prov(repo).run_func(umod, fn))
    C = "_has_tag"
    loc0 = ctx.loc(umod, fn)
    pn = astq.param_names(fn)
    est, tag = P(pn[0]), P(pn[1])
    rets = [v for v, _ in res.returns]
    verdict = None
    why = ""
    if len(rets) == 1:
        v = rets[0]
        e = res.ret_event(v)
        tags_of = lambda t: (res.ret_event(t) is not None and res.ret_event(t).name == "_all_tags" and res.ret_event(t).recv == est)  # noqa: E731
        if e is not None and e.kind == "call" and e.target.kind == "attr" and e.name == "get" and tags_of(e.recv) and e.args[:1] == (tag,):
            d = e.arg(1, "default")
            if d is None or (is_const(d) and not d[1]):
                verdict = True
            elif is_const(d):
                verdict, why = False, "an undeclared tag defaults to %r" % (d[1],)
        elif isinstance(v, tuple) and v[0] == "item" and tags_of(v[1]) and v[2] == tag:
            verdict = True
        elif isinstance(v, tuple) and v[0] == "cmp" and v[1] in ("In", "NotIn") and v[2] == tag and (tags_of(v[3]) or (
                res.ret_event(v[3]) is not None and res.ret_event(v[3]).name == "keys" and tags_of(res.ret_event(v[3]).recv))):
            verdict, why = False, "it tests whether the tag is *declared* (`tag in tags`), so a tag declared with the value False counts as set"
    ctx.check(verdict, "R1", C + ":returns-tag-value", "_has_tag returns the tag's value (False when undeclared)",
              "_has_tag does not return the value of the tag: %s" % (why or [res.fmt(v) for v in rets]), loc0,
              witness={"class": "a transformer with _tags = {'skip-inverse-transform': False}", "effect": "its inverse transform is skipped in _predict"})
    # _all_tags: the most derived class's declaration wins
    bcls = repo.cls("sktime/base/_base.py:BaseEstimator")
    afn = repo.func("sktime/base/_base.py", "BaseEstimator._all_tags")
    ares = analysed(ctx, Prov(repo).run_method(bcls, "_all_tags"))
    C = "BaseEstimator._all_tags"
    aloc = ctx.loc(bcls.module, afn)
    ups = [e for e in ares.calls("update", kind=("call",)) if e.target.kind == "attr" and ares.loops_of(e)]
    verdict = None
    why = ""
    if len(ups) == 1 and [v for v, _ in ares.returns] == [ups[0].recv]:
        u = ups[0]
        L = ares.loops[ares.loops_of(u)[-1]]
        a0 = u.args[0] if u.args else None
        view = element_view(ares, a0[1]) if isinstance(a0, tuple) and len(a0) == 3 and a0[0] == "getattr" and a0[2] == "_tags" else None
        base, rev, sl, be = None, False, None, None
        if view is not None and view[2] == L.id:
            base, rev, sl = seq_shape(view[0])
            rev = rev != view[1]
            be = ares.ret_event(base)
        if be is not None and be.target is not None and be.target.kind == "ext" and be.target.ext == "inspect.getmro" and be.args[:1] == (("self",),) \
                and sl == ("slice", NONE, ("const", -2), NONE) and not ares.early_exits(L.id):
            # dict.update: later updates win; getmro lists the most derived class first
            verdict = rev
            why = "the MRO is walked most-derived-first and every class overwrites the entries collected so far, so a parent's value overrides the subclass's"
    ctx.check(verdict, "R1", C + ":subclass-overrides-parent", "tags are merged base-first: a subclass's declaration overrides its parents'",
              "tag inheritance is inverted: %s" % why if verdict is False else "cannot interpret how the class tags are merged", aloc,
              witness={"classes": "class T(Imputer): _tags = {'skip-inverse-transform': False}", "effect": "T still counts as skip-inverse-transform"})


def r1_update(ctx, repo, cls):
    res = analysed(ctx, Prov(repo, no_inline=("_has_tag",)).run_method(cls, "update"))
    C = "TransformedTargetForecaster.update"
    fn = repo.lookup_method(cls, "update")[1]
    loc0 = ctx.loc(cls.module, fn)
    ups = [e for e in res.calls("update", kind=("call",)) if e.target.kind == "attr"]
    fin = [e for e in ups if last_step_component(e.recv, 1)]
    if not fin and wrong_step(ctx, res, C + ":final-forecaster", ups, "update"):
        pass
    elif not fin:
        ctx.ok("R1", C + ":final-forecaster-data", "the final forecaster is not updated here (representation clause vacuous; propagation is C10-R4)", loc0,
               nontrivial=False)
    elif len(fin) != 1:
        ctx.undecided("R1", C + ":final-forecaster", "expected one update call on the final step, found %d" % len(fin), loc0)
    else:
        ef = fin[0]
        b = ef.bind(fsig(repo, "update"))
        if b is None or "y" not in b:
            ctx.undecided("R1", C + ":final-forecaster-data", "cannot bind the final update call", loc_of(ef))
        else:
            ctx.check(last_step_component(ef.recv, 1) == "steps_", "R1", C + ":final-forecaster:receiver", "the fitted final forecaster is updated",
                      "update is sent to the constructor's unfitted steps[-1]", loc_of(ef))
            check_chain(ctx, res, C + ":final-forecaster-data", b["y"], "transform", False, "y", loc_of(ef),
                        what="the series handed to the final forecaster's update")
            ctx.check(res.unconditional(ef), "R1", C + ":final-forecaster:always", "the final forecaster sees every update of the pipeline",
                      "the final forecaster is updated only on some paths (%s): after the other updates its remembered series and cutoff lag "
                      "behind the pipeline's, so predict no longer equals the composition of the parts"
                      % ", ".join("%s is %s" % (res.fmt(c), p) for c, p, _ in res.facts(ef)), loc_of(ef),
                      witness={"history": "fit(y1); update(y2, update_params=False); predict()"})
    # steps_[i] = (name, est) in update may only put back the estimator that already sits at position i
    for st_ in [e for e in res.of_kind("setitem") if "steps_" in note_base_attrs(res, e) or step_attr(e.base) == "steps_"]:
        v = st_.value
        if not (isinstance(v, tuple) and v[0] == "tuple" and len(v[1]) == 2):
            continue
        est_sc = step_component(v[1][1], 1)
        key = C + ":restore-position"
        if is_const(st_.index) and est_sc is not None:
            if est_sc[1] == st_.index[1]:
                ctx.ok("R1", key + ":%d" % st_.index[1], "steps_[%d] keeps its own estimator" % st_.index[1], loc_of(st_))
            else:
                ctx.violation("R1", key + ":%d" % st_.index[1], "steps_[%d] is overwritten with the estimator of steps_[%d]: the pipeline's "
                              "steps are no longer (transformers..., forecaster)" % (st_.index[1], est_sc[1]), loc_of(st_),
                              witness={"history": "fit(y1); update(y2); predict(): a transformer slot now holds the forecaster"})
        elif res.loops_of(st_):
            tl_ = TLoop(res, res.loops[res.loops_of(st_)[-1]])
            if v[1][1] == tl_.transformer:
                ctx.check(as_position(res, st_.index) == tl_.index and not tl_.rev and const(tl_.sl[1] if tl_.sl else NONE, 0) in (None, 0), "R1", key + ":transformers",
                          "each transformer is put back at its own position", "a transformer is written to position %s, not to its own"
                          % res.fmt(st_.index), loc_of(st_))
    # transformer updates
    tu = [e for e in ups if e not in fin and res.loops_of(e)]
    if not tu:
        ctx.ok("R1", C + ":transformer-data", "no transformer is updated here (representation clause vacuous; propagation is C10-R4)", loc0, nontrivial=False)
        return
    for e in tu:
        L = res.loops[res.loops_of(e)[-1]]
        tl = TLoop(res, L)
        loc = loc_of(e)
        if e.recv != tl.transformer:
            ctx.undecided("R1", C + ":transformer-data", "update call on %s inside a loop" % res.fmt(e.recv), loc)
            continue
        pos = tpos(repo, "update")
        bb = bind_interface(e, pos) if pos else None
        if bb is None or bb[0] is None:
            ctx.undecided("R1", C + ":transformer-data", "cannot bind the transformer update call", loc)
            continue
        data = bb[0]
        ch = Chain(res, data)
        if not ch.ok:
            if strip_views(data) == P("y"):
                ctx.violation("R1", C + ":transformer-data",
                              "transformer j is updated with the untransformed `y`; in fit it saw CHAIN_{<j}(fit_transform)(y) "
                              "(wrong representation for every transformer after the first)", loc,
                              witness={"argument": res.fmt(data), "history": "fit(y); update(y_new) with >= 2 transformers"})
            else:
                ctx.undecided("R1", C + ":transformer-data", "transformer update receives %s" % res.fmt(data), loc)
            continue
        if ch.loop is not L:
            ctx.violation("R1", C + ":transformer-data", "transformer update receives a value carried by another loop", loc)
            continue
        got = check_chain(ctx, res, C + ":transformer-data", data, "transform", False, "y", loc,
                          what="the series handed to transformer j's update")
        _ = got
        check_tloop(ctx, C + ":transformer-update", tl, False, True, loc)


def r1_transform(ctx, repo, cls, method, want_rev):
    res = analysed(ctx, Prov(repo, no_inline=("_has_tag",)).run_method(cls, method))
    C = "TransformedTargetForecaster." + method
    fn = repo.lookup_method(cls, method)[1]
    loc0 = ctx.loc(cls.module, fn)
    first = astq.param_names(fn, skip_self=True)[0]
    rets = [v for v, _ in res.returns]
    if len(rets) != 1:
        ctx.undecided("R1", C + ":chain", "expected a single return", loc0)
        return
    check_chain(ctx, res, C + ":chain", rets[0], method, want_rev, first, loc0, what="the returned series")


# ------------------------------------------------------------------------------------------ R2 ensemble
def member_source(t, attr="forecasters"):
    """Is ``t`` 'the estimator of one element of self.<attr>'?  Returns (loop id, slice or None) or None."""
    if not isinstance(t, tuple):
        return None
    if t[0] == "item" and not (t[2] == ("const", 1) and isinstance(t[1], tuple) and t[1][:1] == ("elem",)):
        ev_ = element_view(None, t)  # for i in range(len(seq)): seq[i]
        if ev_ is not None and not ev_[1]:
            t = ("elem", ev_[0], ev_[2])
    if t[0] == "elem":
        base, rev, sl = seq_shape(t[1])
        if base == ("item", ("unzip", ("attr0", attr)), ("const", 1)):
            return t[2], sl
    if t[0] == "item" and t[2] == ("const", 1) and isinstance(t[1], tuple) and t[1][0] == "elem":
        base, rev, sl = seq_shape(t[1][1])
        if base == ("attr0", attr):
            return t[1][2], sl
    return None


def member_fit_events(res):
    """fit calls on (clones of) ensemble members: list of (event, cloned?, loop id, slice)."""
    out = []
    for e in res.calls("fit", kind=("call",)):
        if e.target.kind != "attr":
            continue
        src = is_clone_of(res, e.recv)
        ms = member_source(src if src is not None else e.recv)
        if ms is not None:
            out.append((e, src is not None, ms[0], ms[1]))
    return out


def complementary(res, events):
    """The events are the alternatives of one action: exactly one of them is executed on every normal path
    (one unconditional site, or the two branches of one test), loops aside."""
    ctxs = [[c for c in res.structural(e) if c[0] != "loop"] for e in events]
    if len(events) == 1:
        return not ctxs[0]
    if len(events) == 2 and all(len(c) == 1 and c[0][0] == "if" for c in ctxs):
        a, b = ctxs[0][0], ctxs[1][0]
        return a[3] == b[3] and a[2] != b[2]
    return False


def phase_key(e):
    """The helper call of the analysed method inside which the event happened (first inline marker), else the event itself."""
    for c in e.ctx:
        if c[0] == "inline":
            return ("call", c[1])
    return ("event", e.id)


def fitted_sites(res, t):
    """All member-fit events whose results may make up the list ``t`` (one per alternative of the value)."""
    out = set()
    for a in alts(t) if t is not None else ():
        e = fitted_list_event(res, a)
        if e is None:
            return None
        out.add(e)
    return out


def fitted_list_event(res, t):
    """``t`` = list of the results of one member-fit event (or of its receivers) -> that event."""
    base, rev, sl = seq_shape(res.as_seq(t))
    if sl is not None or not (isinstance(base, tuple) and base[0] == "comp"):
        return None
    elt = base[1]
    e = res.ret_event(elt)
    if e is not None and e.kind == "call" and e.name == "fit":
        return e
    for ev in res.calls("fit", kind=("call",)):
        if ev.recv == elt:
            return ev
    return None


def loop_plain(res, lid):
    """The loop / comprehension visits every element (no filter)."""
    L = res.loops[lid]
    node = L.node
    if isinstance(node, (ast.ListComp, ast.GeneratorExp, ast.SetComp)):
        return all(not g.ifs for g in node.generators)
    return not res.early_exits(lid)


def r2_fit(ctx, repo, cls):
    res = analysed(ctx, Prov(repo).run_method(cls, "fit"))
    C = cls.name + ".fit"
    fn = repo.lookup_method(cls, "fit")[1]
    loc0 = ctx.loc(cls.module, fn)
    check_first_call_only(ctx, res, "R2", C, loc_of)
    sig = fsig(repo, "fit")
    mf = member_fit_events(res)
    if not mf and not [e for e in res.calls("fit", kind=("call",)) if e.target.kind == "attr"]:
        ctx.violation("R2", C + ":all-members", "the members are never fitted", loc0)
        return
    if len({phase_key(x[0]) for x in mf}) != 1 and len(mf) != 1:
        ctx.undecided("R2", C + ":members", "expected one member fit phase, found %d sites in several places" % len(mf), loc0)
        return
    for e, cloned, L, msl in mf:
        loc = loc_of(e)
        ctx.check(cloned, "R2", C + ":member-clone", "each member is a clone of the constructor argument",
                  "members are fitted without `clone`: the caller's estimators are mutated and shared", loc)
        b = e.bind(sig)
        for p in sig:
            if b is None:
                ctx.undecided("R2", C + ":member-data:" + p, "cannot bind the member fit call", loc)
            else:
                forwarded(ctx, res, "R2", C + ":member-data:" + p, b.get(p), P(p), "members receive the caller's %s" % p,
                          "members are not fitted with the caller's `%s`%s" % (p, " on the path where %s" % ", ".join(
                              "%s is %s" % (res.fmt(c), pol) for c, pol, o in res.facts(e) if o == "if") if len(mf) > 1 else ""), loc)
    sites = [x[0] for x in mf]
    loc = loc_of(sites[0])
    ctx.check(complementary(res, sites) and all(loop_plain(res, L) and msl is None for _, _, L, msl in mf), "R2", C + ":all-members",
              "every member is fitted on every path", "some members are not fitted (conditional fit, filtered or sliced loop)", loc)
    stored = res.heap.get("forecasters_")
    fs = fitted_sites(res, stored) if stored is not None else None
    if fs is not None and fs == set(sites):
        ctx.ok("R2", C + ":store", "forecasters_ holds the fitted clones", loc)
    elif stored is None or not any(mentions(res, stored, ("ret", e.id)) or mentions(res, stored, e.recv) for e in sites):
        ctx.violation("R2", C + ":store", "forecasters_ is %s, not the list of fitted clones"
                      % (res.fmt(stored) if stored is not None else "not assigned"), loc)
    else:
        ctx.undecided("R2", C + ":store", "forecasters_ = %s" % res.fmt(stored), loc)


AGGS = ("mean", "median", "min", "max")


def axis_check(ctx, res, construct, axis, what, loc):
    """axis must select 'across columns' (one column per member): 1 / "columns"."""
    if axis in (("const", 1), ("const", "columns")):
        ctx.ok("R2", construct, "%s across members (axis=1)" % what, loc)
    elif axis is None or axis in (("const", 0), ("const", "index"), ("const", "rows"), ("const", None)):
        ctx.violation("R2", construct, "%s with axis=%s: along time instead of across members"
                      % (what, "default 0" if axis is None else repr(axis[1])), loc)
    else:
        ctx.undecided("R2", construct, "%s with axis=%s" % (what, res.fmt(axis)), loc)


def r2_predict(ctx, repo, cls):
    res = analysed(ctx, Prov(repo).run_method(cls, "_predict"))
    C = "EnsembleForecaster._predict"
    fn = repo.lookup_method(cls, "_predict")[1]
    loc0 = ctx.loc(cls.module, fn)
    concat = [e for e in res.calls("concat", kind=("call",)) if e.target.kind == "ext" and e.target.ext == "pandas.concat"]
    if len(concat) != 1:
        ctx.undecided("R2", C + ":concat", "expected one pandas.concat of the member forecasts, found %d" % len(concat), loc0)
        return
    ce = concat[0]
    axis_check(ctx, res, C + ":concat-axis", ce.arg(1, "axis"), "member forecasts are concatenated", loc_of(ce))
    objs = ce.arg(0, "objs")
    base, rev, sl = seq_shape(res.as_seq(objs)) if objs is not None else (None, False, None)
    pe = res.ret_event(base[1]) if isinstance(base, tuple) and base[0] == "comp" else None
    if pe is None or pe.name != "predict":
        ctx.undecided("R2", C + ":members", "concatenated objects are not the member forecasts: %s" % res.fmt(objs), loc_of(ce))
        return
    L = res.loops[base[2]]
    mb, mrev, msl = seq_shape(L.iter)
    ctx.check(mb == ("attr0", "forecasters_") and msl is None and sl is None and loop_plain(res, L.id) and pe.recv == ("elem", L.iter, L.id),
              "R2", C + ":members", "one forecast per fitted member (all of forecasters_)",
              "the forecasts aggregated are not those of all fitted members: iterates %s" % res.fmt(L.iter), loc_of(pe))
    b = pe.bind(fsig(repo, "predict"))
    for p in ("fh", "X"):
        if b is None:
            ctx.undecided("R2", C + ":members:forward:" + p, "cannot bind the member predict call", loc_of(pe))
        else:
            forwarded(ctx, res, "R2", C + ":members:forward:" + p, b.get(p), P(p), "members predict for the caller's %s" % p,
                      "members do not predict with the caller's `%s`" % p, loc_of(pe))
    # --- aggregator table
    opt = ("attr0", "aggfunc")
    valid = None
    reject = None
    for r in res.of_kind("raise"):
        for cond, pol, origin in res.facts(r):
            if isinstance(cond, tuple) and cond[0] == "cmp" and cond[2] == opt and cond[1] in ("NotIn", "In"):
                names = cond[3]
                if isinstance(names, tuple) and names[0] in ("tuple", "list", "set") and all(is_const(x) for x in names[1]):
                    if (cond[1] == "NotIn") == pol:
                        valid, reject = [x[1] for x in names[1]], r
    rets = [r for r in res.of_kind("return") if r.frame is res.frame]
    table = {}  # option name -> set of operator names applied
    dynamic = False
    bad_shape = []
    for r, a in [(r, a) for r in rets for a in sorted(alts(r.value), key=repr)]:
        ae = res.ret_event(a)
        op = None
        if ae is not None and ae.target is not None and ae.target.kind == "attr" and ae.recv == ("ret", ce.id):
            op = ae.name
        elif ae is not None and ae.target is not None and ae.target.kind == "value" and isinstance(ae.recv, tuple) and len(ae.recv) == 3 \
                and ae.recv[0] == "getattr" and ae.recv[1] == ("ret", ce.id) and isinstance(ae.recv[2], str):
            op = ae.recv[2]
        elif ae is not None and ae.target is not None and ae.target.kind == "value" and ae.recv == ("getattr_dyn", ("ret", ce.id), opt):
            op = "<option>"
            dynamic = True
        if op is None and ae is not None and ae.target is not None and ae.target.kind == "value" and isinstance(ae.recv, tuple) \
                and ae.recv[0] == "item" and ae.recv[2] == opt and isinstance(ae.recv[1], tuple) and ae.recv[1][0] == "dict":
            # dispatch table {"name": y_pred.<operator>, ...}[self.aggfunc](axis=1): one table row per key
            rows, shape_ok = [], True
            for k_, v_ in ae.recv[1][1]:
                if is_const(k_) and isinstance(k_[1], str) and isinstance(v_, tuple) and v_[0] == "getattr" and v_[1] == ("ret", ce.id):
                    rows.append((k_[1], v_[2]))
                else:
                    shape_ok = False
            if shape_ok and rows:
                axis_check(ctx, res, C + ":aggregate-axis:<table>", ae.arg(0, "axis"), "the dispatched aggregate runs", loc_of(ae))
                for nm_, op_ in rows:
                    table.setdefault(nm_, set()).add(op_)
                continue
        if op is None:
            bad_shape.append(r)
            continue
        axis_check(ctx, res, C + ":aggregate-axis:" + op, ae.arg(0, "axis"), "`.%s` aggregates" % op, loc_of(ae))
        true_names, false_names, unknown = [], [], []
        seen_f = []
        for cond, pol, origin in res.facts(ae) + res.facts(r):
            if (cond, pol) in seen_f:
                continue
            seen_f.append((cond, pol))
            if isinstance(cond, tuple) and cond[0] == "cmp" and opt in (cond[2], cond[3]) and cond[1] in ("Eq", "NotEq"):
                other = cond[3] if cond[2] == opt else cond[2]
                if is_const(other):
                    (true_names if (cond[1] == "Eq") == pol else false_names).append(other[1])
                    continue
            if isinstance(cond, tuple) and cond[0] == "cmp" and cond[2] == opt and cond[1] in ("In", "NotIn"):
                continue
            if origin == "raise":
                continue
            unknown.append(cond)
        if unknown:
            ctx.undecided("R2", C + ":aggregator", "aggregation guarded by unknown conditions %s" % [res.fmt(u) for u in unknown], loc_of(r))
            return
        if true_names:
            for nm in true_names:
                table.setdefault(nm, set()).add(op)
        else:
            table.setdefault(("default", tuple(sorted(map(str, false_names)))), set()).add(op)
    if bad_shape:
        if all(mentions(res, r.value, ("ret", ce.id)) for r in bad_shape) and valid is not None:
            # weaker, still sound clause: every result is computed from the column-wise concatenation of all member forecasts,
            # after the membership test; the name <-> operator table itself is not compared for this dispatch shape
            ctx.info("EnsembleForecaster._predict: the aggregate is produced by a dispatch the rule does not interpret (%s); "
                     "name <-> operator table not compared, membership test / concatenation / member rules remain" % res.fmt(bad_shape[0].value)[:160])
            ctx.ok("R2", C + ":aggregator", "every result is computed from the concatenated member forecasts (operator table not compared)",
                   loc_of(bad_shape[0]), nontrivial=False)
            return
        ctx.undecided("R2", C + ":aggregator", "a return value is not an aggregate of the concatenated forecasts: %s"
                      % res.fmt(bad_shape[0].value), loc_of(bad_shape[0]))
        return
    if valid is None:
        ctx.violation("R2", C + ":membership-check", "no rejecting membership test on `aggfunc`: an unknown option silently falls into the default branch", loc0)
        valid = list(AGGS)
    else:
        # the membership test must be passed before any aggregate is returned: every return carries the
        # negated membership condition as a fact that persists after the rejecting branch
        def passed_check(r):
            if any(cond[0] == "cmp" and cond[2] == opt and cond[1] in ("In", "NotIn") and origin == "raise"
                   for cond, pol, origin in res.facts(r) if isinstance(cond, tuple)):
                return True
            # the test lives in a helper: the helper call dominates the return and inside it the raise hangs on that test alone
            inl = [c for c in reject.ctx if c[0] == "inline"]
            if inl:
                call_ev = res.events[inl[-1][1]]
                pos = max(i for i, c in enumerate(reject.ctx) if c[0] == "inline")
                inside = [c for c in reject.ctx[pos + 1:] if c[0] != "inline"]
                return len(inside) == 1 and inside[0][0] == "if" and res.dominates(call_ev, r) and res.unconditional(call_ev)
            return False

        pre = all(passed_check(r) for r in rets)
        ctx.check(pre, "R2", C + ":membership-check", "unknown `aggfunc` is rejected before any aggregate is computed",
                  "an aggregate can be returned without passing the membership test", loc_of(reject))
    for nm in AGGS:
        key = C + ":aggregator:" + nm
        if nm not in valid:
            ctx.violation("R2", key, "documented option %r is rejected by the membership test %r" % (nm, valid), loc_of(reject) if reject else loc0)
            continue
        ops = set(table.get(nm, ()))
        if not ops:
            for k, v in table.items():
                if isinstance(k, tuple) and k[0] == "default" and nm not in k[1]:
                    ops |= v
        if not ops:
            ctx.violation("R2", key, "no return path serves option %r" % nm, loc0)
        elif ops == {nm} or ops == {"<option>"}:
            ctx.ok("R2", key, "option %r -> .%s(axis=1)" % (nm, nm if not dynamic else "getattr(aggfunc)"), loc0)
        else:
            ctx.violation("R2", key, "option %r is answered with .%s of the member forecasts" % (nm, "/.".join(sorted(ops))), loc0,
                          witness={"option": nm, "operator": sorted(ops)})
    extra = [v for v in valid if v not in AGGS]
    for nm in extra:
        ops = set(table.get(nm, ()))
        if not ops:
            for k, v in table.items():
                if isinstance(k, tuple) and k[0] == "default" and nm not in k[1]:
                    ops |= v
        ctx.check(ops == {nm} or ops == {"<option>"}, "R2", C + ":aggregator:" + str(nm), "extra option %r -> .%s" % (nm, nm),
                  "accepted option %r is answered with .%s" % (nm, "/.".join(sorted(ops)) or "nothing"), loc0)



# ------------------------------------------------------------------------------------------ R2 online ensemble (structure of the weighting)
def r2_online(ctx, repo):
    """OnlineEnsembleForecaster: the *structure* of the weighted combination (not the weight values): uniform initial
    weights, forecast = sum over members of (member forecast x current weight), the weights are learned from member
    forecasts made *before* the members see the new batch, for every non-empty batch when an algorithm is configured."""
    cls = repo.cls(ONLINE + ":OnlineEnsembleForecaster")
    # --- fit: uniform weights
    res = analysed(ctx, Prov(repo).run_method(cls, "fit"))
    C = "OnlineEnsembleForecaster.fit"
    ws = res.stores("weights")
    members = ("item", ("unzip", ("attr0", "forecasters")), ("const", 1))
    n = ("len", members)
    if len(ws) == 1:
        v = ws[0].value
        ones = res.ret_event(v[2]) if isinstance(v, tuple) and v[:2] == ("binop", "Div") else None
        good = (ones is not None and ones.target.kind == "ext" and ones.target.ext == "numpy.ones" and ones.args[:1] == (n,) and v[3] == n)
        if good:
            ctx.ok("R2", C + ":initial-weights", "initial weights are uniform: ones(n) / n", loc_of(ws[0]))
        elif isinstance(v, tuple) and v[0] == "binop" and v[1] != "Div" and res.ret_event(v[2]) is not None and res.ret_event(v[2]).name == "ones" and v[3] == n:
            ctx.violation("R2", C + ":initial-weights", "initial weights are ones(n) %s n, not the uniform weights ones(n) / n that sum to one "
                          "(the first forecasts are n-fold / mis-scaled)" % v[1], loc_of(ws[0]))
        else:
            ctx.undecided("R2", C + ":initial-weights", "initial weights: %s" % res.fmt(v), loc_of(ws[0]))
    # --- _predict: weighted sum across members
    res = analysed(ctx, Prov(repo).run_method(cls, "_predict"))
    fn = repo.lookup_method(cls, "_predict")[1]
    C = "OnlineEnsembleForecaster._predict"
    loc0 = ctx.loc(cls.module, fn)
    rets = [v for v, _ in res.returns]
    se = res.ret_event(rets[0]) if len(rets) == 1 else None
    if se is None or se.target.kind != "attr":
        ctx.undecided("R2", C + ":weighted-sum", "result is %s" % [res.fmt(v) for v in rets], loc0)
        return
    prod = se.recv
    ok_shape = isinstance(prod, tuple) and prod[0] == "binop" and len(prod) == 4
    cat = None
    wterm = None
    if ok_shape:
        for a, b in ((prod[2], prod[3]), (prod[3], prod[2])):
            ce = res.ret_event(a)
            if ce is not None and ce.target is not None and ce.target.kind == "ext" and ce.target.ext == "pandas.concat":
                cat, wterm = ce, b
    if cat is None:
        ctx.undecided("R2", C + ":weighted-sum", "result is %s" % res.fmt(rets[0]), loc0)
        return
    wok = all((isinstance(a, tuple) and a[0] in ("attr0", "attr@") and a[1] == "weights") or a == ("getattr", ("attr0", "ensemble_algorithm"), "weights")
              for a in alts(wterm))
    if se.name == "sum" and prod[1] == "Mult" and wok:
        ctx.ok("R2", C + ":weighted-sum", "forecast = (member forecasts x weights).sum over members", loc_of(se))
    elif wok and (se.name != "sum" or prod[1] != "Mult"):
        ctx.violation("R2", C + ":weighted-sum", "the member forecasts are combined as (forecasts %s weights).%s, not as the weighted sum" % (prod[1], se.name),
                      loc_of(se))
    else:
        ctx.undecided("R2", C + ":weighted-sum", "combination: %s" % res.fmt(rets[0]), loc_of(se))
    axis_check(ctx, res, C + ":sum-axis", se.arg(0, "axis"), "the weighted forecasts are summed", loc_of(se))
    axis_check(ctx, res, C + ":concat-axis", cat.arg(1, "axis"), "member forecasts are concatenated", loc_of(cat))
    objs = cat.arg(0, "objs")
    base, rev, sl = seq_shape(res.as_seq(objs)) if objs is not None else (None, False, None)
    pe = res.ret_event(base[1]) if isinstance(base, tuple) and base[0] == "comp" else None
    if pe is None or pe.name != "predict":
        ctx.undecided("R2", C + ":members", "combined objects are not the member forecasts: %s" % res.fmt(objs), loc_of(cat))
    else:
        L = res.loops[base[2]]
        mb, mrev, msl = seq_shape(L.iter)
        ctx.check(mb == ("attr0", "forecasters_") and msl is None and sl is None and not rev and not mrev and loop_plain(res, L.id)
                  and pe.recv == ("elem", L.iter, L.id), "R2", C + ":members", "one forecast per fitted member, in member order (the order of the weights)",
                  "the forecasts combined are not those of all fitted members in member order: iterates %s" % res.fmt(L.iter), loc_of(pe))
        b = pe.bind(fsig(repo, "predict"))
        for p_ in ("fh", "X"):
            if b is None:
                ctx.undecided("R2", C + ":members:forward:" + p_, "cannot bind the member predict call", loc_of(pe))
            else:
                forwarded(ctx, res, "R2", C + ":members:forward:" + p_, b.get(p_), P(p_), "members predict for the caller's %s" % p_,
                          "members do not predict with the caller's `%s`" % p_, loc_of(pe))
    algo = ("attr0", "ensemble_algorithm")
    wst = res.stores("weights")
    if not wst and wok and not any(a == ("getattr", algo, "weights") for a in alts(wterm)):
        ctx.violation("R2", C + ":current-weights", "the forecast is combined with the weights stored on the forecaster, which are never refreshed from "
                      "the ensemble algorithm: what the algorithm learned in update() is ignored", loc_of(se),
                      witness={"history": "fit(y1); update(y2) (algorithm re-weights); predict() still uses the uniform initial weights"})
    if wst:
        s0 = wst[0]
        facts = [(c, pol) for c, pol, o in res.facts(s0) if o != "raise"]
        good = s0.value == ("getattr", algo, "weights") and facts == [(("cmp", "IsNot", algo, NONE), True)]
        if s0.value == ("getattr", algo, "weights") and facts in ([(("cmp", "IsNot", algo, NONE), False)], [(("cmp", "Is", algo, NONE), True)]):
            good = False
        ctx.check(True if good else (False if good is False and facts and facts[0][1] in (False, True) and s0.value == ("getattr", algo, "weights")
                                     and facts != [(("cmp", "IsNot", algo, NONE), True)] and len(facts) == 1
                                     and facts[0][0][:1] == ("cmp",) and {facts[0][0][2], facts[0][0][3]} == {algo, NONE} else None),
                  "R2", C + ":current-weights", "the weights are refreshed from the configured algorithm before use",
                  "the weights are refreshed from the algorithm only when *no* algorithm is configured (%s): with an algorithm the learned "
                  "weights never reach the forecast (uniform initial weights are used)" % [(res.fmt(c), p) for c, p in facts]
                  if good is False else "weights refresh: %s under %s" % (res.fmt(s0.value), [(res.fmt(c), p) for c, p in facts]), loc_of(s0),
                  witness={"history": "fit(y1); update(y2) (algorithm learns); predict() combines with the initial weights"})
    # --- update: learn from forecasts made before the members are updated
    res = analysed(ctx, Prov(repo, no_inline=("_fit_ensemble",)).run_method(cls, "update"))
    fn = repo.lookup_method(cls, "update")[1]
    C = "OnlineEnsembleForecaster.update"
    loc0 = ctx.loc(cls.module, fn)
    fe = [e for e in res.calls("_fit_ensemble", kind=("call",)) if e.target.kind == "method"]
    mu = [e for e in res.calls("update", kind=("call",)) if e.target.kind == "attr"]
    if len(fe) != 1 or fe[0].bound is None:
        ctx.check(None if fe else False, "R2", C + ":learn-weights", "", "the ensemble weights are never updated from the new observations", loc0)
        return
    f = fe[0]
    facts = [(c, pol) for c, pol, o in res.facts(f)]
    ny = ("len", P("y"))
    nonempty = [(c, pol) for c, pol in facts if isinstance(c, tuple) and c[0] == "cmp" and ny in (c[2], c[3])]
    has_algo = [(c, pol) for c, pol in facts if isinstance(c, tuple) and c[0] == "cmp" and {c[2], c[3]} == {algo, NONE}]
    other = [x for x in facts if x not in nonempty and x not in has_algo]

    def is_nonempty(c, pol):
        op, a, b = c[1], c[2], c[3]
        if not pol:
            op = {"Gt": "LtE", "GtE": "Lt", "Lt": "GtE", "LtE": "Gt", "Eq": "NotEq", "NotEq": "Eq"}.get(op)
        if a == ny:
            return (op, b) in (("GtE", ("const", 1)), ("Gt", ("const", 0)), ("NotEq", ("const", 0)))
        return (op, a) in (("LtE", ("const", 1)), ("Lt", ("const", 0)), ("NotEq", ("const", 0)))

    if other or len(nonempty) > 1 or len(has_algo) != 1:
        ctx.undecided("R2", C + ":learn-weights:guard", "weights are learned under %s" % [(res.fmt(c), p) for c, p in facts], loc_of(f))
    elif not ((has_algo[0][0][1] == "IsNot") == has_algo[0][1]):
        ctx.violation("R2", C + ":learn-weights:guard", "the weights are learned only when *no* ensemble algorithm is configured", loc_of(f))
    elif nonempty and not is_nonempty(*nonempty[0]):
        ctx.violation("R2", C + ":learn-weights:guard", "the weights are not learned from some non-empty batches (guard %s is %s): with one-step "
                      "updates the ensemble never learns" % (res.fmt(nonempty[0][0]), nonempty[0][1]), loc_of(f),
                      witness={"history": "update_predict with the default window of one observation"})
    else:
        ctx.ok("R2", C + ":learn-weights:guard", "weights are learned for every non-empty batch when an algorithm is configured", loc_of(f))
    forwarded(ctx, res, "R2", C + ":learn-weights:y", f.bound.get("y"), P("y"), "the new observations are the learning target",
              "_fit_ensemble does not receive the new observations", loc_of(f))
    forwarded(ctx, res, "R2", C + ":learn-weights:X", f.bound.get("X"), P("X"), "X forwarded", "_fit_ensemble does not receive `X`", loc_of(f))
    ctx.check(bool(mu) and all(f.id < e.id for e in mu), "R2", C + ":learn-before-member-update",
              "member forecasts used for learning are made before the members see the batch",
              "the members are updated before the weights are learned: the 'forecasts' compared with the new observations are made by members that "
              "already contain them", loc_of(f))


# ------------------------------------------------------------------------------------------ R3 multiplexer
def _subterms(t):
    out = set()
    stack = [t]
    while stack:
        x = stack.pop()
        if isinstance(x, tuple):
            out.add(x)
            stack.extend(x)
        elif isinstance(x, frozenset):
            stack.extend(x)
    return out


def r3(ctx, repo):
    cls = repo.cls(MUX + ":MultiplexForecaster")
    sel = ("attr0", "selected_forecaster")
    # --- _set_forecaster
    res = analysed(ctx, Prov(repo).run_method(cls, "_set_forecaster"))
    C = "MultiplexForecaster._set_forecaster"
    fn = repo.lookup_method(cls, "_set_forecaster")[1]
    loc0 = ctx.loc(cls.module, fn)
    stores = res.stores("_forecaster")
    if not stores:
        ctx.undecided("R3", C + ":selected-by-name", "no store to _forecaster", loc0)
    for s in stores:
        loc = loc_of(s)
        src = is_clone_of(res, s.value)
        comp = src if src is not None else s.value
        ok_shape = (isinstance(comp, tuple) and comp[0] == "item" and comp[2] == ("const", 1) and isinstance(comp[1], tuple)
                    and comp[1][0] == "elem" and seq_shape(comp[1][1]) == (("attr0", "forecasters"), False, None))
        if not ok_shape and isinstance(comp, tuple) and comp[0] == "item" and comp[2] == sel and \
                comp[1] == ("pure", "dict", (("attr0", "forecasters"),), ()):
            ctx.check(src is not None, "R3", C + ":clone", "the selected component is cloned", "the selected component is used without `clone`", loc)
            ctx.ok("R3", C + ":selected-by-name", "clones dict(forecasters)[selected_forecaster]", loc)
            continue
        ie = res.ret_event(comp[1][2]) if (not ok_shape and isinstance(comp, tuple) and comp[0] == "item" and comp[2] == ("const", 1)
                                           and isinstance(comp[1], tuple) and comp[1][0] == "item" and comp[1][1] == ("attr0", "forecasters")) else None
        if ie is not None and ie.kind == "call" and ie.target.kind == "attr" and ie.name == "index" and ie.args[:1] == (sel,):
            # forecasters[names.index(selected_forecaster)]: right iff `names` lists the component names in the order of forecasters
            names = res.as_seq(ie.recv)
            reordered = False
            while isinstance(names, tuple) and names[:1] == ("pure",) and names[1] in ("sorted", "set", "frozenset") and len(names[2]) == 1:
                reordered = True
                names = res.as_seq(names[2][0])
            base, rev, sl = seq_shape(names)
            aligned = None
            if isinstance(base, tuple) and base[0] == "comp" and sl is None:
                Ln = res.loops[base[2]]
                if seq_shape(Ln.iter) == (("attr0", "forecasters"), False, None) and base[1] == ("item", ("elem", Ln.iter, Ln.id), ("const", 0)) \
                        and loop_plain(res, Ln.id):
                    aligned = not rev and not reordered
            elif base == ("item", ("unzip", ("attr0", "forecasters")), ("const", 0)) and sl is None:
                aligned = not rev and not reordered
            ctx.check(src is not None, "R3", C + ":clone", "the selected component is cloned", "the selected component is used without `clone`", loc)
            ctx.check(aligned, "R3", C + ":selected-by-name", "clones forecasters[names.index(selected_forecaster)] with names in component order",
                      "the position of `selected_forecaster` is looked up in a name list that is not in the order of `forecasters` (sorted / reversed): "
                      "the component cloned is another one whenever the names are not already in that order" if aligned is False
                      else "cannot relate the list the name is looked up in (%s) to `forecasters`" % res.fmt(ie.recv), loc,
                      witness={"forecasters": "[('naive', f1), ('ets', f2)], selected_forecaster='naive' -> f2 is used"})
            continue
        if not ok_shape:
            if isinstance(comp, tuple) and comp[0] == "item" and isinstance(comp[1], tuple) and comp[1][0] == "item" \
                    and seq_shape(comp[1][1])[0] == ("attr0", "forecasters") and is_const(comp[1][2]):
                ctx.violation("R3", C + ":selected-by-name", "the forecaster used is the component at fixed position %r, `selected_forecaster` is ignored"
                              % (comp[1][2][1],), loc)
            else:
                ctx.undecided("R3", C + ":selected-by-name", "stored forecaster is %s" % res.fmt(s.value), loc)
            continue
        ctx.check(src is not None, "R3", C + ":clone", "the selected component is cloned", "the selected component is used without `clone`", loc)
        elem = comp[1]
        name = ("item", elem, ("const", 0))
        match, other, inexact = [], [], []
        for cond, pol, origin in res.facts(s):
            if isinstance(cond, tuple) and cond[0] == "cmp" and {cond[2], cond[3]} == {sel, name} and cond[1] in ("Eq", "NotEq"):
                match.append((cond[1] == "Eq") == pol)
            elif isinstance(cond, tuple) and cond[0] == "cmp" and {cond[2], cond[3]} == {sel, name} and cond[1] in ("In", "NotIn"):
                inexact.append(cond)
            elif isinstance(cond, tuple) and cond[0] == "cmp" and {cond[2], cond[3]} == {sel, NONE} and cond[1] in ("Is", "IsNot"):
                if (cond[1] == "IsNot") != pol:
                    match.append(False)
                continue
            else:
                other.append(cond)
        if inexact:
            ctx.violation("R3", C + ":selected-by-name", "the component is chosen by a containment test between `selected_forecaster` and the "
                          "component name (%s), not by equality: a name that is a substring of (or contains) another selects the wrong / last match"
                          % res.fmt(inexact[0]), loc, witness={"forecasters": "[('naive', f1), ('naive_drift', f2)], selected_forecaster='naive'"})
            continue
        stale = [o for o in other if any(isinstance(x, tuple) and x[:1] in (("attr0",), ("attr@",)) and x[1:2] == ("_forecaster",) for x in _subterms(o))]
        if stale:
            ctx.violation("R3", C + ":selected-by-name", "the selection also depends on the previously selected forecaster (%s): once a component "
                          "was chosen, a changed `selected_forecaster` is ignored by later fits" % ", ".join(res.fmt(o) for o in stale), loc,
                          witness={"history": "fit(); set_params(selected_forecaster=other); fit() keeps forecasting with the first component"})
            continue
        mentions_sel = any(sel in _subterms(o) for o in other)
        if other and (match or mentions_sel):
            ctx.undecided("R3", C + ":selected-by-name", "selection guarded by unknown conditions: %s" % [res.fmt(o) for o in other], loc)
        elif not match:
            ctx.violation("R3", C + ":selected-by-name", "a component is chosen without comparing its name with `selected_forecaster` "
                          "(the last component wins)", loc)
        elif all(match):
            ctx.ok("R3", C + ":selected-by-name", "clones the component whose name == selected_forecaster", loc)
        else:
            ctx.violation("R3", C + ":selected-by-name", "the component chosen is one whose name differs from `selected_forecaster`", loc)
    chk = [e for e in res.calls("_check_selected_forecaster", kind=("inline", "call"))]
    has_helper = repo.lookup_method(cls, "_check_selected_forecaster") is not None
    own_raises = [r for r in res.of_kind("raise") if any(sel in _subterms(c) for c, _, _ in res.facts(r))]
    if chk or has_helper:
        ctx.check(bool(chk) and all(res.dominates(chk[0], s) for s in stores), "R3", C + ":check-first",
                  "_check_selected_forecaster precedes the selection", "the selection is not preceded by _check_selected_forecaster on every path", loc0)
    else:
        ctx.check(bool(own_raises) and all(r.id < s.id for r in own_raises for s in stores), "R3", C + ":check-first",
                  "the rejection of unknown names precedes the selection", "the selection is not preceded by a rejection of unknown names", loc0)
    # --- unknown names are rejected (in _check_selected_forecaster, or in _set_forecaster itself when the check was merged into it)
    chk_method = "_check_selected_forecaster" if has_helper else "_set_forecaster"
    res2 = analysed(ctx, Prov(repo).run_method(cls, chk_method))
    fn2 = repo.lookup_method(cls, chk_method)[1]
    key = "MultiplexForecaster._check_selected_forecaster:rejects-unknown"
    loc2 = ctx.loc(cls.module, fn2)

    def component_kind(container):
        """0 / 1 when the container holds exactly the names / the estimators of all of self.forecasters, else None."""
        t = res2.as_seq(container)
        if isinstance(t, tuple) and t[:2] == ("pure", "dict") and t[2] == (("attr0", "forecasters"),):
            return 0
        ke = res2.ret_event(t)
        if ke is not None and ke.kind == "call" and ke.name == "keys" and ke.recv == ("pure", "dict", (("attr0", "forecasters"),), ()):
            return 0
        if isinstance(t, tuple) and t[:1] in (("set_of",), ("pure",)) and t[0] == "set_of":
            t = t[1]
        while isinstance(t, tuple) and t[:1] == ("pure",) and t[1] in ("set", "sorted", "frozenset") and len(t[2]) == 1:
            t = res2.as_seq(t[2][0])
        base, rev, sl = seq_shape(t)
        if sl is not None:
            return None
        if isinstance(base, tuple) and base[0] == "item" and base[1] == ("unzip", ("attr0", "forecasters")) and is_const(base[2]):
            return base[2][1] if base[2][1] in (0, 1) else None
        if isinstance(base, tuple) and base[0] == "comp":
            L = res2.loops[base[2]]
            if seq_shape(L.iter) == (("attr0", "forecasters"), False, None) and loop_plain(res2, L.id):
                for k in (0, 1):
                    if base[1] == ("item", ("elem", L.iter, L.id), ("const", k)):
                        return k
        return None

    verdicts = []  # True: raised iff the name is unknown; False: provably another condition; None: not interpretable
    raises = [r for r in res2.of_kind("raise") if r.frame is res2.frame]
    for r in raises:
        for cond, pol, origin in res2.facts(r):
            if isinstance(cond, tuple) and cond[0] == "cmp" and cond[1] in ("In", "NotIn") and cond[2] == sel:
                kind = component_kind(cond[3])
                unknown_name = (cond[1] == "NotIn") == pol  # the raise is reached when sel is NOT in the container
                if kind == 0:
                    verdicts.append(unknown_name)
                elif kind == 1:
                    verdicts.append(False)
                else:
                    verdicts.append(None)
            elif isinstance(cond, tuple) and cond[:2] == ("pure", "any") and len(cond[2]) == 1:
                c = cond[2][0]
                c = c[1] if isinstance(c, tuple) and c[0] == "list_of" else c
                if isinstance(c, tuple) and c[0] == "comp" and isinstance(c[1], tuple) and c[1][0] == "cmp" and c[1][1] == "Eq":
                    L = res2.loops[c[2]]
                    nm = ("item", ("elem", L.iter, L.id), ("const", 0))
                    if seq_shape(L.iter) == (("attr0", "forecasters"), False, None) and loop_plain(res2, L.id) and {c[1][2], c[1][3]} == {sel, nm}:
                        verdicts.append(pol is False)
                    else:
                        verdicts.append(None)
        # search loop: ``for name, _ in forecasters: if name == sel: return`` followed by the raise
        for L in res2.loops.values():
            if L.kind != "for" or seq_shape(L.iter) != (("attr0", "forecasters"), False, None):
                continue
            nm = ("item", ("elem", L.iter, L.id), ("const", 0))
            exits = [x for x in res2.early_exits(L.id) if x.kind == "return"]
            if exits and all(any(isinstance(c, tuple) and c[0] == "cmp" and c[1] == "Eq" and {c[2], c[3]} == {sel, nm} and pol
                                 for c, pol, _ in res2.facts(x)) for x in exits) \
                    and r.id > max(x.id for x in exits) and L.id not in res2.loops_of(r) \
                    and all(c[0] != "if" for c in res2.structural(r)):
                verdicts.append(True)
    if any(v is True for v in verdicts) and not any(v is False for v in verdicts):
        ctx.ok("R3", key, "raises exactly when selected_forecaster is not one of the component names", loc2)
    elif not raises or (verdicts and all(v is False for v in verdicts)) or (not verdicts and not any(
            sel in _subterms(c) for r in raises for c, _, _ in res2.facts(r))):
        ctx.violation("R3", key, "does not reject a `selected_forecaster` that names no component"
                      + (" (the membership test is not against the component names / has the wrong polarity)" if verdicts else ""), loc2)
    else:
        ctx.undecided("R3", key, "cannot interpret the condition under which an unknown selected_forecaster is rejected: %s"
                      % [[(res2.fmt(c), p) for c, p, _ in res2.facts(r)] for r in raises], loc2)
    # --- fit delegates to the freshly selected clone
    res3 = analysed(ctx, Prov(repo).run_method(cls, "fit"))
    fn3 = repo.lookup_method(cls, "fit")[1]
    C3 = "MultiplexForecaster.fit"
    check_first_call_only(ctx, res3, "R3", C3, loc_of)
    fits = [e for e in res3.calls("fit", kind=("call",)) if e.target.kind == "attr"]
    sf = res3.calls("_set_forecaster", kind=("inline", "call"))
    if not fits:
        ctx.violation("R3", C3 + ":delegate", "the selected forecaster is never fitted", ctx.loc(cls.module, fn3))
    elif len(fits) == 1 and not sf and not res3.stores("_forecaster"):
        ctx.violation("R3", C3 + ":delegate", "fit is delegated to whatever _forecaster held before: the selection (_set_forecaster) is not performed",
                      loc_of(fits[0]))
    elif len(fits) != 1 or not sf:
        ctx.undecided("R3", C3 + ":delegate", "expected one inner fit and a _set_forecaster call", ctx.loc(cls.module, fn3))
    else:
        e = fits[0]
        stored = {s.value for s in res3.stores("_forecaster")}
        ctx.check(bool(alts(e.recv) & stored) and res3.dominates(sf[0], e) and res3.unconditional(e), "R3", C3 + ":delegate",
                  "fit is delegated to the component selected by _set_forecaster",
                  "fit is not delegated to the freshly selected component (receiver %s)" % res3.fmt(e.recv), loc_of(e))
        # the extra fit parameters handed on are those filed under the *selected* name (or none)
        extra = e.kwargs.get("**")
        if extra is not None:
            verdicts = []
            for a in alts(extra):
                if isinstance(a, tuple) and a[:1] == ("dict",) and not a[1]:
                    verdicts.append(True)
                elif isinstance(a, tuple) and a[0] == "item" and a[2] == sel:
                    verdicts.append(True)
                elif isinstance(a, tuple) and a[0] == "item" and not mentions(res3, a[2], sel) and any(
                        isinstance(x, tuple) and x[:1] in (("elem",), ("mu",)) for x in _subterms(a[2])):
                    verdicts.append(False)
                    ctx.violation("R3", C3 + ":fit-params-of-selected", "the selected forecaster is fitted with the fit parameters filed under %s, "
                                  "a loop variable over the components, not under `selected_forecaster`" % res3.fmt(a[2]), loc_of(e),
                                  witness={"fit_params": "{'a': {...}, 'b': {...}}, selected_forecaster='a' -> the parameters of 'b' are used"})
                else:
                    verdicts.append(None)
            if verdicts and all(v is True for v in verdicts):
                ctx.ok("R3", C3 + ":fit-params-of-selected", "extra fit parameters are those of the selected component (or none)", loc_of(e))
            elif None in verdicts and False not in verdicts:
                ctx.info("MultiplexForecaster.fit: the extra fit parameters (%s) are not compared with the selected name; the structural "
                         "delegation rules remain" % res3.fmt(extra))
        b = e.bind(fsig(repo, "fit"))
        for p in ("y", "X", "fh"):
            if b is None:
                ctx.undecided("R3", C3 + ":forward:" + p, "cannot bind the inner fit call", loc_of(e))
            else:
                forwarded(ctx, res3, "R3", C3 + ":forward:" + p, b.get(p), P(p), "%s forwarded" % p,
                          "the selected forecaster is not fitted with the caller's `%s`" % p, loc_of(e))
    # --- _predict / update delegate with all arguments
    for method in ("_predict", "update"):
        r = analysed(ctx, Prov(repo).run_method(cls, method))
        fnm = repo.lookup_method(cls, method)[1]
        inner = "predict" if method == "_predict" else "update"
        Cm = "MultiplexForecaster." + method
        evs = [e for e in r.calls(inner, kind=("call",)) if e.target.kind == "attr"]
        if not evs:
            ctx.violation("R3", Cm + ":delegate", "%s does not delegate to the selected forecaster at all" % method, ctx.loc(cls.module, fnm))
            continue
        if len(evs) != 1:
            ctx.undecided("R3", Cm + ":delegate", "expected one inner %s call, found %d" % (inner, len(evs)), ctx.loc(cls.module, fnm))
            continue
        e = evs[0]
        recv_ok = isinstance(e.recv, tuple) and e.recv[0] in ("attr0", "attr@") and e.recv[1] == "_forecaster"
        ctx.check(recv_ok and r.unconditional(e), "R3", Cm + ":delegate", "%s delegates to self._forecaster" % method,
                  "%s does not (always) delegate to the selected forecaster: receiver %s" % (method, r.fmt(e.recv)), loc_of(e))
        b = e.bind(fsig(repo, inner))
        for p in astq.param_names(fnm, skip_self=True):
            if b is None:
                ctx.undecided("R3", Cm + ":forward:" + p, "cannot bind the inner %s call" % inner, loc_of(e))
            else:
                forwarded(ctx, r, "R3", Cm + ":forward:" + p, b.get(p), P(p), "%s forwarded" % p,
                          "the selected forecaster does not receive the caller's `%s`" % p, loc_of(e))
        if method == "_predict":
            rv = [v for v, _ in r.returns]
            ctx.check(rv == [("ret", e.id)], "R3", Cm + ":result", "returns the selected forecaster's forecast unchanged",
                      "the result is %s, not the selected forecaster's forecast" % [r.fmt(v) for v in rv], loc_of(e))


def composite_updates(ctx, repo):
    """"...after fit followed by updates": the composites' update must propagate the batch to every part with all options.
    That contract is C10-R4's; its verdicts are reported here under the rule of the composite concerned."""
    roots = (PIPE, ENS, MUX, STACK, ONLINE)
    for rule, cname in (("R1", "TransformedTargetForecaster"), ("R2", "EnsembleForecaster"), ("R2", "OnlineEnsembleForecaster"),
                        ("R3", "MultiplexForecaster"), ("R4", "StackingForecaster")):
        borrow(ctx, "C10", "r4", (), rule, cname + ".update:propagation", lambda r, cname=cname: r["construct"].startswith(cname + ".update"),
               "the propagation of an update to every inner estimator (guard, own merge, y / X / update_params forwarded, every part on every path)",
               roots=roots)
        if cname == "OnlineEnsembleForecaster":
            continue  # documents its own default (False); C10 reports it as information
        borrow(ctx, "C10", "update_defaults", (), rule, cname + ".update:default-forwarded-flag",
               lambda r, cname=cname: r["construct"].startswith(cname + ".update:default"),
               "the default of the `update_params` flag the composite forwards (composite.update(y) must equal updating its parts with their default)",
               roots=roots + (BASE, "sktime/forecasting/base/_sktime.py"))


def r3_inherited(ctx, repo):
    """The composites inherit update_predict_single/_update_predict_single from the base class: "behaves exactly like its
    selected member / its members" also on that path needs the base step to forward every option (C10-R3 decides it)."""
    borrow(ctx, "C10", "r3_steps", (), "R3", "composites.update_predict_single:inherited-step",
           lambda r: r["construct"].startswith(("_SktimeForecaster._update_predict_single", "_SktimeForecaster.update_predict_single[",
                                                "BaseForecaster.update_predict_single")),
           "the inherited update-then-predict step (all options forwarded to update and predict)",
           roots=("sktime/forecasting/base/_sktime.py", "sktime/forecasting/base/_base.py", ENS, STACK, ONLINE))


# ------------------------------------------------------------------------------------------ R4 stacking
def r4(ctx, repo):
    cls = repo.cls(STACK + ":StackingForecaster")
    res = analysed(ctx, Prov(repo).run_method(cls, "fit"))
    fn = repo.lookup_method(cls, "fit")[1]
    C = "StackingForecaster.fit"
    loc0 = ctx.loc(cls.module, fn)
    check_first_call_only(ctx, res, "R4", C, loc_of)
    y = P("y")
    # --- the split
    ctor = [e for e in res.calls(kind=("call",)) if e.target is not None and e.target.kind == "class"
            and e.target.cls.qual.endswith(":SingleWindowSplitter")]
    if len(ctor) != 1 or ctor[0].bound is None:
        ctx.undecided("R4", C + ":hold-out-split", "expected one SingleWindowSplitter(...) construction, found %d" % len(ctor), loc0)
        return
    ce = ctor[0]
    fhv = ce.bound.get("fh")
    rel = res.ret_event(fhv)
    cutoff_now = ("item", ("getattr", y, "index"), ("const", -1))
    fh_terms = set()
    for e in res.of_kind("propget"):
        if e.name == "fh" and e.ret is not None:
            fh_terms.add(e.ret)
    good = (rel is not None and rel.name == "to_relative" and rel.recv in fh_terms and rel.args[:1] == (cutoff_now,))
    ctx.check(good, "R4", C + ":hold-out-split:horizon", "hold-out window = the forecaster's own horizon made relative to the end of y",
              "SingleWindowSplitter horizon is %s, not self.fh.to_relative(self.cutoff)" % res.fmt(fhv), loc_of(ce))
    ctx.check(ce.bound.get("window_length") == NONE, "R4", C + ":hold-out-split:window", "training window = everything before the hold-out",
              "members are trained on a truncated window (window_length=%s)" % res.fmt(ce.bound.get("window_length")), loc_of(ce))
    splits = [e for e in res.calls("split", kind=("call",)) if e.recv == ("ret", ce.id)]
    if len(splits) != 1:
        ctx.undecided("R4", C + ":hold-out-split", "expected one cv.split call, found %d" % len(splits), loc_of(ce))
        return
    se = splits[0]
    ctx.check(se.args[:1] == (y,), "R4", C + ":hold-out-split:series", "the caller's y is split",
              "split is applied to %s, not to y" % res.fmt(se.args[0] if se.args else None), loc_of(se))
    W = ("next", ("ret", se.id))
    train = ("item", ("getattr", y, "iloc"), ("item", W, ("const", 0)))
    test = ("item", ("getattr", y, "iloc"), ("item", W, ("const", 1)))
    # --- member fits
    mf_all = member_fit_events(res)
    sig = fsig(repo, "fit")
    phases = {}
    for rec in mf_all:
        phases.setdefault(phase_key(rec[0]), []).append(rec)
    mf, sites_of = [], {}
    for key_, recs in phases.items():
        ys = {(r_[0].bind(sig) or {}).get("y") for r_ in recs}
        if len(recs) > 1 and (len(ys) != 1 or not complementary(res, [r_[0] for r_ in recs])):
            ctx.undecided("R4", C + ":members", "a member-fit phase has %d sites that are not alternatives of one action" % len(recs), loc_of(recs[0][0]))
            return
        rep = recs[0]
        mf.append((rep[0], all(r_[1] for r_ in recs), rep[2], None if all(r_[3] is None for r_ in recs) else rep[3] or ("slice",)))
        sites_of[rep[0].id] = [r_[0] for r_ in recs]
    all_sites = [r_[0] for r_ in mf_all]
    if len(mf) == 1:
        b1 = mf[0][0].bind(sig)
        if b1 is not None and b1.get("y") == train:
            ctx.violation("R4", C + ":refit-full", "the members are fitted on the training window only and never refitted on the full series "
                          "(forecasts would start before the held-out window)", loc_of(mf[0][0]))
            return
        if b1 is not None and b1.get("y") == y:
            ctx.violation("R4", C + ":members-train-window", "the members are fitted once, on the full series: the forecasts the meta-regressor "
                          "is trained on come from members that have seen the held-out window", loc_of(mf[0][0]))
            return
    if len(mf) != 2:
        ctx.undecided("R4", C + ":order", "expected two member-fit sites (hold-out fit, full refit), found %d" % len(mf), loc0)
        return
    by_data = {}
    for e, cloned, L, msl in mf:
        if msl is not None:
            cloned = False
        b = e.bind(sig)
        if b is None:
            ctx.undecided("R4", C + ":members", "cannot bind a member fit call", loc_of(e))
            return
        by_data.setdefault(b.get("y"), []).append((e, cloned, L, b))
    e_train = by_data.get(train, [])
    e_full = by_data.get(y, [])
    if len(e_train) != 1 or len(e_full) != 1:
        got = [res.fmt(k) for k in by_data]
        w_train, w_test = ("item", W, ("const", 0)), ("item", W, ("const", 1))
        others = [k for k in by_data if k not in (train, y)]
        exact_wrong = (not others) or any(k == test or (k is not None and mentions(res, k, w_test) and not mentions(res, k, w_train)) for k in others)
        if exact_wrong:
            ctx.violation("R4", C + ":members-train-window", "members must be fitted once on y.iloc[train_window] and once on the full y; "
                          "they are fitted on %s" % got, loc_of(mf[0][0]), witness={"train": res.fmt(train)})
        else:
            ctx.undecided("R4", C + ":members-train-window", "cannot interpret the data the members are fitted on: %s" % got, loc_of(mf[0][0]))
        return
    et, cl_t, Lt, bt = e_train[0]
    efull, cl_f, Lf, bf = e_full[0]
    ctx.ok("R4", C + ":members-train-window", "members fitted on y.iloc[train_window] of the single split", loc_of(et))
    for tag, (e, cl, L, b) in (("hold-out", e_train[0]), ("refit", e_full[0])):
        ctx.check(cl and complementary(res, sites_of[e.id]) and loop_plain(res, L), "R4", C + ":members:%s:clones" % tag,
                  "every member is fitted as a clone", "in the %s fit not every member is fitted as a clone" % tag, loc_of(e))
        mfh = b.get("fh")
        ctx.check(True if (mfh in fh_terms or mfh == P("fh")) else (False if mfh in (None, NONE) or is_const(mfh) else None),
                  "R4", C + ":members:%s:fh" % tag, "members are fitted for the forecaster's horizon",
                  "members are fitted with fh=%s" % res.fmt(mfh), loc_of(e))
    # --- member forecasts used as meta features
    reg = [e for e in res.calls("fit", kind=("call",)) if e.target.kind == "attr" and e not in all_sites]
    reg = [e for e in reg if (is_clone_of(res, e.recv) or e.recv) in (("attr0", "final_regressor"),)]
    if not reg and not [e for e in res.calls("fit", kind=("call",)) if e.target.kind == "attr" and e not in all_sites]:
        ctx.violation("R4", C + ":meta-regressor", "the meta-regressor is never fitted", loc0)
        return
    if len(reg) != 1:
        ctx.undecided("R4", C + ":meta-regressor", "expected one fit of the final regressor, found %d" % len(reg), loc0)
        return
    er = reg[0]
    ctx.check(is_clone_of(res, er.recv) == ("attr0", "final_regressor"), "R4", C + ":meta-regressor-clone", "final_regressor_ is a clone",
              "the constructor's final_regressor itself is fitted (no clone)", loc_of(er))
    ctx.check(res.heap.get("final_regressor_") == er.recv, "R4", C + ":meta-regressor-store", "the fitted clone is kept as final_regressor_",
              "final_regressor_ is %s, not the regressor that was fitted" % res.fmt(res.heap.get("final_regressor_")), loc_of(er))
    Xm = er.arg(0, "X")
    ym = er.arg(1, "y")
    w_train, w_test = ("item", W, ("const", 0)), ("item", W, ("const", 1))
    if ym is not None and strip_views(ym) == test:
        ctx.ok("R4", C + ":meta-target", "meta target = y.iloc[test_window] of the same split", loc_of(er))
    elif ym is not None and mentions(res, ym, w_train):
        ctx.violation("R4", C + ":meta-target", "the meta-regressor's target is taken from the training window: %s" % res.fmt(ym), loc_of(er),
                      witness={"expected": res.fmt(test)})
    elif ym is not None and (strip_views(ym) == y or strip_views(ym) in (("attr0", "_y"),)):
        ctx.violation("R4", C + ":meta-target", "the meta-regressor's target is the whole series, not the held-out window", loc_of(er))
    else:
        ctx.undecided("R4", C + ":meta-target", "meta-regressor target is %s" % res.fmt(ym), loc_of(er))
    stack = res.ret_event(Xm)
    pe = None
    src_fit = None
    stale_members = False
    if stack is not None and stack.target is not None and stack.target.kind == "ext" and stack.target.ext in ("numpy.column_stack",) and stack.args:
        base, rev, sl = seq_shape(res.as_seq(stack.args[0]))
        if isinstance(base, tuple) and base[0] == "comp" and sl is None:
            pe = res.ret_event(base[1])
            if pe is not None and pe.name == "predict":
                recvs = sorted(alts(pe.recv), key=repr)
                if all(isinstance(a, tuple) and a[:1] == ("elem",) for a in recvs):
                    srcs = set()
                    for a in recvs:
                        fs_ = fitted_sites(res, a[1])
                        srcs = None if fs_ is None or srcs is None else srcs | fs_
                    if srcs and loop_plain(res, base[2]):
                        if srcs <= set(sites_of[et.id]):
                            src_fit = et
                        elif srcs <= set(sites_of[efull.id]):
                            src_fit = efull
                        else:
                            src_fit = "mixed"
                    elif all(seq_shape(a[1])[0] == ("attr0", "forecasters_") for a in recvs):
                        stale_members = True
    if stale_members:
        ctx.violation("R4", C + ":meta-features", "the member forecasts used as meta features are requested before the members are fitted on the "
                      "training window (they come from whatever forecasters_ held before this fit)", loc_of(pe))
        return
    if pe is None or pe.name != "predict" or src_fit is None:
        ctx.undecided("R4", C + ":meta-features", "meta features are not column-stacked member forecasts: %s" % res.fmt(Xm), loc_of(er))
        return
    if src_fit is et:
        ctx.ok("R4", C + ":meta-features", "meta features = forecasts of the members fitted on the training window only", loc_of(pe))
    elif src_fit is efull:
        ctx.violation("R4", C + ":meta-features", "the meta-regressor is trained on forecasts of members that were fitted on the full series "
                      "(they have seen the held-out window)", loc_of(pe), witness={"members fitted on": "y", "target": res.fmt(test)})
    else:
        ctx.undecided("R4", C + ":meta-features", "cannot identify which fit produced the forecasting members", loc_of(pe))
    bp = pe.bind(fsig(repo, "predict"))
    fhp = bp.get("fh") if bp else ("opq", "?")
    ctx.check(None if bp is None else (none_valued(res, pe, fhp) or fhp in fh_terms), "R4", C + ":meta-features:horizon",
              "member forecasts are made for the horizon given at fit (the held-out window)",
              "member forecasts for the meta-regressor use fh=%s" % res.fmt(fhp), loc_of(pe))
    order = max(x.id for x in sites_of[et.id]) < pe.id < er.id < min(x.id for x in sites_of[efull.id]) and res.unconditional(er) \
        and res.unconditional(pe, allow_loops=res.loops_of(pe))
    ctx.check(order, "R4", C + ":order", "hold-out fit < member forecasts < meta-regressor fit < full refit",
              "stacking steps are out of order (hold-out fit #%d, forecasts #%d, meta fit #%d, refit #%d)" % (et.id, pe.id, er.id, efull.id), loc0)
    ctx.check(fitted_sites(res, res.heap.get("forecasters_")) == set(sites_of[efull.id]), "R4", C + ":refit-full",
              "after fit the members are those refitted on the full series",
              "after fit, forecasters_ are not the members refitted on the full y", loc_of(efull))
    # --- _predict: the same feature layout, from all fitted members, through the fitted meta-regressor
    pres = analysed(ctx, Prov(repo).run_method(cls, "_predict"))
    pfn = repo.lookup_method(cls, "_predict")[1]
    C2 = "StackingForecaster._predict"
    ploc = ctx.loc(cls.module, pfn)
    regp = [e for e in pres.calls("predict", kind=("call",)) if e.target.kind == "attr" and isinstance(e.recv, tuple)
            and e.recv[0] in ("attr0", "attr@") and e.recv[1] in ("final_regressor_", "final_regressor")]
    if not regp:
        ctx.violation("R4", C2 + ":meta-regressor", "the forecast is not produced by the meta-regressor (no predict call on final_regressor_)", ploc)
    elif len(regp) != 1:
        ctx.undecided("R4", C2 + ":meta-regressor", "expected one predict call on the meta-regressor, found %d" % len(regp), ploc)
    else:
        rp = regp[0]
        ctx.check(rp.recv[1] == "final_regressor_", "R4", C2 + ":meta-regressor", "forecasts come from the fitted final_regressor_",
                  "the unfitted constructor argument `final_regressor` is asked to predict", loc_of(rp))
        pst = pres.ret_event(rp.arg(0, "X"))
        good = None
        if pst is not None and pst.target is not None and pst.target.kind == "ext" and pst.args:
            if pst.target.ext != stack.target.ext:
                ctx.violation("R4", C2 + ":feature-layout", "features are built with %s at predict time but with %s when the meta-regressor was fitted"
                              % (pst.target.ext, stack.target.ext), loc_of(pst))
            else:
                base, rev, sl = seq_shape(pres.as_seq(pst.args[0]))
                mp = pres.ret_event(base[1]) if isinstance(base, tuple) and base[0] == "comp" else None
                if mp is not None and mp.name == "predict" and isinstance(mp.recv, tuple) and mp.recv[0] == "elem":
                    mb, mrev, msl = seq_shape(mp.recv[1])
                    good = (mb == ("attr0", "forecasters_") and msl is None and sl is None and not rev and not mrev and loop_plain(pres, base[2]))
                    ctx.check(good, "R4", C2 + ":feature-layout", "one column per fitted member, in member order (as at fit time)",
                              "predict-time features are not the forecasts of all fitted members in member order: %s" % pres.fmt(mp.recv[1]), loc_of(mp))
                else:
                    ctx.undecided("R4", C2 + ":feature-layout", "predict-time features: %s" % pres.fmt(pst.args[0]), loc_of(pst))
        else:
            ctx.undecided("R4", C2 + ":feature-layout", "meta-regressor input is %s" % pres.fmt(rp.arg(0, "X")), loc_of(rp))
        rv = [v for v, _ in pres.returns]
        ok_ret = len(rv) == 1 and mentions(pres, rv[0], ("ret", rp.id))
        ctx.check(ok_ret, "R4", C2 + ":result", "the forecast is built from the meta-regressor's prediction",
                  "the returned forecast does not come from the meta-regressor: %s" % [pres.fmt(v) for v in rv], ploc)
    # the split itself (train = everything before the window, test = cutoff + fh, no leakage) is C01's obligation
    borrow(ctx, "C01", "check_single", (), "R4", C + ":hold-out-split:splitter-contract",
           lambda r: r["construct"].startswith("SingleWindowSplitter"), "the SingleWindowSplitter contract the hold-out relies on "
           "(training positions end at the cutoff, test = cutoff + fh)", roots=("sktime/forecasting/model_selection/_split.py",))
    # information: argument-role slip in _predict_forecasters(X)
    for e in res.calls("_predict_forecasters", kind=("inline",)):
        if e.bound and e.bound.get("fh") == P("X"):
            ctx.info("StackingForecaster: _predict_forecasters(X) binds X to the callee's `fh` parameter (harmless while X is None; "
                     "reported as information, outside the decided clauses)")


def run(ctx):
    repo = ctx.repo
    ctx.explain("C09: provenance dataflow (inlined helpers, loop-carried chains, path facts) over the composite forecasters: "
                "R1 which representation of the series reaches each inner estimator of the pipeline in fit/_predict/update/"
                "transform/inverse_transform and in which order; R2 ensemble members = clones fitted on the caller's data, column-wise "
                "aggregation by the operator named by the option; R3 multiplexer selects by name and delegates; "
                "R4 stacking hold-out order and provenance of the meta-regressor's features and target.")
    ctx.assume("sklearn.base.clone returns an unfitted copy; estimator.fit returns the fitted estimator itself (C04)")
    ctx.assume("joblib.Parallel(...)(generator) evaluates every element; delayed(f)(args) calls f(args)")
    ctx.assume("pandas.concat(objs, axis=1) puts one member per column; DataFrame.<agg>(axis=1) aggregates across columns")
    ctx.assume("forecasting validators check_y / check_series / check_y_X return their argument (verified by inlining them on every run)")
    pipe = repo.cls(PIPE + ":TransformedTargetForecaster")
    for anchor in ("fit", "_predict", "update", "transform", "inverse_transform", "_iter_transformers"):
        repo.func(PIPE, "TransformedTargetForecaster." + anchor)
    r1_fit(ctx, repo, pipe)
    r1_predict(ctx, repo, pipe)
    r1_tag_helpers(ctx, repo)
    r1_update(ctx, repo, pipe)
    r1_transform(ctx, repo, pipe, "transform", False)
    r1_transform(ctx, repo, pipe, "inverse_transform", True)
    repo.func(META, "_HeterogenousEnsembleForecaster._fit_forecasters")
    repo.func(META, "_HeterogenousEnsembleForecaster._predict_forecasters")
    ens = repo.cls(ENS + ":EnsembleForecaster")
    r2_fit(ctx, repo, ens)
    r2_fit(ctx, repo, repo.cls(ONLINE + ":OnlineEnsembleForecaster"))
    r2_predict(ctx, repo, ens)
    r3(ctx, repo)
    r3_inherited(ctx, repo)
    r2_online(ctx, repo)
    composite_updates(ctx, repo)
    r4(ctx, repo)
    # floors: a whole family of instances vanishing fails closed; a refactoring that merges a few
    # instances (e.g. one dynamic aggregator call instead of four branches) does not
    ctx.floor("R1", 24)
    ctx.floor("R2", 18)
    ctx.floor("R3", 14)
    ctx.floor("R4", 14)
