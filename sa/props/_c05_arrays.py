"""Index-map domain (E5 ``IdxMap`` regions), derived-symbol table and the array-aware
abstract interpreter shared by C05 and C11.

Arrays are *terms*: source arrays, buffers filled by slice assignment (a list of store
regions, each mapping target positions affinely to positions of the stored value), views
(slices, scalar picks, gathers, transposes, new axes), concatenations, row-major
reshapes, column aggregates and cyclic tilings.  A term answers ``cell(coords, q)``:
*which source element sits at these coordinates?*  The query object ``q`` is either

* symbolic -- coordinates are affine forms over symbols, membership in a region is proved
  from integer facts (``lin.Facts``); an answer then holds for **all** sizes, or
* concrete -- every symbol is bound to a small integer (``Env``); the same term is then
  evaluated exactly on that instance.  This is used only to exhibit a *witness* when an
  obligation fails (a concrete, feasible configuration on which the extracted index map
  differs from the specification).

Nothing of the analysed repository is executed in either mode: what is evaluated is the
term the abstract interpreter extracted from the AST.
"""
import ast
import re
from fractions import Fraction

from ..absint import (Interp, Frame, State, SelfV, FHV, Vec, Rng, Arr, Tup, K, Opq, Alt, LoopCtx,
                      as_lin_val)
from ..index import AnalysisError, ClassInfo, dotted
from ..lin import Lin, Facts, as_lin

ZERO, ONE = Lin.c(0), Lin.c(1)

# --------------------------------------------------------------------- derived symbols
SYMDEFS = {}  # symbol name -> ("mod"|"ceil"|"floor"|"prod"|"elem"|"len", ...)


def sym_mod(a, b):
    name = "(%r) mod (%r)" % (a, b)
    SYMDEFS[name] = ("mod", a, b)
    return Lin.sym(name)


def sym_div(kind, a, b):
    name = "%s((%r)/(%r))" % (kind, a, b)
    SYMDEFS[name] = (kind, a, b)
    return Lin.sym(name)


def sym_max(a, b):
    if a == b:
        return a
    a, b = sorted([a, b], key=repr)
    name = "max(%r, %r)" % (a, b)
    SYMDEFS[name] = ("max", a, b)
    return Lin.sym(name)


def sym_min(a, b):
    if a == b:
        return a
    a, b = sorted([a, b], key=repr)
    name = "min(%r, %r)" % (a, b)
    SYMDEFS[name] = ("min", a, b)
    return Lin.sym(name)


def sym_prod(a, b):
    a, b = sorted([a, b], key=repr)
    name = "(%r)*(%r)" % (a, b)
    SYMDEFS[name] = ("prod", a, b)
    return Lin.sym(name)


CONST_VECS = {}  # base name -> list of ints (literal horizons such as ForecastingHorizon([1]))


def const_vec(values):
    name = "lit_" + "_".join(str(int(v)).replace("-", "m") for v in values)
    CONST_VECS[name] = [int(v) for v in values]
    return name


def sym_elem(base, idx):
    """Element ``idx`` (an affine form) of the symbolic vector ``base``."""
    if base in CONST_VECS and idx.is_const() and -len(CONST_VECS[base]) <= idx.const < len(CONST_VECS[base]):
        return Lin.c(CONST_VECS[base][int(idx.const)])
    if idx.is_const():
        if idx.const == 0:
            return Lin.sym("%s[0]" % base)
    name = "%s[@%r]" % (base, idx)
    SYMDEFS[name] = ("elem", base, idx)
    return Lin.sym(name)


def lsubst(x, mapping):
    """``x.subst(mapping)`` that also reaches loop variables inside element symbols (``fh[@j]`` with j -> value)."""
    if not isinstance(x, Lin):
        return x.subst(mapping)
    out = x.subst(mapping)
    for s_, c_ in list(out.terms.items()):
        d = SYMDEFS.get(s_)
        if d is not None and d[0] == "elem" and (d[2].symbols() & set(mapping)):
            out = out - Lin({s_: c_}) + sym_elem(d[1], lsubst(d[2], mapping)).scale(c_)
    return out


def mul_lin(a, b):
    """Product of two affine forms (a derived symbol unless one side is constant)."""
    if a.is_const():
        return b.scale(a.const)
    if b.is_const():
        return a.scale(b.const)
    return sym_prod(a, b)


def product_with_facts(la, lb, facts):
    """``la * lb`` as a derived symbol; adds the rounding lemmas when one factor is ceil/floor(a / other)."""
    p = sym_prod(la, lb)
    for x, y in ((la, lb), (lb, la)):
        # b * ceil(a / b) >= a  and  <= a + b - 1 ;  b * floor(a / b) <= a  and  >= a - b + 1   (b >= 1)
        if len(x.terms) == 1 and x.const == 0:
            s, c = list(x.terms.items())[0]
            d = SYMDEFS.get(s)
            if c == 1 and d and d[0] in ("ceil", "floor") and d[2] == y:
                if d[0] == "ceil":
                    facts.add_cmp(p, ">=", d[1], "m * ceil(a / m) >= a")
                    facts.add_cmp(p, "<=", d[1] + y - 1, "m * ceil(a / m) <= a + m - 1")
                else:
                    facts.add_cmp(p, "<=", d[1], "m * floor(a / m) <= a")
                    facts.add_cmp(p, ">=", d[1] - y + 1, "m * floor(a / m) >= a - m + 1")
    return p


class Uneval(Exception):
    """A symbol has no value in the concrete environment."""


class Env:
    """Concrete instance: integers for the free symbols, integer lists for the vectors."""

    def __init__(self, ints, vecs=None):
        self.ints = dict(ints)
        self.vecs = dict(vecs or {})

    def sym(self, s):
        if s in self.ints:
            return self.ints[s]
        d = SYMDEFS.get(s)
        if d is not None:
            if d[0] == "elem":
                v = self.vecs.get(d[1], CONST_VECS.get(d[1]))
                i = self.eval(d[2])
                if v is None or i != int(i) or not (-len(v) <= i < len(v)):
                    raise Uneval(s)
                return v[int(i)]
            a, b = self.eval(d[1]), self.eval(d[2])
            if d[0] == "prod":
                return a * b
            if d[0] == "max":
                return max(a, b)
            if d[0] == "min":
                return min(a, b)
            if b == 0:
                raise Uneval(s)
            if d[0] == "mod":
                return a - b * (a // b)
            if d[0] == "floor":
                return a // b
            if d[0] == "ceil":
                return -((-a) // b)
        m = re.match(r"^(.+)\[(0|-1)\]$", s)
        if m:
            v = self.vecs.get(m.group(1), CONST_VECS.get(m.group(1)))
            if v:
                return v[int(m.group(2))]
        m = re.match(r"^len\((.+)\)$", s)
        if m:
            v = self.vecs.get(m.group(1), CONST_VECS.get(m.group(1)))
            if v is not None:
                return len(v)
        raise Uneval(s)

    def eval(self, lin):
        lin = as_lin(lin)
        tot = Fraction(lin.const)
        for s, c in lin.terms.items():
            tot += c * self.sym(s)
        return tot

    def holds(self, facts):
        """Do all facts (``L <= 0``) hold here?  None if one cannot be evaluated."""
        for f, _ in facts.items:
            try:
                if self.eval(f) > 0:
                    return False
            except Uneval:
                return None
        return True

    def describe(self):
        d = dict(self.ints)
        d.update(self.vecs)
        return d


def _to_int_dict(lin):
    """(dict symbol -> int, int const) scaled by the common denominator (sign-preserving)."""
    den = lin.const.denominator
    for c in lin.terms.values():
        d = c.denominator
        if d != 1:
            g = den
            while d:
                g, d = d, g % d
            den = den * c.denominator // g
    return {k: int(v * den) for k, v in lin.terms.items()}, int(lin.const * den)


def _fact_table(facts):
    """Facts as integer dicts, cached on the Facts object (facts are append-only)."""
    cache = getattr(facts, "_c05_cache", None)
    if cache is None or cache[0] != len(facts.items):
        tab = [_to_int_dict(f) for f, _ in facts.items]
        by_sym = {}
        for i, (d, c) in enumerate(tab):
            for k, v in d.items():
                by_sym.setdefault((k, v > 0), []).append(i)
        cache = (len(facts.items), tab, by_sym)
        try:
            facts._c05_cache = cache
        except AttributeError:
            pass
    return cache[1], cache[2]


def entails(facts, lin, depth=4):
    """``lin <= 0`` follows from a non-negative combination of at most ``depth`` facts
    (goal-directed elimination of one symbol at a time; rational relaxation, hence sound)."""
    lin = as_lin(lin)
    if lin.is_const():
        return lin.const <= 0
    tab, by_sym = _fact_table(facts)
    rest, const = _to_int_dict(lin)

    def dfs(rest, const, depth):
        if not rest:
            return const <= 0
        if depth == 0:
            return False
        # eliminate the symbol with the fewest candidate facts
        best, cands = None, None
        for k, v in rest.items():
            c = by_sym.get((k, v > 0), ())
            if not c:
                return False
            if cands is None or len(c) < len(cands):
                best, cands = k, c
        a = rest[best]
        for i in cands:
            fd, fc = tab[i]
            b = fd[best]
            ma, mb = abs(b), abs(a)
            new = {}
            for k, v in rest.items():
                x = v * ma - fd.get(k, 0) * mb
                if x:
                    new[k] = x
            for k, v in fd.items():
                if k not in rest:
                    new[k] = -v * mb
            if dfs(new, const * ma - fc * mb, depth - 1):
                return True
        return False

    return dfs(rest, const, depth)


class Q:
    """Query mode: symbolic (facts) or concrete (env)."""

    def __init__(self, facts=None, env=None):
        self.facts = facts if facts is not None else Facts()
        self.env = env

    @property
    def concrete(self):
        return self.env is not None

    def ev(self, lin):
        lin = as_lin(lin)
        if self.env is not None:
            return Lin.c(self.env.eval(lin))
        return lin

    def le(self, a, b):
        d = self.ev(as_lin(a) - as_lin(b))
        if d.is_const():
            return d.const <= 0
        if entails(self.facts, d):
            return True
        if entails(self.facts, -d + 1):
            return False
        return None

    def eq(self, a, b):
        d = self.ev(as_lin(a) - as_lin(b))
        if d.is_const():
            return d.const == 0
        x, y = self.le(a, b), self.le(b, a)
        if x and y:
            return True
        if x is False or y is False:
            return False
        return None

    def inrange(self, x, lo, hi):
        a = self.le(lo, x)
        if a is False:
            return False
        b = self.le(as_lin(x) + 1, hi)
        if b is False:
            return False
        return True if (a and b) else None

    def vec_elem(self, vec, idx):
        """Affine form of ``vec[idx]`` (vec a ``Vec``), bounded by first/last for sorted vectors."""
        idx = self.ev(idx)
        e = sym_elem(vec.base, idx)
        if self.env is None and vec.sorted and not vec.neg:
            self.facts.add_cmp(Lin.sym(vec.base + "[0]"), "<=", e, "first of sorted vector <= element")
            self.facts.add_cmp(e, "<=", Lin.sym(vec.base + "[-1]"), "element <= last of sorted vector")
        v = (-(e) if vec.neg else e) + vec.off
        return self.ev(v)


# ------------------------------------------------------------------------ array terms
OOB = ("oob",)


def wrap_index(x, dim, q):
    """numpy semantics of a possibly negative scalar index; None when the sign is unknown."""
    if q.le(ZERO, x) is True:
        return q.ev(x)
    if q.le(x, Lin.c(-1)) is True:
        return q.ev(x + dim)
    return None


class Nd:
    """Abstract n-d array term."""
    shape = ()
    poisoned = None

    @property
    def ndim(self):
        return len(self.shape)

    def cell(self, coords, q, **kw):
        raise NotImplementedError

    def __eq__(self, o):
        return self is o

    def __hash__(self):
        return id(self)


class Src(Nd):
    """A source array (positions are the coordinates of the caller's data)."""

    def __init__(self, name, shape):
        self.name = name
        self.shape = tuple(as_lin(s) for s in shape)

    def cell(self, coords, q, **kw):
        if q.concrete:
            for c, n in zip(coords, self.shape):
                if not q.inrange(c, ZERO, n):
                    return OOB
        return ("src", self.name, tuple(q.ev(c) for c in coords))

    def __repr__(self):
        return "Src(%s%r)" % (self.name, list(self.shape))


class Store:
    def __init__(self, box, value, loops, atoms, node, seq):
        self.box = box  # per target dim: (lo, hi, is_point)
        self.value = value  # Nd or scalar abstract value
        self.loops = loops  # enclosing LoopCtx list (loop variables may occur in box/value)
        self.atoms = atoms
        self.node = node
        self.seq = seq

    def slice_dims(self):
        return [d for d, b in enumerate(self.box) if not b[2]]

    def __repr__(self):
        return "Store(%s <- %r%s)" % (", ".join("%r" % b[0] if b[2] else "%r:%r" % (b[0], b[1]) for b in self.box),
                                        self.value, " in %r" % (self.loops,) if self.loops else "")


def subst_val(v, mapping):
    """Substitute loop variables in an abstract value."""
    if isinstance(v, Lin):
        return lsubst(v, mapping)
    if isinstance(v, Elem):
        return Elem(v.arr, [lsubst(c, mapping) for c in v.coords],
                    [lsubst(w, mapping) if w is not None else None for w in v.wraps], v.kw)
    if isinstance(v, Opq):
        return Opq(v.tag, [subst_val(a, mapping) for a in v.args])
    if isinstance(v, Vec):
        return Vec(v.base, lsubst(v.off, mapping), v.sorted, v.neg)
    if isinstance(v, View):
        return lsubst(v, mapping)
    if isinstance(v, ItemV):
        return ItemV(v.lst, lsubst(v.idx, mapping))
    if isinstance(v, CallV):
        return CallV(v.kind, subst_val(v.recv, mapping), [subst_val(a, mapping) for a in v.args], v.node, v.loops,
                     {k: lsubst(x, mapping) for k, x in v.binding.items()}, v.seq, v.atoms)
    if isinstance(v, Strided):
        return v.subst(mapping)
    if isinstance(v, Flat):
        b = subst_val(v.base, mapping)
        return Flat(b, v.keep, v.order) if b is not v.base else v
    return v


class Buf(Nd):
    """An allocated array filled by (slice) assignments."""

    def __init__(self, shape, fill, node=None):
        self.shape = tuple(as_lin(s) for s in shape)
        self.fill = fill
        self.stores = []
        self.node = node
        self.poisoned = None
        self.obligations = []  # (Lin that must be == 0, text, node)

    def add_store(self, st):
        self.stores.append(st)

    def lookup(self, st, coords, q, limit=None):
        """('hit', content) | 'miss' | None (unknown)."""
        mapping = {}
        if st.loops:
            if q.concrete:
                return self._lookup_enum(st, coords, q, limit)
            for lp in st.loops:
                if lp.var is None or not isinstance(lp.it, Rng) or lp.it.step not in (ONE, Lin.c(-1)):
                    return None
                desc = lp.it.step != ONE
                if desc and limit is not None and list(lp.var.symbols())[0] in limit:
                    return None
                v = list(lp.var.symbols())[0]
                solved = False
                for d, b in enumerate(st.box):
                    lo, hi, pt = b[0], b[1], b[2]
                    if len(b) > 3:
                        continue
                    lo_m = lsubst(lo, mapping)
                    if pt and lo_m.terms.get(v) in (1, -1):
                        coef = lo_m.terms[v]
                        rest = lo_m - Lin({v: coef})
                        val = (coords[d] - rest).scale(coef)
                        mapping[v] = val
                        solved = True
                        break
                if not solved:
                    return None
                if desc:
                    r = q.inrange(mapping[v], lsubst(lp.it.hi, mapping) + 1, lsubst(lp.it.lo, mapping) + 1)
                else:
                    r = q.inrange(mapping[v], lsubst(lp.it.lo, mapping), lsubst(lp.it.hi, mapping))
                if r is False:
                    return "miss"
                if r is None:
                    return None
                if limit is not None and v in limit:
                    # a read inside the loop sees the stores of earlier iterations, and those of its own
                    # iteration that precede it in the body
                    cur, seq = limit[v]
                    earlier = q.le(mapping[v] + 1, cur)
                    if earlier is not True:
                        same = q.eq(mapping[v], cur)
                        if same is True:
                            if not st.seq < seq:
                                return "miss"
                        elif earlier is False and same is False:
                            return "miss"
                        else:
                            return None
        return self._lookup_box(st, coords, q, mapping)

    def _lookup_box(self, st, coords, q, mapping):
        unknown = False
        for d, b in enumerate(st.box):
            lo, hi = lsubst(b[0], mapping), lsubst(b[1], mapping)
            if len(b) > 3:
                lo = wrap_index(lo, lsubst(b[3], mapping), q)
                if lo is None:
                    return None
                hi = lo + 1
            r = q.inrange(coords[d], lo, hi)
            if r is False:
                return "miss"
            if r is None:
                unknown = True
        if unknown:
            return None
        val = st.value
        if isinstance(val, Nd):
            sd = st.slice_dims()
            k = val.ndim
            if k > len(sd):
                return None
            vc = []
            for vd, td in zip(range(k), sd[len(sd) - k:]):
                c = coords[td] - lsubst(st.box[td][0], mapping)
                one = q.eq(val.shape[vd], ONE)
                tgt_one = q.eq(lsubst(st.box[td][1], mapping) - lsubst(st.box[td][0], mapping), ONE)
                if one is True and tgt_one is not True:
                    c = ZERO  # broadcast of a length-1 axis
                vc.append(c)
            if mapping:
                val = subst_val(val, mapping) if isinstance(val, View) else val
            return ("hit", val.cell(vc, q, **self._read_time(st, mapping)))
        if mapping:
            val = subst_val(val, mapping)
        if isinstance(val, Elem):
            val = Elem(val.arr, val.coords, val.wraps, self._read_time(st, mapping))
        return ("hit", ("val", val))

    @staticmethod
    def _read_time(st, mapping):
        """The stored value was read when the store executed."""
        if mapping:
            return {"limit": {v: (x, st.seq) for v, x in mapping.items()}}
        return {"upto": st.seq}

    def _lookup_enum(self, st, coords, q, limit):
        """Concrete mode: enumerate the loop iterations, latest first."""
        def rec(i, mapping):
            if i == len(st.loops):
                yield dict(mapping)
                return
            lp = st.loops[i]
            if lp.var is not None and isinstance(lp.it, (Vec, FHV)):
                vec = lp.it.vec if isinstance(lp.it, FHV) else lp.it
                v = list(lp.var.symbols())[0]
                vals_ = q.env.vecs.get(vec.base, CONST_VECS.get(vec.base))
                if vals_ is None or vec.neg:
                    raise Uneval("loop over vector")
                for x in reversed(sorted(vals_)):
                    if limit is not None and v in limit:
                        cur, seq = limit[v]
                        c = q.env.eval(cur)
                        if x > c or (x == c and not st.seq < seq):
                            continue
                    mapping[v] = Lin.c(x)
                    yield from rec(i + 1, mapping)
                mapping.pop(v, None)
                return
            if lp.var is None or not isinstance(lp.it, Rng):
                raise Uneval("loop")
            v = list(lp.var.symbols())[0]
            lo = q.env.eval(lsubst(lp.it.lo, mapping))
            hi = q.env.eval(lsubst(lp.it.hi, mapping))
            step = q.env.eval(lsubst(lp.it.step, mapping))
            if step == 0:
                raise Uneval("loop step")
            vals = []
            x = lo
            while (x < hi) if step > 0 else (x > hi):
                vals.append(x)
                x += step
            pos = {x: i_ for i_, x in enumerate(vals)}
            for x in reversed(vals):
                if limit is not None and v in limit:
                    cur, seq = limit[v]
                    c = q.env.eval(cur)
                    if c not in pos or pos[x] > pos[c] or (x == c and not st.seq < seq):
                        continue
                mapping[v] = Lin.c(x)
                yield from rec(i + 1, mapping)
            mapping.pop(v, None)

        for mapping in rec(0, {}):
            r = self._lookup_box(st, coords, q, mapping)
            if r is None:
                return None
            if r != "miss":
                return r
        return "miss"

    def cell(self, coords, q, limit=None, upto=None, **kw):
        if self.poisoned:
            return None
        if q.concrete:
            for c, n in zip(coords, self.shape):
                if not q.inrange(c, ZERO, n):
                    return OOB
        for st in reversed(self.stores):
            if upto is not None and st.seq >= upto:
                continue
            r = self.lookup(st, coords, q, limit)
            if r is None:
                return None
            if r != "miss":
                return r[1]
        return ("fill", self.fill)

    def __repr__(self):
        return "Buf(%r, fill=%r, %d stores)" % (list(self.shape), self.fill, len(self.stores))


class View(Nd):
    """Slice / pick / gather / transpose / new-axis view of ``base``.

    ``spec[d]`` for base dimension ``d``: ('pt', lin) | ('sl', view_dim, offset) | ('ga', view_dim, Vec).
    View dimensions not referenced by any base dimension are new axes of length 1.
    """

    def __init__(self, base, spec, shape):
        self.base = base
        self.spec = list(spec)
        self.shape = tuple(as_lin(s) for s in shape)
        self.raw = {}  # view dim -> (lo, hi, lo_sign_unknown, hi_sign_unknown, axis length)

    def map(self, coords, q):
        out = []
        for s in self.spec:
            if s[0] == "pt":
                out.append(q.ev(s[1]))
            elif s[0] == "ptw":
                out.append(wrap_index(s[1], s[2], q))
            elif s[0] == "sl":
                out.append(q.ev(coords[s[1]] + s[2]))
            else:
                out.append(q.vec_elem(s[2], coords[s[1]]))
        return out

    def cell(self, coords, q, **kw):
        coords = list(coords)
        if self.raw:
            if not q.concrete:
                for vd, (lo, hi, rl, rh, dim) in self.raw.items():
                    if (rl and q.le(ZERO, lo) is not True) or (rh and q.le(ZERO, hi) is not True):
                        return None
            else:
                # numpy semantics of the slice on this instance
                fixed = dict()
                for vd, (lo, hi, rl, rh, dim) in self.raw.items():
                    d_ = q.env.eval(dim)
                    a, b = q.env.eval(lo), q.env.eval(hi)
                    a = max(0, a + d_) if (rl and a < 0) else min(max(a, 0), d_)
                    b = max(0, b + d_) if (rh and b < 0) else min(max(b, 0), d_)
                    c = q.env.eval(coords[vd])
                    if not (0 <= c < max(0, b - a)):
                        return OOB
                    fixed[vd] = Lin.c(a + c - q.env.eval(lo))  # so that coords + lo == a + c
                for vd, c in fixed.items():
                    coords[vd] = c
        if q.concrete:
            for vd, (c, n) in enumerate(zip(coords, self.shape)):
                if vd in self.raw:
                    continue
                if not q.inrange(c, ZERO, n):
                    return OOB
        bc = self.map(coords, q)
        if any(c is None for c in bc):
            return None
        return self.base.cell(bc, q, **kw)

    def subst(self, mapping):
        spec = []
        for s in self.spec:
            if s[0] == "pt":
                spec.append(("pt", lsubst(s[1], mapping)))
            elif s[0] == "ptw":
                spec.append(("ptw", lsubst(s[1], mapping), lsubst(s[2], mapping)))
            elif s[0] == "sl":
                spec.append(("sl", s[1], lsubst(s[2], mapping)))
            else:
                spec.append(("ga", s[1], Vec(s[2].base, s[2].lsubst(off, mapping), s[2].sorted, s[2].neg)))
        v = View(self.base, spec, [lsubst(x, mapping) for x in self.shape])
        v.raw = {vd: (lsubst(lo, mapping), lsubst(hi, mapping), rl, rh, lsubst(dim, mapping)) for vd, (lo, hi, rl, rh, dim) in self.raw.items()}
        return v

    def __repr__(self):
        parts = []
        for s in self.spec:
            if s[0] in ("pt", "ptw"):
                parts.append("%r" % s[1])
            elif s[0] == "sl":
                parts.append("d%d%s" % (s[1], "" if s[2] == ZERO else " + (%r)" % s[2]))
            else:
                parts.append("%r[d%d]" % (s[2], s[1]))
        return "View(%r[%s] shape=%r)" % (self.base, ", ".join(parts), list(self.shape))


class Cat(Nd):
    """Concatenation of ``parts`` along ``axis``."""

    def __init__(self, parts, axis):
        self.parts = list(parts)
        self.axis = axis
        shp = list(parts[0].shape)
        tot = ZERO
        for p in parts:
            tot = tot + p.shape[axis]
        shp[axis] = tot
        self.shape = tuple(shp)

    def cell(self, coords, q, **kw):
        off = ZERO
        for p in self.parts:
            n = p.shape[self.axis]
            r = q.inrange(coords[self.axis], off, off + n)
            if r is None:
                return None
            if r:
                cc = list(coords)
                cc[self.axis] = coords[self.axis] - off
                return p.cell(cc, q, **kw)
            off = off + n
        return OOB

    def __repr__(self):
        return "Cat(%r, axis=%d)" % (self.parts, self.axis)


class Resh2(Nd):
    """Row-major reshape of a 1-d term into (rows, cols)."""

    def __init__(self, base, rows, cols):
        self.base, self.rows, self.cols = base, as_lin(rows), as_lin(cols)
        self.shape = (self.rows, self.cols)

    def cell(self, coords, q, **kw):
        if q.concrete:
            tot = q.env.eval(self.base.shape[0])
            if tot != q.env.eval(self.rows) * q.env.eval(self.cols):
                return ("shape-error",)
            for c, n in zip(coords, self.shape):
                if not q.inrange(c, ZERO, n):
                    return OOB
        flat = mul_lin(q.ev(coords[0]), q.ev(self.cols)) + coords[1]
        return self.base.cell([q.ev(flat)], q, **kw)

    def __repr__(self):
        return "Resh2(%r -> %r x %r)" % (self.base, self.rows, self.cols)


class Reshape(Nd):
    """General row-major ``A.reshape(shape)`` (all target extents explicit)."""

    def __init__(self, base, shape):
        self.base = base
        self.shape = tuple(as_lin(x) for x in shape)

    def cell(self, coords, q, **kw):
        if not q.concrete:
            # symbolic only in the trivial case: same extents up to leading axes of length 1
            a = [x for x in self.shape if q.eq(x, ONE) is not True]
            b = [x for x in self.base.shape if q.eq(x, ONE) is not True]
            if len(a) == len(b) and all(q.eq(x, y) is True for x, y in zip(a, b)):
                ca = [c for c, x in zip(coords, self.shape) if q.eq(x, ONE) is not True]
                it = iter(ca)
                cc = [ZERO if q.eq(x, ONE) is True else next(it) for x in self.base.shape]
                return self.base.cell(cc, q, **kw)
            return None
        tgt = [int(q.env.eval(x)) for x in self.shape]
        src = [int(q.env.eval(x)) for x in self.base.shape]
        nt = ns = 1
        for d in tgt:
            nt *= d
        for d in src:
            ns *= d
        if nt != ns:
            return ("shape-error",)
        flat = 0
        for c, d in zip(coords, tgt):
            v = q.env.eval(c)
            if not (0 <= v < d):
                return OOB
            flat = flat * d + int(v)
        cc = []
        for d in reversed(src):
            cc.append(Lin.c(flat % d if d else 0))
            flat = flat // d if d else 0
        return self.base.cell(list(reversed(cc)), q, **kw)

    def __repr__(self):
        return "Reshape(%r -> %r)" % (self.base, list(self.shape))


class ColAgg(Nd):
    """``np.nanmean(A, axis=0)`` of a 2-d term (NaN cells are skipped), or of a 1-d term (scalar)."""

    def __init__(self, base, axis):
        self.base, self.axis = base, axis
        self.shape = (base.shape[1 - axis],) if (axis in (0, 1) and base.ndim == 2) else ()

    def members(self, coords, q):
        """Concrete mode: contents aggregated into the element."""
        out = []
        if self.base.ndim == 2 and self.axis in (0, 1):
            n = int(q.env.eval(self.base.shape[self.axis]))
            for i in range(n):
                cc = [Lin.c(i), coords[0]] if self.axis == 0 else [coords[0], Lin.c(i)]
                out.append(self.base.cell(cc, q))
        else:
            n = int(q.env.eval(self.base.shape[0]))
            for i in range(n):
                out.append(self.base.cell([Lin.c(i)], q))
        return out

    def cell(self, coords, q, **kw):
        if not q.concrete:
            return ("agg-sym", self, tuple(coords))
        if self.shape and not q.inrange(coords[0], ZERO, self.shape[0]):
            return OOB
        ms = self.members(coords, q)
        if any(m is None for m in ms):
            return None
        bad = [m for m in ms if m[0] in ("oob", "shape-error")]
        if bad:
            return bad[0]
        return ("mean", tuple(m for m in ms if m != ("fill", "nan")))

    def __repr__(self):
        return "ColAgg(%r, axis=%r)" % (self.base, self.axis)


class Tile(Nd):
    """``np.tile(A, reps)`` of a 1-d term: cyclic repetition."""

    def __init__(self, base, reps):
        self.base, self.reps = base, as_lin(reps)
        self.shape = (mul_lin(self.reps, base.shape[0]),)

    def cell(self, coords, q, **kw):
        if q.concrete:
            if not q.inrange(coords[0], ZERO, self.shape[0]):
                return OOB
            n = q.env.eval(self.base.shape[0])
            if n <= 0:
                return OOB
            c = q.env.eval(coords[0])
            return self.base.cell([Lin.c(c - n * (c // n))], q, **kw)
        return self.base.cell([sym_mod(coords[0], self.base.shape[0])], q, **kw)

    def __repr__(self):
        return "Tile(%r x %r)" % (self.base, self.reps)


class Strided(Nd):
    """``A[start::step]`` of a 1-d term (step >= 1)."""

    def __init__(self, base, start, step):
        self.base, self.start, self.step = base, as_lin(start), as_lin(step)
        self.shape = (sym_div("ceil", base.shape[0] - self.start, self.step),)

    def cell(self, coords, q, **kw):
        if not q.concrete:
            return self.base.cell([self.start + mul_lin(q.ev(coords[0]), self.step)], q, **kw)
        st_, sp_, n_ = q.env.eval(self.start), q.env.eval(self.step), q.env.eval(self.base.shape[0])
        c = q.env.eval(coords[0])
        if sp_ <= 0 or c < 0 or st_ + c * sp_ >= n_:
            return OOB
        return self.base.cell([Lin.c(st_ + c * sp_)], q, **kw)

    def subst(self, mapping):
        b = self.base.subst(mapping) if hasattr(self.base, "subst") else self.base
        return Strided(b, lsubst(self.start, mapping), lsubst(self.step, mapping))

    def __repr__(self):
        return "Strided(%r[%r::%r])" % (self.base, self.start, self.step)


class RepEach(Nd):
    """``np.repeat(A, r)`` of a 1-d term: every element repeated r times in place."""

    def __init__(self, base, reps):
        self.base, self.reps = base, as_lin(reps)
        self.shape = (mul_lin(self.reps, base.shape[0]),)

    def cell(self, coords, q, **kw):
        if not q.concrete:
            return None
        if not q.inrange(coords[0], ZERO, self.shape[0]):
            return OOB
        r = q.env.eval(self.reps)
        if r <= 0:
            return OOB
        return self.base.cell([Lin.c(q.env.eval(coords[0]) // r)], q, **kw)

    def __repr__(self):
        return "RepEach(%r x %r)" % (self.base, self.reps)


class Rep(Nd):
    """``np.repeat(scalar, n)`` / ``np.full(n, scalar)`` with a non-constant scalar."""

    def __init__(self, value, n):
        self.value = value
        self.shape = (as_lin(n),)

    def cell(self, coords, q, **kw):
        if q.concrete and not q.inrange(coords[0], ZERO, self.shape[0]):
            return OOB
        return ("val", self.value)

    def __repr__(self):
        return "Rep(%r x %r)" % (self.value, self.shape[0])


class Flat(Nd):
    """``A.reshape(k, -1)``-style flattening: the first ``keep`` axes stay, the rest is
    flattened row-major.  ``keep_const`` = 1 when the leading axis is the literal 1 of a
    one-row array (``reshape(1, -1)``)."""

    def __init__(self, base, keep, order="C"):
        self.base, self.keep, self.order = base, keep, order
        tail = ONE
        for s in base.shape[keep:]:
            tail = mul_lin(tail, s)
        self.shape = tuple(base.shape[:keep]) + (tail,)

    def cell(self, coords, q, **kw):
        tail = self.base.shape[self.keep:]
        lead = list(coords[:self.keep])
        flat = coords[self.keep]
        if q.concrete:
            dims = [int(q.env.eval(s)) for s in tail]
            f = q.env.eval(flat)
            tot = 1
            for d in dims:
                tot *= d
            if not (0 <= f < tot):
                return OOB
            cc = []
            if self.order == "F":
                for d in dims:
                    cc.append(Lin.c(f - d * (f // d)))
                    f = f // d
                return self.base.cell(lead + cc, q, **kw)
            for d in reversed(dims):
                cc.append(Lin.c(f - d * (f // d)))
                f = f // d
            return self.base.cell(lead + list(reversed(cc)), q, **kw)
        # symbolic: only when at most one flattened axis is longer than 1
        big = [i for i, s in enumerate(tail) if q.eq(s, ONE) is not True]
        if len(big) > 1:
            return None
        cc = [ZERO] * len(tail)
        if big:
            cc[big[0]] = flat
        elif tail:
            cc[-1] = flat
        return self.base.cell(lead + cc, q, **kw)

    def __repr__(self):
        return "Flat(%r, keep=%d)" % (self.base, self.keep)


# ------------------------------------------------------------------ scalar-ish values
class Elem:
    """A single element of an array term (``wraps[d]`` = axis length when the sign of the index is unknown;
    ``kw`` = the moment of the read: store-visibility limits)."""

    def __init__(self, arr, coords, wraps=None, kw=None):
        self.arr, self.coords = arr, [as_lin(c) for c in coords]
        self.wraps = list(wraps) if wraps else [None] * len(self.coords)
        self.kw = kw

    def content(self, q, **kw):
        cc = []
        for c, wdim in zip(self.coords, self.wraps):
            if wdim is not None:
                c = wrap_index(c, wdim, q)
                if c is None:
                    return None
            cc.append(c)
        if self.kw:
            kw = self.kw
        return self.arr.cell(cc, q, **kw)

    def __eq__(self, o):
        return isinstance(o, Elem) and self.arr is o.arr and self.coords == o.coords

    def __hash__(self):
        return hash(("Elem", id(self.arr), tuple(self.coords)))

    def __repr__(self):
        return "Elem(%r @ %r)" % (self.arr, self.coords)


class EstV:
    """A regressor object: the constructor parameter or a clone of it."""

    def __init__(self, origin, cloned=False, node=None, loops=()):
        self.origin, self.cloned, self.node, self.loops = origin, cloned, node, list(loops)

    def __repr__(self):
        return "%s(%s)" % ("clone" if self.cloned else "est", self.origin)


class ListV:
    """A Python list built by ``[]`` and ``.append`` (records keep their loop context)."""

    def __init__(self, node=None):
        self.appends = []  # (value, loops, atoms)
        self.node = node

    def __repr__(self):
        return "ListV(%d appends)" % len(self.appends)


class ItemV:
    """``lst[idx]`` of a ListV."""

    def __init__(self, lst, idx):
        self.lst, self.idx = lst, as_lin(idx)

    def __eq__(self, o):
        return isinstance(o, ItemV) and self.lst is o.lst and self.idx == o.idx

    def __hash__(self):
        return hash(("ItemV", id(self.lst), self.idx))

    def __repr__(self):
        return "Item(%r[%r])" % (self.lst, self.idx)


class BoundM:
    """``self.method`` taken as a value (called later through a local name)."""

    def __init__(self, selfv, name):
        self.selfv, self.name = selfv, name

    def __eq__(self, o):
        return isinstance(o, BoundM) and self.selfv is o.selfv and self.name == o.name

    def __hash__(self):
        return hash(("BoundM", id(self.selfv), self.name))

    def __repr__(self):
        return "bound(%s)" % self.name


class Picks:
    """``A[[i, j, ...]]`` with literal positions (normalised against the axis length) of a 1-d term."""

    def __init__(self, base, positions):
        self.base, self.positions = base, list(positions)

    def __repr__(self):
        return "Picks(%r @ %r)" % (self.base, self.positions)


class DictV:
    """A dict literal with constant (or tuple-of-constant) keys."""

    def __init__(self, items):
        self.items = dict(items)

    def __repr__(self):
        return "DictV(%d keys)" % len(self.items)


def const_key(v):
    if isinstance(v, K):
        return ("k", v.v)
    lv = as_lin_val(v)
    if lv is not None and lv.is_const():
        return ("k", int(lv.const))
    if isinstance(v, Tup):
        ks = [const_key(x) for x in v.items]
        return ("t",) + tuple(ks) if all(k is not None for k in ks) else None
    return None


class EnumV:
    def __init__(self, seq):
        self.seq = seq

    def __repr__(self):
        return "enumerate(%r)" % (self.seq,)


class CallV:
    """Result / record of a method call on an estimator (``fit`` / ``predict``).

    ``binding`` maps the loop variables enclosing the call to the iteration the record
    stands for (identity until a store lookup substitutes a concrete iteration)."""

    def __init__(self, kind, recv, args, node=None, loops=(), binding=None, seq=0, atoms=None):
        self.kind, self.recv, self.args, self.node, self.loops = kind, recv, list(args), node, list(loops)
        self.seq = seq
        self.atoms = dict(atoms or {})
        if binding is None:
            binding = {}
            for lp in self.loops:
                if lp.var is not None:
                    v = list(lp.var.symbols())[0]
                    binding[v] = Lin.sym(v)
        self.binding = binding

    def __eq__(self, o):
        return isinstance(o, CallV) and self.kind == o.kind and self.node is o.node and self.binding == o.binding

    def __hash__(self):
        return hash(("CallV", self.kind, id(self.node)))

    def __repr__(self):
        return "%r.%s(%s)%s" % (self.recv, self.kind, ", ".join(map(repr, self.args)),
                                 "@%r" % self.binding if self.binding else "")


NAN = K("nan")


# ------------------------------------------------------------------ the interpreter
class AInterp(Interp):
    """``Interp`` plus the array domain, properties / class attributes on ``self`` and
    a few numpy transfer functions."""

    def __init__(self, repo, **kw):
        kw.setdefault("inline_depth", 6)
        super().__init__(repo, **kw)
        self.seq = 0
        self.calls = []  # CallV records (estimator fit / predict)
        self.bufs = []

    # -- attributes ---------------------------------------------------------------
    def getattr(self, base, attr, e, st, frame):
        if isinstance(base, SelfV):
            heap = getattr(st, "heap", None)
            if heap is not None and (id(base), attr) in heap:
                return heap[(id(base), attr)]
            if attr in base.attrs:
                return base.attrs[attr]
            if attr in self.self_attrs:
                return self.self_attrs[attr]
            if base.cls is not None:
                for k in self.repo.mro(base.cls):
                    if not isinstance(k, ClassInfo):
                        continue
                    if attr in k.properties and "getter" in k.properties[attr]:
                        fn = k.properties[attr]["getter"]
                        if frame.depth >= self.inline_depth:
                            return Opq("self." + attr)
                        sub = Frame(k.module, fn, base.cls, k, frame.depth + 1)
                        traces, _ = self.run_function(sub, {fn.args.args[0].arg: base}, st)
                        vals = [o[1] for s, o in traces if o[0] == "return"]
                        if len(vals) >= 1 and all(v == vals[0] for v in vals[1:]):
                            return vals[0]
                        return Opq("self." + attr)
                    if attr in k.class_attrs:
                        return self.ev(k.class_attrs[attr], State(), Frame(k.module, frame.func, base.cls, k, frame.depth))
                    if attr in k.methods:
                        return BoundM(base, attr)
            return Opq("self." + attr)
        if isinstance(base, Ser) and attr == "index":
            return Opq("index-of", [base])
        if isinstance(base, Nd):
            if attr == "shape":
                return Tup(list(base.shape))
            if attr == "T":
                if base.ndim == 2:
                    return View(base, [("sl", 1, ZERO), ("sl", 0, ZERO)], [base.shape[1], base.shape[0]])
                if base.ndim == 1:
                    return base
            if attr == "ndim":
                return Lin.c(base.ndim)
            if attr in ("values",):
                return base
            if attr == "size" and base.ndim == 1:
                return base.shape[0]
            if attr in ("loc", "iloc"):
                return Opq("attr:" + attr, [base])
        return super().getattr(base, attr, e, st, frame)

    def decide(self, test, st, frame):
        r = super().decide(test, st, frame)
        if r is None and not isinstance(test, (ast.BoolOp, ast.Compare)) and not (isinstance(test, ast.UnaryOp) and isinstance(test.op, ast.Not)):
            # truthiness of an integer expression (``if len(x):``, ``if not n:``) from the facts on the trace
            try:
                v = as_lin_val(self.ev(test, st, frame))
            except Exception:
                v = None
            if v is not None:
                if v.is_const():
                    return v.const != 0
                if entails(st.facts, 1 - v) or entails(st.facts, v + 1):
                    return True
        return r

    def _is(self, a, b):
        for x, y in ((a, b), (b, a)):
            if isinstance(y, K) and y.v is None and isinstance(x, (Nd, EstV, ListV, ItemV, CallV, Elem, EnumV)):
                return False
        return super()._is(a, b)

    # -- arithmetic ---------------------------------------------------------------
    def binop(self, op, a, b, st):
        la, lb = as_lin_val(a), as_lin_val(b)
        if la is not None and lb is not None and not (la.is_const() and lb.is_const()):
            if isinstance(op, ast.Mod):
                pos = (lb.const > 0) if lb.is_const() else entails(st.facts, 1 - lb)
                if pos or not lb.is_const():
                    m = sym_mod(la, lb)
                    if pos:
                        st.facts.add_cmp(m, ">=", 0, "x mod m >= 0 (m > 0)")
                        st.facts.add_cmp(m, "<=", lb - 1, "x mod m <= m - 1")
                    return m
            if isinstance(op, ast.Mult) and not la.is_const() and not lb.is_const():
                return self.product(la, lb, st)
            if isinstance(op, ast.FloorDiv) and not (lb.is_const() and lb.const == 0):
                return sym_div("floor", la, lb)
        return super().binop(op, a, b, st)

    def product(self, la, lb, st):
        return product_with_facts(la, lb, st.facts)

    # -- subscripts ----------------------------------------------------------------
    def norm_index(self, x, dim, st):
        """Resolve a possibly negative index / bound against the axis length."""
        if x.is_const():
            return x if x.const >= 0 else dim + x
        if entails(st.facts, -x):
            return x
        if entails(st.facts, x + 1):
            return dim + x
        return None

    def norm_bound(self, x, dim, st):
        """Slice bound: negative values count from the end and are clamped at 0 (numpy)."""
        y = self.norm_index(x, dim, st)
        if y is None or y is x or y == x:
            return y
        # x was negative: y = dim + x may still be below 0, where numpy clamps
        if y.is_const():
            return y if y.const >= 0 else ZERO
        if entails(st.facts, y):
            return ZERO
        if entails(st.facts, -y):
            return y
        return None

    def parse_subscript(self, base, sl, st, frame, allow_raw=False):
        """Per base dimension: ('pt', lin) | ('sl', lo, hi) | ('ga', Vec/Rng) ; or None."""
        elts = list(sl.elts) if isinstance(sl, ast.Tuple) else [sl]
        ell = [i for i, el in enumerate(elts) if isinstance(el, ast.Constant) and el.value is Ellipsis]
        if len(ell) == 1 and len(elts) - 1 <= base.ndim:
            fill = [ast.Slice(lower=None, upper=None, step=None) for _ in range(base.ndim - (len(elts) - 1))]
            elts = elts[:ell[0]] + fill + elts[ell[0] + 1:]
        elif ell:
            return None
        if len(elts) > base.ndim:
            return None
        out = []
        for d, el in enumerate(elts):
            dim = base.shape[d]
            if isinstance(el, ast.Slice):
                if el.step is not None:
                    return None
                lo = ZERO
                hi = dim
                raw_lo = raw_hi = False
                if el.lower is not None:
                    lo0 = as_lin_val(self.ev(el.lower, st, frame))
                    if lo0 is None:
                        return None
                    lo = self.norm_bound(lo0, dim, st)
                    if lo is None:
                        lo, raw_lo = lo0, True
                if el.upper is not None:
                    hi0 = as_lin_val(self.ev(el.upper, st, frame))
                    if hi0 is None:
                        return None
                    hi = self.norm_bound(hi0, dim, st)
                    if hi is None:
                        hi, raw_hi = hi0, True
                if raw_lo or raw_hi:
                    if not allow_raw:
                        return None
                    # sign of a bound unknown: read as non-negative symbolically (checked when cells are queried),
                    # with numpy's wrap-around / clamping on concrete instances
                    out.append(("sl", lo, hi, (raw_lo, raw_hi, dim)))
                else:
                    out.append(("sl", lo, hi))
                continue
            v = self.ev(el, st, frame)
            if isinstance(v, Alt):
                return None
            lv = as_lin_val(v)
            if lv is not None:
                nv = self.norm_index(lv, dim, st)
                out.append(("pt", nv) if nv is not None else ("ptw", lv, dim))
            elif isinstance(v, FHV):
                out.append(("ga", v.vec))
            elif isinstance(v, Vec):
                out.append(("ga", v))
            else:
                return None
        for d in range(len(elts), base.ndim):
            out.append(("sl", ZERO, base.shape[d]))
        return out

    def ev_Subscript(self, e, st, frame):
        base = self.ev(e.value, st, frame)
        if isinstance(base, Nd) and base.ndim == 1 and isinstance(e.slice, ast.Slice) and e.slice.step is not None and e.slice.upper is None:
            lo = as_lin_val(self.ev(e.slice.lower, st, frame)) if e.slice.lower is not None else ZERO
            stp = as_lin_val(self.ev(e.slice.step, st, frame))
            if lo is not None and stp is not None and entails(st.facts, -lo) and entails(st.facts, 1 - stp):
                return Strided(base, lo, stp)
        if isinstance(base, Nd) and base.ndim == 1 and isinstance(e.slice, (ast.List, ast.Tuple)) and e.slice.elts:
            ps = [as_lin_val(self.ev(x, st, frame)) for x in e.slice.elts]
            if all(p_ is not None for p_ in ps):
                ns = [self.norm_index(p_, base.shape[0], st) for p_ in ps]
                if all(n_ is not None for n_ in ns):
                    return Picks(base, ns)
        if isinstance(base, Nd):
            spec = self.parse_subscript(base, e.slice, st, frame, allow_raw=True)
            if spec is None:
                return Opq("nd-index", [base])
            return self.make_view(base, spec)
        if isinstance(base, DictV) and not isinstance(e.slice, ast.Slice):
            ck = const_key(self.ev(e.slice, st, frame))
            if ck is None:
                return Opq("dict-index", [base])
            if ck in base.items:
                return base.items[ck]
            from ..absint import AlwaysRaises
            raise AlwaysRaises("KeyError")
        if isinstance(base, ListV):
            idx = as_lin_val(self.ev(e.slice, st, frame)) if not isinstance(e.slice, ast.Slice) else None
            if idx is not None:
                return ItemV(base, idx)
            return Opq("list-index", [base])
        if isinstance(base, Opq) and base.tag == "attr:iloc" and base.args and isinstance(base.args[0], Nd) \
                and isinstance(e.slice, ast.Slice):
            arr = base.args[0]
            spec = self.parse_subscript(arr, e.slice, st, frame)
            if spec is None:
                return Opq("iloc", [arr])
            return self.make_view(arr.src if isinstance(arr, Ser) else arr, spec)
        if isinstance(base, Opq) and base.tag == "index-of" and base.args and isinstance(base.args[0], Ser) \
                and not isinstance(e.slice, ast.Slice):
            li = as_lin_val(self.ev(e.slice, st, frame))
            if li is not None and li.is_const() and li.const in (0, -1):
                return base.args[0].first if li.const == 0 else base.args[0].cutoff
            return Opq("index-elem", [base])
        if isinstance(base, Opq) and base.tag == "attr:loc" and base.args and isinstance(base.args[0], Ser) \
                and isinstance(e.slice, ast.Slice) and e.slice.step is None:
            lo = as_lin_val(self.ev(e.slice.lower, st, frame)) if e.slice.lower is not None else None
            hi = as_lin_val(self.ev(e.slice.upper, st, frame)) if e.slice.upper is not None else None
            return base.args[0].loc_slice(lo, hi, st.facts)
        return super().ev_Subscript(e, st, frame)

    def index(self, base, idx, e, st, frame):
        v = base.vec if isinstance(base, FHV) else base
        li = as_lin_val(idx)
        if isinstance(v, Vec) and v.base in CONST_VECS and li is not None and li.is_const() and not v.neg:
            vals = CONST_VECS[v.base]
            if -len(vals) <= li.const < len(vals):
                return Lin.c(vals[int(li.const)]) + v.off
        return super().index(base, idx, e, st, frame)

    def make_view(self, base, spec):
        if all(s[0] in ("pt", "ptw") for s in spec):
            return Elem(base, [s[1] for s in spec], [s[2] if s[0] == "ptw" else None for s in spec])
        vspec, shape, raw = [], [], {}
        for s in spec:
            if s[0] == "pt":
                vspec.append(("pt", s[1]))
            elif s[0] == "ptw":
                vspec.append(s)
            elif s[0] == "sl":
                if len(s) > 3:
                    raw[len(shape)] = (s[1], s[2]) + tuple(s[3])
                vspec.append(("sl", len(shape), s[1]))
                shape.append(s[2] - s[1])
            else:
                vspec.append(("ga", len(shape), s[1]))
                shape.append(vec_len(s[1]))
        v = View(base, vspec, shape)
        v.raw = raw
        return v

    def store_subscript(self, target, val, st, frame):
        base = self.ev(target.value, st, frame)
        if isinstance(base, Buf):
            spec = self.parse_subscript(base, target.slice, st, frame)
            if spec is None or any(s[0] == "ga" for s in spec) or isinstance(val, Alt):
                base.poisoned = "store not interpretable at line %s" % getattr(target, "lineno", "?")
                return
            box = []
            for s in spec:
                if s[0] == "pt":
                    box.append((s[1], s[1] + 1, True))
                elif s[0] == "ptw":
                    box.append((s[1], s[1] + 1, True, s[2]))
                else:
                    box.append((s[1], s[2], False))
            self.seq += 1
            store = Store(box, val, list(st.loops), dict(st.atoms), target, self.seq)
            if isinstance(val, Nd):
                sd = store.slice_dims()
                if val.ndim > len(sd):
                    base.poisoned = "stored value has more axes than the target slice (line %s)" % target.lineno
                    return
                for vd, td in zip(range(val.ndim), sd[len(sd) - val.ndim:]):
                    base.obligations.append((box[td][1] - box[td][0] - val.shape[vd], val.shape[vd],
                                             "extent of the stored value == extent of the target slice", target))
            base.add_store(store)
            return
        if isinstance(base, Nd):
            b = base
            while isinstance(b, View):
                b = b.base
            if isinstance(b, Buf):
                b.poisoned = "store through a view at line %s" % getattr(target, "lineno", "?")
            return
        super().store_subscript(target, val, st, frame)

    # -- loops ---------------------------------------------------------------------
    def _for(self, node, st, frame):
        it = self.ev(node.iter, st, frame)
        if isinstance(it, Tup) and 0 < len(it.items) <= 16 and not any(isinstance(x, Alt) for x in it.items):
            return self._for_unrolled(node, it.items, st, frame)
        if isinstance(it, Rng) and it.step == Lin.c(-1):
            return self._for_descending(node, it, st, frame)
        seq, enum = None, False
        if isinstance(it, EnumV):
            seq, enum = it.seq, True
        elif isinstance(it, ListV):
            seq = it
        if enum and isinstance(seq, (Vec, FHV)):
            vec = seq.vec if isinstance(seq, FHV) else seq
            self.uid += 1
            var = Lin.sym("idx#%d" % self.uid)
            rng = Rng(ZERO, vec_len(vec))
            body_st = st.copy()
            body_st.facts.add_cmp(rng.lo, "<=", var, "loop range lower bound")
            body_st.facts.add_cmp(var, "<=", rng.hi - 1, "loop range upper bound")
            q_ = Q(body_st.facts)
            elem = q_.vec_elem(vec, var)
            body_st.loops = list(st.loops) + [LoopCtx(var, rng, node)]
            self.assign(node.target, Tup([var, elem]), body_st, frame)
            after = st.copy()
            self._havoc(node.body, after)
            results = []
            for s_, o_ in self.block(node.body, body_st, frame):
                if o_[0] == "return":
                    results.append((s_, o_))
            if node.orelse:
                return results + self.block(node.orelse, after, frame)
            return results + [(after, ("fall",))]
        if seq is None or not isinstance(seq, ListV):
            return self._delegate_for(node, it, st, frame)
        n = list_len(seq)
        if n is None:
            return self._delegate_for(node, it, st, frame)
        self.uid += 1
        var = Lin.sym("idx#%d" % self.uid)
        rng = Rng(ZERO, n)
        body_st = st.copy()
        body_st.facts.add_cmp(rng.lo, "<=", var, "loop range lower bound")
        body_st.facts.add_cmp(var, "<=", rng.hi - 1, "loop range upper bound")
        body_st.loops = list(st.loops) + [LoopCtx(var, rng, node)]
        item = ItemV(seq, var)
        self.assign(node.target, Tup([var, item]) if enum else item, body_st, frame)
        after = st.copy()
        self._havoc(node.body, after)
        results = []
        for s, o in self.block(node.body, body_st, frame):
            if o[0] == "return":
                results.append((s, o))
        if node.orelse:
            return results + self.block(node.orelse, after, frame)
        return results + [(after, ("fall",))]

    def _delegate_for(self, node, it, st, frame):
        """The engine's loop handling, without evaluating the iterable a second time (inlined generators record their calls once)."""
        self._iter_cache = (node.iter, it)
        try:
            return super()._for(node, st, frame)
        finally:
            self._iter_cache = None

    def ev(self, e, st, frame):
        c = getattr(self, "_iter_cache", None)
        if c is not None and c[0] is e:
            self._iter_cache = None
            return c[1]
        return super().ev(e, st, frame)

    def _exec_stmt(self, node, st, frame):
        if isinstance(node, ast.With) and len(node.items) == 1 and node.items[0].optional_vars is None:
            r = self._with_contextmanager(node, st, frame)
            if r is not None:
                return r
        if isinstance(node, ast.While):
            f_ = self._counting_while(node, st, frame)
            if f_ is not None:
                res = self._for(f_, st, frame)
                for s_, o_ in res:
                    if o_[0] == "fall":
                        s_.env[f_.target.id] = Opq("loop-var-after:" + f_.target.id)
                return res
            # an uninterpreted loop: whatever it stores into a buffer is unknown
            for n_ in ast.walk(node):
                tgt = None
                if isinstance(n_, ast.Subscript) and isinstance(n_.ctx, ast.Store):
                    tgt = n_.value
                elif isinstance(n_, ast.AugAssign) and isinstance(n_.target, ast.Subscript):
                    tgt = n_.target.value
                if tgt is not None:
                    try:
                        b_ = self.ev(tgt, st, frame)
                    except Exception:
                        b_ = None
                    while isinstance(b_, (View, Flat)):
                        b_ = b_.base
                    if isinstance(b_, Buf):
                        b_.poisoned = "stores inside an uninterpreted while loop (line %s)" % node.lineno
        return super()._exec_stmt(node, st, frame)

    def _with_contextmanager(self, node, st, frame):
        """``with self.cm():`` for a repo-local ``@contextmanager`` method of the shape ``pre...; try: yield; finally: post...``:
        the pre-statements run before the body and the finally-statements after it, on every way out of the body."""
        ce = node.items[0].context_expr
        if not (isinstance(ce, ast.Call) and isinstance(ce.func, ast.Attribute) and not ce.args and not ce.keywords):
            return None
        recv = self.ev(ce.func.value, st, frame)
        if not isinstance(recv, SelfV) or recv.cls is None or ce.func.attr in self.no_inline:
            return None
        hit = self.repo.lookup_method(recv.cls, ce.func.attr)
        if not hit:
            return None
        k, fn = hit
        if not any((dotted(d) or "").split(".")[-1] == "contextmanager" for d in fn.decorator_list):
            return None
        body = [b for b in fn.body if not (isinstance(b, ast.Expr) and isinstance(b.value, ast.Constant))]
        if not body or not isinstance(body[-1], ast.Try):
            return None
        tr = body[-1]
        if tr.handlers or tr.orelse or not (len(tr.body) == 1 and isinstance(tr.body[0], ast.Expr) and isinstance(tr.body[0].value, ast.Yield)
                                            and tr.body[0].value.value is None):
            return None
        pre, post = body[:-1], tr.finalbody
        sub = Frame(k.module, fn, recv.cls, k, frame.depth + 1)
        selfname = fn.args.args[0].arg
        cm_st = st.copy()
        cm_st.env = {selfname: recv}
        outs = self.block(pre, cm_st, sub)
        if len(outs) != 1 or outs[0][1][0] != "fall":
            return None
        cm_env = dict(outs[0][0].env)
        st.facts, st.heap = outs[0][0].facts, outs[0][0].heap
        results = []
        for s_, o_ in self.block(node.body, st, frame):
            fin = s_.copy()
            saved_env = s_.env
            fin.env = dict(cm_env)
            fouts = self.block(post, fin, sub)
            for f_, fo in fouts:
                s2 = f_
                s2.env = dict(saved_env)
                results.append((s2, o_ if fo[0] == "fall" else fo))
        return results

    def _counting_while(self, node, st, frame):
        """``while i < hi: body; i += 1`` with ``i`` an integer set before the loop -> the equivalent ``for i in range(i, hi)``."""
        t = node.test
        if node.orelse or not (isinstance(t, ast.Compare) and len(t.ops) == 1 and isinstance(t.ops[0], (ast.Lt, ast.LtE)) and isinstance(t.left, ast.Name)):
            return None
        v = t.left.id
        if as_lin_val(st.env.get(v)) is None or not node.body:
            return None
        last = node.body[-1]
        if not (isinstance(last, ast.AugAssign) and isinstance(last.op, ast.Add) and isinstance(last.target, ast.Name) and last.target.id == v
                and isinstance(last.value, ast.Constant) and last.value.value == 1):
            return None
        rest = node.body[:-1]
        for b_ in rest:
            for n_ in ast.walk(b_):
                if isinstance(n_, ast.Name) and n_.id == v and isinstance(n_.ctx, (ast.Store, ast.Del)):
                    return None
                if isinstance(n_, (ast.Break, ast.Continue)):
                    return None
        # the bound must not be rebound inside the loop
        bound_names = {n_.id for n_ in ast.walk(t.comparators[0]) if isinstance(n_, ast.Name)}
        for b_ in node.body:
            for n_ in ast.walk(b_):
                if isinstance(n_, ast.Name) and n_.id in bound_names and isinstance(n_.ctx, ast.Store):
                    return None
        hi_ = t.comparators[0]
        if isinstance(t.ops[0], ast.LtE):
            hi_ = ast.BinOp(left=hi_, op=ast.Add(), right=ast.Constant(value=1))
        rng = ast.Call(func=ast.Name(id="range", ctx=ast.Load()), args=[ast.Name(id=v, ctx=ast.Load()), hi_], keywords=[])
        f_ = ast.For(target=ast.Name(id=v, ctx=ast.Store()), iter=rng, body=rest or [ast.Pass()], orelse=[])
        ast.copy_location(f_, node)
        ast.fix_missing_locations(f_)
        return f_

    def _for_unrolled(self, node, items, st, frame):
        """A loop over a literal tuple / list: every iteration is interpreted in order, with break / continue / for-else."""
        live, broke, results = [st], [], []
        for item in items:
            nxt = []
            for s in live:
                self.assign(node.target, item, s, frame)
                for s2, o in self.block(node.body, s, frame):
                    if o[0] in ("fall", "continue"):
                        nxt.append(s2)
                    elif o[0] == "break":
                        broke.append(s2)
                    else:
                        results.append((s2, o))
            live = nxt
            if len(live) + len(broke) + len(results) > self.max_states:
                raise AnalysisError("trace partition limit exceeded in an unrolled loop of %s" % frame.func.name)
        out = list(results)
        for s in live:
            out += self.block(node.orelse, s, frame) if node.orelse else [(s, ("fall",))]
        out += [(s, ("fall",)) for s in broke]
        return out

    def _for_descending(self, node, it, st, frame):
        """``range(a, b, -1)``: the loop variable takes a, a-1, ..., b+1 (facts: b+1 <= var <= a)."""
        self.uid += 1
        var = Lin.sym("%s#%d" % (dotted(node.target) or "it", self.uid))
        body_st = st.copy()
        body_st.facts.add_cmp(it.hi + 1, "<=", var, "descending loop range lower bound")
        body_st.facts.add_cmp(var, "<=", it.lo, "descending loop range upper bound")
        body_st.loops = list(st.loops) + [LoopCtx(var, it, node)]
        self.assign(node.target, var, body_st, frame)
        after = st.copy()
        self._havoc(node.body, after)
        if isinstance(node.target, ast.Name):
            after.env[node.target.id] = Opq("loop-var-after:" + node.target.id)
        results = []
        for s, o in self.block(node.body, body_st, frame):
            if o[0] == "return":
                results.append((s, o))
        if node.orelse:
            return results + self.block(node.orelse, after, frame)
        return results + [(after, ("fall",))]

    # -- calls ---------------------------------------------------------------------
    def resolve_callee(self, e, fname, st, frame):
        if isinstance(e.func, ast.Name):
            v = st.env.get(e.func.id)
            if isinstance(v, BoundM) and v.selfv.cls is not None:
                hit = self.repo.lookup_method(v.selfv.cls, v.name)
                if hit:
                    k, fn = hit
                    return k.module, fn, v.selfv, k, k.is_static(v.name)
                return None
        return super().resolve_callee(e, fname, st, frame)

    def ev_List(self, e, st, frame):
        if not e.elts:
            return ListV(e)
        return super().ev_List(e, st, frame)

    def ev_Dict(self, e, st, frame):
        items = {}
        for k_, v_ in zip(e.keys, e.values):
            if k_ is None:
                return Opq("expr:Dict")
            ck = const_key(self.ev(k_, st, frame))
            if ck is None:
                return Opq("expr:Dict")
            items[ck] = self.ev(v_, st, frame)
        return DictV(items)

    def ev_Name(self, e, st, frame):
        if e.id not in st.env:
            sym = self.repo.resolve_name(frame.module, e.id)
            if sym is not None and sym.kind == "const" and isinstance(sym.target, (ast.Dict, ast.Tuple)) and sym.module is not None:
                # module-level literal table
                return self.ev(sym.target, State(), Frame(sym.module, frame.func, None, None, frame.depth))
        return super().ev_Name(e, st, frame)

    def builtin_call(self, e, fname, args, kwargs, st, frame):
        ext = self.ext_name(fname, frame)
        r = self.numpy_call(ext, e, args, kwargs, st, frame)
        if r is not NotImplemented:
            return r
        if ext == "builtins.len" and len(args) == 1:
            a = args[0]
            if isinstance(a, Nd) and a.ndim >= 1:
                return a.shape[0]
            if isinstance(a, ListV):
                n = list_len(a)
                return n if n is not None else Opq("len", args)
            v = a.vec if isinstance(a, FHV) else a
            if isinstance(v, Vec) and v.base in CONST_VECS:
                return Lin.c(len(CONST_VECS[v.base]))
        if ext == "builtins.hasattr" and len(args) == 2 and isinstance(args[0], SelfV) and isinstance(args[1], K):
            # attributes created by an earlier method call on this object (fit) exist at run time
            heap = getattr(st, "heap", {})
            if (id(args[0]), args[1].v) in heap or args[1].v in args[0].attrs:
                return K(True)
        if ext == "builtins.enumerate" and len(args) == 1:
            return EnumV(args[0])
        return super().builtin_call(e, fname, args, kwargs, st, frame)

    def shape_arg(self, v):
        if isinstance(v, Tup):
            ls = [as_lin_val(x) for x in v.items]
            return ls if all(l is not None for l in ls) else None
        l = as_lin_val(v)
        return [l] if l is not None else None

    def numpy_call(self, ext, e, args, kwargs, st, frame):
        if ext in ("numpy.zeros", "numpy.empty", "numpy.ones") and (args or "shape" in kwargs):
            shp = self.shape_arg(args[0] if args else kwargs["shape"])
            if shp is None:
                return Opq(ext, args)
            b = Buf(shp, {"numpy.zeros": 0, "numpy.ones": 1}.get(ext, "uninit"), e)
            b.dtype = kwargs.get("dtype", args[1] if len(args) > 1 else None)
            if set(kwargs) - {"dtype", "shape"}:
                return Opq(ext, args)
            self.bufs.append(b)
            return b
        if ext == "numpy.full" and len(args) >= 2:
            shp = self.shape_arg(args[0])
            if shp is None:
                return Opq(ext, args)
            fv = args[1]
            if len(shp) == 1 and not is_nan(fv) and as_lin_val(fv) is None and not isinstance(fv, (Nd, Alt)):
                return Rep(fv, shp[0])
            if is_nan(fv):
                b = Buf(shp, "nan", e)
            else:
                lv = as_lin_val(fv)
                b = Buf(shp, lv if lv is not None else fv, e)
            self.bufs.append(b)
            return b
        if ext == "numpy.nan":
            return NAN
        if ext == "numpy.hstack" and len(args) == 1 and isinstance(args[0], Tup):
            parts = args[0].items
            if all(isinstance(p, Nd) and p.ndim == 1 for p in parts) and parts:
                return Cat(parts, 0)
            return Opq(ext, args)
        if ext == "numpy.column_stack" and len(args) == 1 and isinstance(args[0], Tup):
            parts = []
            for p in args[0].items:
                if isinstance(p, Nd) and p.ndim == 1:
                    p = View(p, [("sl", 0, ZERO)], [p.shape[0], ONE])
                if not (isinstance(p, Nd) and p.ndim == 2):
                    return Opq(ext, args)
                parts.append(p)
            return Cat(parts, 1) if parts else Opq(ext, args)
        if ext == "numpy.concatenate" and args and isinstance(args[0], Tup):
            ax = as_lin_val(kwargs.get("axis", args[1] if len(args) > 1 else ZERO))
            parts = args[0].items
            if ax is not None and ax.is_const() and ax.const < 0 and parts and isinstance(parts[0], Nd):
                ax = ax + parts[0].ndim
            if ax is not None and ax.is_const() and parts and all(isinstance(p, Nd) for p in parts) \
                    and len({p.ndim for p in parts}) == 1 and 0 <= ax.const < parts[0].ndim:
                return Cat(parts, int(ax.const))
            return Opq(ext, args)
        if ext == "numpy.expand_dims" and args and isinstance(args[0], Nd):
            ax = as_lin_val(kwargs.get("axis", args[1] if len(args) > 1 else None))
            a = args[0]
            if ax is not None and ax.is_const() and 0 <= ax.const <= a.ndim:
                k = int(ax.const)
                spec, shape = [], []
                for d in range(a.ndim):
                    vd = d if d < k else d + 1
                    spec.append(("sl", vd, ZERO))
                shape = list(a.shape[:k]) + [ONE] + list(a.shape[k:])
                return View(a, spec, shape)
            return Opq(ext, args)
        if ext == "numpy.tile" and args and isinstance(args[0], Nd) and args[0].ndim == 1:
            reps = as_lin_val(kwargs.get("reps", args[1] if len(args) > 1 else None))
            if reps is not None:
                t = Tile(args[0], reps)
                self.tile_facts(t, st)
                return t
            return Opq(ext, args)
        if ext == "numpy.repeat" and len(args) + len(kwargs) >= 2:
            n = as_lin_val(kwargs.get("repeats", args[1] if len(args) > 1 else None))
            if n is not None and not isinstance(args[0], Nd):
                return Rep(args[0], n)
            if n is not None and isinstance(args[0], Nd) and args[0].ndim == 1 and "axis" not in kwargs:
                return RepEach(args[0], n)
            return Opq(ext, args)
        if ext in ("numpy.nanmean", "numpy.mean") and args and isinstance(args[0], Nd):
            ax = kwargs.get("axis", args[1] if len(args) > 1 else None)
            a = args[0]
            if ax is None or (isinstance(ax, K) and ax.v is None):
                if a.ndim == 1:
                    return Opq("scalar-" + ext.split(".")[-1], [a])
                return Opq(ext, args)
            lax = as_lin_val(ax)
            if lax is not None and lax.is_const() and lax.const in (-1, -2) and a.ndim == 2:
                lax = lax + 2
            if lax is not None and lax.is_const() and lax.const in (0, 1) and a.ndim == 2:
                c = ColAgg(a, int(lax.const))
                c.kind = ext.split(".")[-1]
                return c
            return Opq(ext, args)
        if ext in ("numpy.ceil", "numpy.floor", "math.ceil", "math.floor") and len(args) == 1:
            a = args[0]
            kind = ext.split(".")[-1]
            if isinstance(a, Opq) and a.tag == "div" and len(a.args) == 2:
                x, y = as_lin_val(a.args[0]), as_lin_val(a.args[1])
                if x is not None and y is not None:
                    return sym_div(kind, x, y)
            la = as_lin_val(a)
            if la is not None and all(c.denominator == 1 for c in list(la.terms.values()) + [la.const]):
                return la
            return Opq(ext, args)
        if ext in ("numpy.int", "builtins.int", "numpy.int64") and len(args) == 1 and isinstance(args[0], Opq) \
                and args[0].tag == "div" and len(args[0].args) == 2:
            x, y = as_lin_val(args[0].args[0]), as_lin_val(args[0].args[1])
            if x is not None and y is not None:
                return sym_div("floor", x, y)  # exact for non-negative operands (window / sp arithmetic)
        if ext in ("builtins.max", "builtins.min", "numpy.maximum", "numpy.minimum") and len(args) == 2 and not kwargs:
            a, b = as_lin_val(args[0]), as_lin_val(args[1])
            if a is not None and b is not None:
                if "max" in ext:
                    m = sym_max(a, b)
                    st.facts.add_cmp(m, ">=", a, "max(a, b) >= a")
                    st.facts.add_cmp(m, ">=", b, "max(a, b) >= b")
                else:
                    m = sym_min(a, b)
                    st.facts.add_cmp(m, "<=", a, "min(a, b) <= a")
                    st.facts.add_cmp(m, "<=", b, "min(a, b) <= b")
                return m
        if ext in ("numpy.asarray", "numpy.array") and args and isinstance(args[0], Nd):
            return args[0]
        return NotImplemented

    def tile_facts(self, t, st):
        p = t.shape[0]
        if len(p.terms) == 1:
            s = list(p.terms)[0]
            d = SYMDEFS.get(s)
            if d and d[0] == "prod":
                self.product(d[1], d[2], st)

    def method_call(self, recv, meth, args, kwargs, e, st, frame):
        if isinstance(recv, ListV) and meth == "append" and len(args) == 1:
            recv.appends.append((args[0], list(st.loops), dict(st.atoms)))
            return K(None)
        if isinstance(recv, Ser) and meth == "combine_first" and len(args) == 1:
            other = args[0]
            if isinstance(other, Ser) and other.ndim == recv.ndim:
                # union of the two label sets; the last label is the later of the two ends
                last = sym_max(recv.cutoff, other.cutoff)
                return Ser("(%s|%s)" % (recv.name, other.name), Lin.sym("len(%s|%s)" % (recv.name, other.name)), last,
                           recv.shape[1] if recv.ndim == 2 else None)
            if isinstance(other, K) and other.v is None:
                return recv
            return Opq("combine_first", [recv, other])
        if isinstance(recv, Nd) and meth in ("to_numpy", "astype"):
            dt = kwargs.get("dtype", args[0] if (args and meth == "astype") else (args[0] if args else None))
            if dt is not None:
                # element values are outside the index-map domain; the cast is recorded for the rules
                if not hasattr(self, "casts"):
                    self.casts = []
                self.casts.append((e, recv, dt))
        if isinstance(recv, Nd):
            if meth in ("to_numpy", "copy", "astype") and not isinstance(recv, Buf):
                return recv
            if meth == "to_numpy":
                return recv
            if meth in ("mean",) and not args and not kwargs and recv.ndim == 1:
                return Opq("scalar-mean", [recv])
            if meth == "ravel" and not args:
                if recv.ndim == 1:
                    return recv
                return Flat(recv, 0)
            if meth == "reshape":
                order = kwargs.get("order", K("C"))
                extra = {k for k in kwargs if k != "order"}
                if extra or not (isinstance(order, K) and order.v in ("C", "F")):
                    return Opq("reshape", [recv] + list(args))
                return self.reshape(recv, args, st, order.v)
        if isinstance(recv, FHV):
            if meth == "to_relative":
                return recv if recv.relative else Opq("fh.to_relative(abs)")
            if meth in ("to_out_of_sample", "to_in_sample"):
                k = "%s.is_all_%s" % (recv.vec.base, meth[3:])
                if self.scenario.get(k) is True:
                    return recv
                return Opq("fh." + meth)
            if meth == "to_indexer" and recv.relative:
                fc = kwargs.get("from_cutoff", args[1] if len(args) > 1 else K(True))
                if fc == K(True):
                    return recv.vec.shift(-1)
                if fc == K(False):
                    # zero-based relative to the first value of the horizon
                    v = recv.vec
                    first = sym_elem(v.base, ZERO) + v.off
                    return Vec(v.base, v.off - first, v.sorted, v.neg)
                return Opq("fh.to_indexer(from_cutoff=?)")
        return super().method_call(recv, meth, args, kwargs, e, st, frame)

    def reshape(self, a, args, st, order="C"):
        if order != "C":
            r = self.reshape(a, args, st)
            if isinstance(r, Flat):
                return Flat(r.base, r.keep, order)
            if isinstance(r, View):
                return r  # adding an axis of length 1 to a 1-d array: order-independent
            return Opq("reshape-order-F", [a] + list(args))
        if len(args) == 1 and isinstance(args[0], Tup):
            args = args[0].items
        ls = [as_lin_val(x) for x in args]
        if any(l is None for l in ls):
            return Opq("reshape", [a] + list(args))
        minus1 = [i for i, l in enumerate(ls) if l.is_const() and l.const == -1]
        if len(ls) == 2 and minus1 == [1]:
            # reshape(k, -1): k must be the leading axis length (or the literal 1 of a one-row array)
            if ls[0] == a.shape[0] and a.ndim >= 2:
                return Flat(a, 1)
            return Opq("reshape", [a] + list(args))
        if len(ls) == 2 and minus1 == [0] and ls[1] == ONE and a.ndim == 1:
            return View(a, [("sl", 0, ZERO)], [a.shape[0], ONE])
        if len(ls) == 2 and not minus1 and a.ndim == 1:
            return Resh2(a, ls[0], ls[1])
        if not minus1 and len(ls) >= 2 and not (len(ls) == 2 and a.ndim == 1):
            return Reshape(a, ls)
        if len(ls) == 2 and minus1 == [0] and a.ndim == 1:
            rows = sym_div("floor", a.shape[0], ls[1]) if not (a.shape[0].is_const() and ls[1].is_const()) else Lin.c(a.shape[0].const // ls[1].const)
            return Resh2(a, rows, ls[1])
        return Opq("reshape", [a] + list(args))


def vec_len(vec):
    if vec.base in CONST_VECS:
        return Lin.c(len(CONST_VECS[vec.base]))
    return Lin.sym("len(%s)" % vec.base)


def is_nan(v):
    return v == NAN or (isinstance(v, Opq) and v.tag in ("global:numpy.nan", "attr:nan"))


def list_len(lst):
    """Length of a ListV appended to exactly once per iteration of one counting loop."""
    if len(lst.appends) != 1:
        return None
    val, loops, atoms = lst.appends[0]
    if len(loops) != 1 or not isinstance(loops[0].it, Rng) or loops[0].it.step != ONE or loops[0].it.lo != ZERO:
        return None
    return loops[0].it.hi


def list_item(lst, idx):
    """Value appended as element ``idx`` (loop variable substituted)."""
    if list_len(lst) is None:
        return None
    val, loops, atoms = lst.appends[0]
    v = list(loops[0].var.symbols())[0]
    return subst_val(val, {v: idx}), v


class Ser(Nd):
    """Labelled training data held by a forecaster (series or frame): positions 0..n-1 along
    axis 0 carry the integer labels ``first .. first+n-1`` (``cutoff`` is the last label)."""

    def __init__(self, name, n, cutoff, ncols=None):
        self.name = name
        self.shape = (as_lin(n),) if ncols is None else (as_lin(n), as_lin(ncols))
        self.cutoff = as_lin(cutoff)
        self.src = Src(name, self.shape)

    @property
    def first(self):
        return self.cutoff - self.shape[0] + 1

    def cell(self, coords, q, **kw):
        return self.src.cell(coords, q)

    def loc_slice(self, lo, hi, facts=None):
        """Inclusive label slice (positions = label - first); labels outside the index are clamped as pandas does."""
        lo_p = (lo - self.first) if lo is not None else ZERO
        hi_p = (hi - self.first + 1) if hi is not None else self.shape[0]
        if facts is not None:
            if not lo_p.is_const() and entails(facts, lo_p):
                lo_p = ZERO  # the slice starts before the first label
            if not (hi_p - self.shape[0]).is_const() and entails(facts, self.shape[0] - hi_p):
                hi_p = self.shape[0]
        spec = [("sl", 0, lo_p)] + [("sl", d, ZERO) for d in range(1, self.ndim)]
        v = View(self.src, spec, [hi_p - lo_p] + list(self.shape[1:]))
        v.clamp = (lo_p, hi_p, self.shape[0])  # pandas clamps: needs 0 <= lo_p and hi_p <= n
        return v

    def __repr__(self):
        return "Ser(%s)" % self.name
