"""E4 -- may-alias / freshness analysis (flow-sensitive, joins at merges, interprocedural summaries).

Abstract values are finite sets of atoms over *origins* (a parameter name of the analysed
function, or ``self.<attr>`` for state of the receiver):

  ("A", o)  the object bound to origin ``o`` itself
  ("V", o)  a definite array/frame view of it (``.values``, ``.iloc``, slices, ``.T``, ``np.asarray`` ...)
  ("W", o)  a sub-object obtained by a generic subscript / iteration (a view *or* a scalar)
  ("E", o)  a fresh container (list/tuple/dict/generator) whose *elements* may be such views
  ("U", o)  unknown relation to ``o`` (result of an untabled call that received it)
  ("X", o)  a fresh container whose elements have an unknown relation to ``o``
  "F"       fresh / unrelated to every origin

Join is set union (may-alias).  Tuples keep per-position values so that ``X, y = check_X_y(X, y)``
stays precise.  A function summary is (return value, events) expressed over the function's own
parameters; at a call site the atoms are substituted by the values of the actual arguments.

Events:  kind "write" (in-place sink reached through an alias/view of the origin) and kind "fit"
(a ``.fit``/``.fit_transform`` call whose receiver aliases the origin).  ``via`` records whether the
object itself ("A") or a sub-object ("V") is written, which matters for E-containers only: writing a
fresh list is harmless, writing one of its elements is not.  ``sure`` is False when the relation to
the origin is unknown ("U") or the sink is type-dependent -> the user reports UNDECIDED, never a violation.
"""
import ast

from ..flow import Flow
from ..index import dotted
from .. import astq

F = "F"

# ---------------------------------------------------------------------------------- values


class Val:
    __slots__ = ("atoms", "items", "fn")

    def __init__(self, atoms=(F,), items=None, fn=None):
        self.atoms = frozenset(atoms)
        self.items = items  # list of Val for tuples of known arity
        # callables the value may denote: ("clo", FunctionDef|Lambda, env) local closures, ("sym", Symbol) resolved names
        self.fn = tuple(fn) if fn else ()

    def all_atoms(self):
        """atoms of the value; positions of a tuple count as elements of a fresh container."""
        if self.items is None:
            return self.atoms
        out = set()
        for it in self.items:
            out |= elemify(it).all_atoms()
        return frozenset(out | {F})

    def origins(self):
        return {a[1] for a in self.all_atoms() if a != F}

    def __eq__(self, o):
        return (isinstance(o, Val) and self.atoms == o.atoms and self.items == o.items
                and len(self.fn) == len(o.fn) and all(_fkey(x) == _fkey(y) for x, y in zip(self.fn, o.fn)))

    def __hash__(self):
        return hash(self.atoms)

    def __repr__(self):
        if self.items is not None:
            return "(%s)" % ", ".join(map(repr, self.items))
        return "{%s}" % ",".join(sorted(a if a == F else "%s(%s)" % a for a in self.atoms))


FRESH = Val()


def mk(kind, origin):
    return Val([(kind, origin)])


def join(a, b):
    if a is None:
        return b
    if b is None:
        return a
    if a is b:
        return a
    if a.items is not None and b.items is not None and len(a.items) == len(b.items):
        return Val(a.atoms | b.atoms, [join(x, y) for x, y in zip(a.items, b.items)], _fns(a, b))
    return Val(a.all_atoms() | b.all_atoms(), None, _fns(a, b))


def _fkey(f):
    if f[0] == "clo":
        return id(f[1])
    if f[0] == "tag":
        return ("tag", f[1])
    return (f[1].kind, f[1].dotted)


def has_tag(v, name):
    return any(f[0] == "tag" and f[1] == name for f in v.fn)


def tagged(name):
    return Val([F], None, [("tag", name)])


NOCOPY = "copy=False"          # an options mapping that (may) carry copy=False
INPLACE_OBJ = "inplace-object"  # a library estimator constructed with copy=False: data passed to fit are overwritten


def _fns(a, b):
    if not b.fn:
        return a.fn
    out = list(a.fn)
    for f in b.fn:
        if not any(_fkey(f) == _fkey(g) for g in out):
            out.append(f)
    return tuple(out)


def join_all(vals):
    out = None
    for v in vals:
        out = join(out, v)
    return out if out is not None else FRESH


def _map(v, table, keep_fn=False):
    out = set()
    for a in v.all_atoms():
        if a == F:
            out.add(F)
        else:
            for k in table[a[0]]:
                out.add((k, a[1]) if k != F else F)
    return Val(out or {F}, None, tuple(f for f in v.fn if f[0] != "tag") if keep_fn else None)


def viewify(v):
    """definite view of the value (``.values``, slice ...)"""
    return _map(v, {"A": "V", "V": "V", "W": "V", "E": "WE", "U": "U", "X": "UX"})


def subify(v):
    """generic sub-object (``x[i]``, iteration element)"""
    if v.items is not None:
        return join_all(v.items)
    return _map(v, {"A": "W", "V": "W", "W": "W", "E": "WE", "U": "U", "X": "UX"}, keep_fn=True)


def elemify(v):
    """fresh container holding the value"""
    if v.items is not None:
        fns = ()
        for it in v.items:
            fns = _fns(Val([F], None, fns), it)
        return Val(v.all_atoms(), None, tuple(f for f in fns if f[0] != "tag"))
    return _map(v, {"A": "E", "V": "E", "W": "E", "E": "E", "U": "X", "X": "X"}, keep_fn=True)


def unknownify(v):
    return _map(v, {"A": "U", "V": "U", "W": "U", "E": "U", "U": "U", "X": "U"})


def has_rel(v):
    return any(a != F for a in v.all_atoms())


class Event:
    __slots__ = ("kind", "origin", "via", "sure", "desc", "loc", "chain", "guard")

    def __init__(self, kind, origin, via, sure, desc, loc, chain=(), guard=""):
        self.kind, self.origin, self.via, self.sure, self.desc, self.loc, self.chain = kind, origin, via, sure, desc, loc, tuple(chain)
        self.guard = guard  # option values (self.<option> == const / in consts) under which the sink is reached, outermost caller first

    def key(self):
        return (self.kind, self.origin, self.via, self.sure, self.desc, self.chain, self.loc, self.guard)

    def __repr__(self):
        return "<%s %s via %s %s %s @%s %s>" % (self.kind, self.origin, self.via, "sure" if self.sure else "maybe", self.desc, self.loc,
                                               "<-".join(self.chain))


class Summary:
    def __init__(self, ret=FRESH, events=(), sites=(), self_out=None):
        self.self_out = dict(self_out or {})  # "self.attr" -> value at the normal exits (what the method leaves on self)
        self.ret = ret
        self.events = list(events)
        self.sites = set(sites)  # (loc, qualified function, method name) of every .fit*-call reached


# ---------------------------------------------------------------------------------- tables

VIEW_ATTRS = {"values", "T", "iloc", "loc", "at", "iat", "real", "imag", "flat", "array", "_values", "str", "dt", "index", "columns", "base"}
SCALAR_ATTRS = {"shape", "ndim", "size", "dtype", "dtypes", "name", "itemsize", "nbytes", "freqstr", "freq", "empty", "is_monotonic",
                "is_monotonic_increasing", "nlevels", "names", "is_relative", "is_unique", "strides", "flags", "__class__", "__name__"}
VIEW_METHODS = {"to_numpy", "view", "reshape", "squeeze", "ravel", "transpose", "swapaxes", "head", "tail", "xs", "get", "to_frame",
                "to_series", "__getitem__", "get_level_values", "droplevel", "set_axis", "diagonal", "take_view", "to_pandas", "item"}
ELEM_METHODS = {"tolist", "to_list", "items", "iteritems", "iterrows", "itertuples", "values", "keys", "to_dict", "groupby", "split"}
FRESH_METHODS = {
    "copy", "deepcopy", "fillna", "replace", "apply", "applymap", "map", "interpolate", "astype", "rename", "drop", "sort_values",
    "sort_index", "reset_index", "set_index", "combine_first", "mean", "median", "min", "max", "sum", "std", "var", "any", "all",
    "isnull", "isna", "notnull", "notna", "dropna", "unique", "nunique", "flatten", "cumsum", "cumprod", "diff", "shift", "rolling",
    "pivot", "melt", "reindex", "isin", "rename_axis", "unstack", "stack", "ffill", "bfill", "abs", "round", "clip", "dot", "argsort",
    "argmax", "argmin", "nonzero", "count", "value_counts", "equals", "format", "join", "lower", "upper", "strip", "startswith",
    "endswith", "index", "union", "intersection", "difference", "append", "insert", "repeat", "tile", "sub", "add", "mul", "div",
    "truediv", "pow", "mod", "floordiv", "radd", "rsub", "rmul", "rdiv", "rtruediv", "where", "mask", "between", "nanmean", "ewm",
    "expanding", "agg", "aggregate", "transform", "describe", "quantile", "prod", "cov", "corr", "autocorr", "pct_change", "rank",
    "idxmax", "idxmin", "nlargest", "nsmallest", "sample", "to_period", "to_timestamp", "asfreq", "resample", "tz_localize", "tz_convert",
    "duplicated", "drop_duplicates", "explode", "merge", "concat", "assign", "eq", "ne", "lt", "le", "gt", "ge", "conj", "cumsum",
    "searchsorted", "compress", "choose", "ptp", "trace", "byteswap", "newbyteorder", "to_relative", "to_absolute", "to_indexer",
    "to_in_sample", "to_out_of_sample", "to_absolute_int", "is_all_in_sample", "is_all_out_of_sample", "select_dtypes", "memory_usage",
    "first_valid_index", "last_valid_index", "infer_objects", "convert_dtypes", "isnumeric", "encode", "decode", "todense", "toarray",
    "tocsr", "get_fh", "get_cutoffs", "get_n_splits",
}
# in-place: always / only when the call is an expression statement (the non-mutating pandas homonyms return a value)
MUT_ALWAYS = {"pop", "popitem", "setdefault", "itemset", "setfield", "setflags", "__setitem__", "__delitem__", "__iadd__"}
MUT_STMT = {"sort", "fill", "resize", "put", "partition", "update", "append", "extend", "insert", "remove", "clear", "reverse", "add",
            "discard", "shuffle", "byteswap"}
FIT_METHODS = {"fit", "fit_transform", "fit_predict", "partial_fit"}

EXT_KEEP = {"numpy.asarray", "numpy.asanyarray", "numpy.ascontiguousarray", "numpy.asfortranarray", "numpy.atleast_1d",
            "numpy.atleast_2d", "numpy.atleast_3d", "sklearn.utils.check_array", "sklearn.utils.validation.check_array",
            "sklearn.utils.validation.column_or_1d", "sklearn.utils.column_or_1d", "numpy.require", "sklearn.utils.validation.indexable",
            "sklearn.utils.check_X_y", "sklearn.utils.validation.check_X_y"}
EXT_VIEW = {"numpy.reshape", "numpy.squeeze", "numpy.ravel", "numpy.transpose", "numpy.swapaxes", "numpy.moveaxis", "numpy.rollaxis",
            "numpy.expand_dims", "numpy.lib.stride_tricks.as_strided", "numpy.flipud", "numpy.fliplr", "numpy.flip", "numpy.diagonal",
            "numpy.real", "numpy.imag", "numpy.broadcast_to",
            "numpy.lib.stride_tricks.sliding_window_view", "numpy.rot90", "numpy.nditer", "numpy.ndenumerate"}
EXT_LIST_OF_VIEWS = {"numpy.split", "numpy.array_split", "numpy.hsplit", "numpy.vsplit", "numpy.dsplit"}
EXT_ELEM = {"builtins.list", "builtins.tuple", "builtins.enumerate", "builtins.zip", "builtins.reversed", "builtins.sorted",
            "builtins.iter", "builtins.map", "builtins.filter", "builtins.dict", "builtins.set", "builtins.frozenset", "builtins.next",
            "itertools.chain", "itertools.compress", "itertools.zip_longest", "itertools.islice", "itertools.product", "itertools.cycle"}
# external in-place functions: positions of the arguments that are written
EXT_MUT = {"numpy.random.shuffle": (0,), "random.shuffle": (0,), "numpy.put": (0,), "numpy.place": (0,), "numpy.copyto": (0,),
           "numpy.fill_diagonal": (0,), "numpy.putmask": (0,), "numpy.put_along_axis": (0,), "heapq.heappush": (0,),
           "heapq.heappop": (0,), "heapq.heapify": (0,), "heapq.heapreplace": (0,), "heapq.heappushpop": (0,),
           "bisect.insort": (0,), "bisect.insort_left": (0,), "bisect.insort_right": (0,), "builtins.setattr": (0,),
           "builtins.delattr": (0,)}
BUILTINS = {"len", "range", "int", "float", "str", "bool", "isinstance", "issubclass", "hasattr", "getattr", "type", "print", "max",
            "min", "sum", "abs", "round", "any", "all", "callable", "id", "repr", "list", "tuple", "enumerate", "zip", "reversed",
            "sorted", "iter", "map", "filter", "dict", "set", "frozenset", "next", "object", "super", "divmod", "pow", "open", "slice",
            "ValueError", "TypeError", "NotImplementedError", "RuntimeError", "KeyError", "AssertionError", "setattr", "delattr",
            "vars", "dir", "hash", "chr", "ord", "format", "bytes", "complex", "Exception", "IndexError", "AttributeError"}


# ---------------------------------------------------------------------------------- engine


class Dead(Exception):
    pass


class AliasEngine:
    def __init__(self, repo, max_depth=8):
        self.repo = repo
        self.flow = Flow(repo)
        self.max_depth = max_depth
        self._memo = {}
        self._init_tags = {}
        self._attr_callables = {}
        self._active = set()
        self.stats = {"functions": 0, "calls": 0}

    def attr_callables(self, cls, attr):
        """repo functions that some method of ``cls`` stores in self.<attr> (``self.attr = some_function``)"""
        key = (cls.qual, attr)
        if key not in self._attr_callables:
            out = []
            for k in self.repo.mro(cls):
                if not hasattr(k, "methods"):
                    continue
                for mn, fn in k.methods.items():
                    names = astq.param_names(fn)
                    if not names:
                        continue
                    for a, v, st_ in astq.self_attr_stores(fn, names[0]):
                        if a == attr and v is not None and dotted(v):
                            sym = self.repo.resolve_expr(k.module, v)
                            if sym is not None and sym.kind == "func" and not any(_fkey(("sym", sym)) == _fkey(x) for x in out):
                                out.append(("sym", sym))
            self._attr_callables[key] = out
        return self._attr_callables[key]

    def init_tags(self, cls):
        """tags (e.g. 'constructed with copy=False') of the attributes the constructor of ``cls`` leaves on self"""
        key = cls.qual
        if key not in self._init_tags:
            self._init_tags[key] = {}
            hit = self.repo.lookup_method(cls, "__init__")
            if hit is not None:
                s = self.summary(hit[1], hit[0].module, cls, hit[0])
                self._init_tags[key] = {k: tuple(f for f in v.fn if f[0] == "tag") for k, v in s.self_out.items()
                                        if any(f[0] == "tag" for f in v.fn)}
        return self._init_tags[key]

    # ------------------------------------------------------------------ summaries
    def summary(self, fn, module, cls=None, defcls=None, static=False, depth=0):
        key = (id(fn), cls.qual if cls is not None else None)
        if key in self._memo:
            return self._memo[key]
        if key in self._active or depth > self.max_depth:
            return Summary()  # recursion: optimistic bottom, the outer activation completes the summary
        self._active.add(key)
        try:
            names = astq.param_names(fn)
            selfname = None
            if cls is not None and not static and names:
                selfname = names[0]
            env = {}
            a = fn.args
            for p in a.posonlyargs + a.args + a.kwonlyargs:
                if p.arg == selfname:
                    continue
                env[p.arg] = mk("A", p.arg)
            if a.vararg is not None:
                env[a.vararg.arg] = mk("E", a.vararg.arg)
            if a.kwarg is not None:
                env[a.kwarg.arg] = mk("E", a.kwarg.arg)
            fa = _FnAnalysis(self, fn, module, cls, defcls, selfname, depth)
            s = fa.run(env)
            self.stats["functions"] += 1
        finally:
            self._active.discard(key)
        self._memo[key] = s
        return s


class _FnAnalysis:
    def __init__(self, eng, fn, module, cls, defcls, selfname, depth, outer=None):
        self.eng, self.fn, self.module, self.cls, self.defcls, self.selfname, self.depth = eng, fn, module, cls, defcls, selfname, depth
        self.events = {} if outer is None else outer.events
        self.sites = set() if outer is None else outer.sites
        self.ret = None
        self.guards = [] if outer is None else list(outer.guards)
        self.exit_self = None
        self.loop_stack = []
        self.loop_cache = {} if outer is None else outer.loop_cache
        self.local_imports = set()
        for n in astq.walk_no_nested(fn):
            if isinstance(n, (ast.Import, ast.ImportFrom)):
                for al in n.names:
                    self.local_imports.add((al.asname or al.name).split(".")[0])

    # ------------------------------------------------------------------ driver
    def run(self, env):
        body = self.fn.body if not isinstance(self.fn, ast.Lambda) else None
        if body is None:
            self.ret = self.ev(self.fn.body, env)
        else:
            end = self.block(body, dict(env))
            if end is not None:
                self.note_exit(end)
        return Summary(self.ret if self.ret is not None else FRESH, list(self.events.values()), self.sites, self.exit_self)

    def note_exit(self, st):
        cur = {k: v for k, v in st.items() if k.startswith("self.")}
        if self.exit_self is None:
            self.exit_self = cur
        else:
            self.exit_self = self.join_states([self.exit_self, cur])

    def loc(self, node):
        return "%s:%s" % (self.module.relpath, getattr(node, "lineno", "?"))

    def guard_desc(self):
        """option conditions dominating the current statement: `self.<opt> == c` / `self.<opt> in (c, ...)` atoms that hold here"""
        atoms = set()
        for test, pol in self.guards:
            t = test if pol else _negate(test)
            for a in _conjuncts(t):
                opt = None
                if isinstance(a, ast.Compare) and len(a.ops) == 1 and isinstance(a.ops[0], (ast.Eq, ast.In)):
                    if self.is_self_attr_node(a.left):
                        opt = a.left.attr
                    elif isinstance(a.left, ast.Name) and hasattr(self.fn, "args") and a.left.id not in astq.all_param_names(self.fn):
                        vals_ = astq.assigned_values(self.fn, a.left.id)
                        if len(vals_) == 1 and self.is_self_attr_node(vals_[0]):
                            opt = vals_[0].attr  # a local bound once to self.<option>
                if opt is not None:
                    c = a.comparators[0]
                    consts = c.elts if isinstance(c, (ast.List, ast.Tuple, ast.Set)) else [c]
                    if consts and all(isinstance(x, ast.Constant) and isinstance(x.value, (str, int, float)) and not isinstance(x.value, bool)
                                      for x in consts):
                        vals = sorted(repr(x.value) for x in consts)
                        atoms.add("self.%s=%s" % (opt, "|".join(vals)))
        return "&".join(sorted(atoms))

    def is_self_attr_node(self, n):
        return isinstance(n, ast.Attribute) and self.is_self(n.value)

    def emit(self, kind, val, via, desc, node, sure=True, chain=(), loc=None, guard=""):
        """register an event for every origin the value may be related to."""
        for a in val.all_atoms():
            if a == F:
                continue
            k, o = a
            if k in ("E", "X"):
                if via != "V":
                    continue  # the fresh container itself is written, not its elements
                v2, s2 = "V", sure and k == "E"
            elif k == "U":
                v2, s2 = via, False
            else:
                v2, s2 = ("V" if (via == "V" or k != "A") else "A"), sure
            e = Event(kind, o, v2, s2, desc, loc or self.loc(node), chain, self.guard_desc() or guard)
            self.events.setdefault(e.key(), e)

    # ------------------------------------------------------------------ state helpers
    def get(self, st, name):
        v = st.get(name)
        if v is None and name.startswith("self."):
            base = mk("A", name)
            tags = self.eng.init_tags(self.cls).get(name) if (self.cls is not None and getattr(self.fn, "name", "") != "__init__") else None
            return Val(base.atoms, None, tags) if tags else base
        return v

    def join_states(self, states):
        states = [s for s in states if s is not None]
        if not states:
            return None
        if len(states) == 1:
            return states[0]
        keys = set()
        for s in states:
            keys |= set(s)
        out = {}
        for k in keys:
            vals = []
            for s in states:
                v = s.get(k)
                if v is None and k.startswith("self."):
                    v = mk("A", k)
                if v is not None:
                    vals.append(v)
            out[k] = join_all(vals)
        return out

    # ------------------------------------------------------------------ statements
    def block(self, stmts, st):
        for s in stmts:
            if st is None:
                return None
            st = self.stmt(s, st)
        return st

    def stmt(self, n, st):
        if isinstance(n, ast.Expr):
            if isinstance(n.value, ast.Call):
                self.call(n.value, st, stmt_expr=True)
            else:
                self.ev(n.value, st)
            return st
        if isinstance(n, ast.Assign):
            v = self.ev(n.value, st)
            for t in n.targets:
                self.assign(t, v, st, n)
            return st
        if isinstance(n, ast.AnnAssign):
            if n.value is not None:
                self.assign(n.target, self.ev(n.value, st), st, n)
            return st
        if isinstance(n, ast.AugAssign):
            rhs = self.ev(n.value, st)
            t = n.target
            if isinstance(t, ast.Name):
                cur = st.get(t.id, FRESH)
                atoms = cur.all_atoms()
                for a in atoms:
                    if a == F or a[0] in ("E", "X"):
                        continue
                    # in place for arrays/frames/lists; rebinding for scalars: W (generic sub-object) is type dependent
                    self.emit("write", Val([a]), "A", "augassign", n, sure=(a[0] in ("A", "V")))
                # value afterwards: same object (if mutable) or fresh
                st[t.id] = join(cur, FRESH)
            else:
                self.store(t, rhs, st, n, desc_prefix="aug")
            return st
        if isinstance(n, ast.Delete):
            for t in n.targets:
                if isinstance(t, ast.Name):
                    st.pop(t.id, None)
                elif isinstance(t, ast.Subscript):
                    base = self.ev(t.value, st)
                    self.ev(t.slice, st)
                    self.emit("write", base, "A", "delitem", n)
                elif isinstance(t, ast.Attribute):
                    if self.is_self(t.value):
                        st.pop("self." + t.attr, None)
                    else:
                        self.emit("write", self.ev(t.value, st), "A", "delattr:" + t.attr, n)
            return st
        if isinstance(n, ast.Return):
            v = self.ev(n.value, st) if n.value is not None else FRESH
            self.ret = join(self.ret, v)
            self.note_exit(st)
            return None
        if isinstance(n, ast.Raise):
            if n.exc is not None:
                self.ev(n.exc, st)
            return None
        if isinstance(n, ast.If):
            self.ev(n.test, st)
            self.guards.append((n.test, True))
            try:
                a = self.block(n.body, dict(st))
            finally:
                self.guards.pop()
            self.guards.append((n.test, False))
            try:
                b = self.block(n.orelse, dict(st)) if n.orelse else dict(st)
            finally:
                self.guards.pop()
            return self.join_states([a, b])
        if isinstance(n, (ast.For, ast.AsyncFor)):
            return self.loop(n, st, is_for=True)
        if isinstance(n, ast.While):
            return self.loop(n, st, is_for=False)
        if isinstance(n, (ast.With, ast.AsyncWith)):
            for it in n.items:
                v = self.ev(it.context_expr, st)
                if it.optional_vars is not None:
                    self.assign(it.optional_vars, unknownify(v) if has_rel(v) else FRESH, st, n)
            return self.block(n.body, st)
        if isinstance(n, ast.Try):
            pre = dict(st)
            mids = [pre]
            cur = dict(st)
            for s in n.body:
                if cur is None:
                    break
                cur = self.stmt(s, cur)
                if cur is not None:
                    mids.append(dict(cur))
            outs = []
            if cur is not None and n.orelse:
                cur = self.block(n.orelse, cur)
            outs.append(cur)
            hin = self.join_states(mids)
            for h in n.handlers:
                hs = dict(hin)
                if h.name:
                    hs[h.name] = FRESH
                outs.append(self.block(h.body, hs))
            out = self.join_states(outs)
            if n.finalbody:
                # the finally body also runs on the exceptional / returning exits
                fin_in = self.join_states([out, hin])
                res = self.block(n.finalbody, dict(fin_in))
                return res if out is not None else None
            return out
        if isinstance(n, (ast.FunctionDef, ast.AsyncFunctionDef)):
            st[n.name] = Val([F], None, [("clo", n, st)])
            return st
        if isinstance(n, ast.ClassDef):
            st[n.name] = FRESH
            return st
        if isinstance(n, ast.Assert):
            self.ev(n.test, st)
            return st
        if isinstance(n, ast.Break):
            if self.loop_stack:
                self.loop_stack[-1]["brk"].append(dict(st))
            return None
        if isinstance(n, ast.Continue):
            if self.loop_stack:
                self.loop_stack[-1]["cont"].append(dict(st))
            return None
        if isinstance(n, (ast.Import, ast.ImportFrom)):
            from ..index import Symbol
            for al in n.names:
                if isinstance(n, ast.ImportFrom):
                    d = (n.module or "") + "." + al.name
                    sym = self.eng.repo._resolve_abs(d) if (n.level == 0 and d.startswith(self.eng.repo.package + ".")) else None
                    sym = sym or Symbol("ext", d, None, d)
                    st[al.asname or al.name] = Val([F], None, [("sym", sym)]) if sym.kind in ("ext", "class", "func") else FRESH
                else:
                    st[(al.asname or al.name).split(".")[0]] = FRESH
            return st
        if isinstance(n, (ast.Pass, ast.Global, ast.Nonlocal)):
            return st
        return st

    def loop(self, n, st, is_for):
        # the transfer function of a loop is deterministic in its entry state and all side results (events,
        # returns) are monotone sets: a re-execution from an entry state seen before can reuse the exit state
        return self._loop(n, st, is_for)

    def _loop(self, n, st, is_for):
        head = dict(st)
        ctx = {"brk": [], "cont": []}
        exit_states = []
        for _ in range(8):
            ctx["brk"], ctx["cont"] = [], []
            cur = dict(head)
            if is_for:
                itv = self.ev(n.iter, cur)
                self.assign(n.target, subify(itv), cur, n)
            else:
                self.ev(n.test, cur)
            self.loop_stack.append(ctx)
            try:
                end = self.block(n.body, cur)
            finally:
                self.loop_stack.pop()
            new_head = self.join_states([head, end] + ctx["cont"])
            exit_states = list(ctx["brk"])
            if new_head == head:
                break
            head = new_head
        infinite = (not is_for) and isinstance(n.test, ast.Constant) and bool(n.test.value)
        normal = None if infinite else dict(head)
        if normal is not None and n.orelse:
            normal = self.block(n.orelse, normal)
        return self.join_states([normal] + exit_states)

    # ------------------------------------------------------------------ assignment / stores
    def is_self(self, node):
        return self.selfname is not None and isinstance(node, ast.Name) and node.id == self.selfname

    def assign(self, t, v, st, node):
        if isinstance(t, ast.Name):
            st[t.id] = v
        elif isinstance(t, (ast.Tuple, ast.List)):
            n_star = sum(isinstance(e, ast.Starred) for e in t.elts)
            if v.items is not None and len(v.items) == len(t.elts) and not n_star:
                for e, iv in zip(t.elts, v.items):
                    self.assign(e, iv, st, node)
            else:
                sv = subify(v)
                for e in t.elts:
                    self.assign(e, sv, st, node)
        elif isinstance(t, ast.Starred):
            self.assign(t.value, elemify(v), st, node)
        else:
            self.store(t, v, st, node)

    def store(self, t, v, st, node, desc_prefix=""):
        if isinstance(t, ast.Attribute):
            if self.is_self(t.value):
                st["self." + t.attr] = v
                return
            base = self.ev(t.value, st)
            self.emit("write", base, "A", desc_prefix + "setattr:" + t.attr, node)
            # the stored value becomes reachable from the base object
        elif isinstance(t, ast.Subscript):
            base = self.ev(t.value, st)
            self.ev(t.slice, st)
            ind = ":" + t.value.attr if isinstance(t.value, ast.Attribute) and t.value.attr in ("iloc", "loc", "at", "iat", "values", "flat") else ""
            self.emit("write", base, "A", desc_prefix + "setitem" + ind + "[" + _index_kind(t.slice) + "]", node)
            # remember that the container now holds v (fresh containers holding views)
            root = t.value
            while isinstance(root, (ast.Subscript, ast.Attribute)) and not (isinstance(root, ast.Attribute) and self.is_self(root.value)):
                root = root.value
            if isinstance(t.slice, ast.Constant) and t.slice.value == "copy" and isinstance(getattr(node, "value", None), ast.Constant) \
                    and node.value.value is False and isinstance(root, ast.Name) and root.id in st:
                st[root.id] = join(st[root.id], tagged(NOCOPY))
            if has_rel(v):
                if isinstance(root, ast.Name) and not self.is_self(root) and root.id in st:
                    st[root.id] = join(st[root.id], elemify(v))
                elif isinstance(root, ast.Attribute) and self.is_self(root.value):
                    key = "self." + root.attr
                    st[key] = join(self.get(st, key), elemify(v))

    # ------------------------------------------------------------------ expressions
    def ev(self, e, st):
        if e is None:
            return FRESH
        m = getattr(self, "ev_" + type(e).__name__, None)
        if m is not None:
            return m(e, st)
        # generic: evaluate children for their events, result fresh
        for ch in ast.iter_child_nodes(e):
            if isinstance(ch, ast.expr):
                self.ev(ch, st)
        return FRESH

    def ev_Constant(self, e, st):
        return FRESH

    def ev_Name(self, e, st):
        if self.is_self(e):
            return FRESH
        v = st.get(e.id)
        if v is None:
            return self._symval(e)
        return v

    def ev_Attribute(self, e, st):
        if self.is_self(e.value):
            return self.get(st, "self." + e.attr)
        base = self.ev(e.value, st)
        if not has_rel(base):
            d = dotted(e)
            if d and d.split(".")[0] not in st and not (self.selfname and d.split(".")[0] == self.selfname):
                return self._symval(e)
            return FRESH
        if e.attr in SCALAR_ATTRS:
            return FRESH
        if e.attr in VIEW_ATTRS:
            return viewify(base)
        return subify(base)

    def _symval(self, e):
        """a module-level / imported name: remember which callable it denotes."""
        sym = self.eng.repo.resolve_expr(self.module, e)
        if sym is not None and sym.kind in ("ext", "class", "func", "classattr"):
            return Val([F], None, [("sym", sym)])
        return FRESH

    def ev_Subscript(self, e, st):
        base = self.ev(e.value, st)
        self.ev(e.slice, st)
        if not has_rel(base):
            held = tuple(f_ for f_ in base.fn if f_[0] != "tag")
            return Val([F], None, held) if held else FRESH
        if base.items is not None:
            idx = e.slice
            if isinstance(idx, ast.Constant) and isinstance(idx.value, int) and -len(base.items) <= idx.value < len(base.items):
                return base.items[idx.value]
            return join_all(base.items)
        if _has_slice(e.slice):
            return viewify(base)
        return subify(base)

    def ev_Slice(self, e, st):
        for x in (e.lower, e.upper, e.step):
            if x is not None:
                self.ev(x, st)
        return FRESH

    def ev_Tuple(self, e, st):
        if any(isinstance(x, ast.Starred) for x in e.elts):
            return join_all([FRESH] + [elemify(self.ev(x.value if isinstance(x, ast.Starred) else x, st)) for x in e.elts])
        return Val([F], [self.ev(x, st) for x in e.elts])

    def ev_List(self, e, st):
        return join_all([FRESH] + [elemify(self.ev(x.value if isinstance(x, ast.Starred) else x, st)) for x in e.elts])

    ev_Set = ev_List

    def ev_Dict(self, e, st):
        vals = [FRESH]
        for k, v in zip(e.keys, e.values):
            if isinstance(k, ast.Constant) and k.value == "copy" and isinstance(v, ast.Constant) and v.value is False:
                vals.append(tagged(NOCOPY))
            if k is not None:
                self.ev(k, st)
            vals.append(elemify(self.ev(v, st)))
        return join_all(vals)

    def ev_Starred(self, e, st):
        return subify(self.ev(e.value, st))

    def ev_BinOp(self, e, st):
        self.ev(e.left, st)
        self.ev(e.right, st)
        return FRESH

    def ev_UnaryOp(self, e, st):
        self.ev(e.operand, st)
        return FRESH

    def ev_Compare(self, e, st):
        self.ev(e.left, st)
        for c in e.comparators:
            self.ev(c, st)
        return FRESH

    def ev_BoolOp(self, e, st):
        return join_all([self.ev(v, st) for v in e.values])

    def ev_IfExp(self, e, st):
        self.ev(e.test, st)
        return join(self.ev(e.body, st), self.ev(e.orelse, st))

    def ev_NamedExpr(self, e, st):
        v = self.ev(e.value, st)
        st[e.target.id] = v
        return v

    def ev_JoinedStr(self, e, st):
        for v in e.values:
            if isinstance(v, ast.FormattedValue):
                self.ev(v.value, st)
        return FRESH

    def ev_Lambda(self, e, st):
        return Val([F], None, [("clo", e, st)])

    def ev_Await(self, e, st):
        return self.ev(e.value, st)

    def ev_Yield(self, e, st):
        if e.value is not None:
            self.ret = join(self.ret, elemify(self.ev(e.value, st)))
        return FRESH

    def ev_YieldFrom(self, e, st):
        self.ret = join(self.ret, elemify(subify(self.ev(e.value, st))))
        return FRESH

    def _comp(self, e, st, elts):
        loc = dict(st)
        for g in e.generators:
            itv = self.ev(g.iter, loc)
            self.assign(g.target, subify(itv), loc, e)
            for c in g.ifs:
                self.ev(c, loc)
        # two rounds: values appended in an earlier iteration are visible later (cheap fixpoint)
        vals = [FRESH]
        for x in elts:
            vals.append(elemify(self.ev(x, loc)))
        return join_all(vals)

    def ev_ListComp(self, e, st):
        return self._comp(e, st, [e.elt])

    ev_SetComp = ev_ListComp
    ev_GeneratorExp = ev_ListComp

    def ev_DictComp(self, e, st):
        return self._comp(e, st, [e.key, e.value])

    def ev_Call(self, e, st):
        return self.call(e, st)

    # ------------------------------------------------------------------ calls
    def eval_args(self, call, st):
        pos, kw = [], {}
        star = []
        for a in call.args:
            if isinstance(a, ast.Starred):
                star.append(subify(self.ev(a.value, st)))
            else:
                pos.append(self.ev(a, st))
        for k in call.keywords:
            v = self.ev(k.value, st)
            if k.arg is None:
                star.append(subify(v))
            else:
                kw[k.arg] = v
        return pos, kw, star

    def call(self, call, st, stmt_expr=False):
        self.eng.stats["calls"] += 1
        f = call.func
        # delayed(f)(args): the task body runs with these arguments
        if isinstance(f, ast.Call) and self._ext_of(f.func, st) in ("joblib.delayed", "joblib.parallel.delayed", "sklearn.utils.fixes.delayed") and f.args:
            inner = ast.Call(func=f.args[0], args=call.args, keywords=call.keywords)
            ast.copy_location(inner, call)
            return self.call(inner, st)
        # Parallel(...)(iterable): list of the task results
        if isinstance(f, ast.Call) and self._ext_of(f.func, st) in ("joblib.Parallel", "joblib.parallel.Parallel"):
            self.eval_args(f, st)
            pos, kw, star = self.eval_args(call, st)
            return join_all([FRESH] + pos)
        # local closures / lambdas bound to a name
        if isinstance(f, ast.Name) and f.id in st and any(e_[0] != "tag" for e_ in st[f.id].fn):
            outs = []
            for ent in st[f.id].fn:
                if ent[0] == "clo":
                    outs.append(self.call_closure((ent[1], ent[2]), call, st))
                elif ent[0] == "sym":
                    outs.append(self.call_sym(ent[1], call, st))
            if outs:
                return join_all(outs)
            pos, kw, star = self.eval_args(call, st)
            return join(FRESH, unknownify(join_all(pos + list(kw.values()) + star + [st[f.id]])))
        if isinstance(f, ast.Lambda):
            return self.call_closure((f, st), call, st)
        if isinstance(f, ast.Name) and f.id in st:
            # a callable held in a local / parameter: unknown behaviour
            pos, kw, star = self.eval_args(call, st)
            return join(FRESH, unknownify(join_all(pos + list(kw.values()) + star + [st[f.id]])))
        recv_self = isinstance(f, ast.Attribute) and (self.is_self(f.value) or (
            isinstance(f.value, ast.Call) and dotted(f.value.func) == "super"))
        if isinstance(f, ast.Attribute) and not recv_self:
            d = dotted(f)
            root = d.split(".")[0] if d else None
            if root is None or root in st or (self.selfname is not None and root == self.selfname):
                return self.method_call(call, st, stmt_expr)
        t = self.eng.flow.resolve_call(call, self.module, self.cls, self.defcls, self.selfname or "self")
        if t.kind in ("method", "func") and t.func is not None:
            return self.call_repo(t, call, st)
        if t.kind == "attr" and isinstance(f, ast.Attribute) and self.is_self(f.value) and self.cls is not None:
            # a callable kept in an attribute of self: the functions the class may store there (state first, else any store in the class)
            cur = st.get("self." + f.attr)
            ents = [e_ for e_ in (cur.fn if cur is not None else ()) if e_[0] != "tag"] or self.eng.attr_callables(self.cls, f.attr)
            if ents:
                outs = []
                for ent in ents:
                    outs.append(self.call_closure((ent[1], ent[2]), call, st) if ent[0] == "clo" else self.call_sym(ent[1], call, st))
                return join_all(outs)
        if t.kind == "class":
            self.eval_args(call, st)
            return FRESH
        if t.kind == "ext":
            res = self.call_ext(t.ext, call, st)
            if t.ext.split(".")[-1][:1].isupper() and not t.ext.startswith(("pandas.", "numpy.")) and self._nocopy_option(call, st):
                return join(res, tagged(INPLACE_OBJ))
            return res
        if t.kind == "attr":
            return self.method_call(call, st, stmt_expr)
        # unknown bare name: builtin, function-local import, or unresolvable
        pos, kw, star = self.eval_args(call, st)
        name = f.id if isinstance(f, ast.Name) else None
        if name in BUILTINS:
            return self.call_ext("builtins." + name, call, st, evaluated=(pos, kw, star))
        allv = join_all(pos + list(kw.values()) + star)
        return join(FRESH, unknownify(allv)) if has_rel(allv) else FRESH

    def call_sym(self, sym, call, st):
        from ..flow import Target
        if sym.kind == "ext":
            return self.call_ext(sym.dotted, call, st)
        if sym.kind == "class":
            self.eval_args(call, st)
            return FRESH
        if sym.kind == "func":
            return self.call_repo(Target("func", sym.dotted.split(".")[-1], sym.target, sym.module), call, st)
        if sym.kind == "classattr":
            k, nm = sym.target
            hit = self.eng.repo.lookup_method(k, nm)
            if hit:
                return self.call_repo(Target("func", nm, hit[1], hit[0].module, defcls=hit[0]), call, st)
        pos, kw, star = self.eval_args(call, st)
        allv = join_all(pos + list(kw.values()) + star)
        return join(FRESH, unknownify(allv)) if has_rel(allv) else FRESH

    def _nocopy_option(self, call, st):
        if _kw_const(call, "copy") is False:
            return True
        for k in call.keywords:
            if k.arg is None and has_tag(self.ev(k.value, st), NOCOPY):
                return True
        return False

    def _ext_of(self, func, st):
        d = dotted(func)
        if not d:
            return None
        if d.split(".")[0] in st:
            return None
        sym = self.eng.repo.resolve_dotted(self.module, d)
        if sym is not None and sym.kind == "ext":
            return sym.dotted
        return None

    def call_closure(self, fnenv, call, st):
        fn, env = fnenv
        if self.depth > self.eng.max_depth:
            self.eval_args(call, st)
            return FRESH
        pos, kw, star = self.eval_args(call, st)
        loc = dict(env)
        loc.update(st)  # closures read the current enclosing bindings
        a = fn.args
        names = [p.arg for p in a.posonlyargs + a.args]
        rest = join_all(star) if star else None
        for i, nm in enumerate(names):
            if i < len(pos):
                loc[nm] = pos[i]
            elif nm in kw:
                loc[nm] = kw[nm]
            elif rest is not None:
                loc[nm] = rest
            else:
                loc[nm] = FRESH
        for p in a.kwonlyargs:
            loc[p.arg] = kw.get(p.arg, FRESH)
        if a.vararg is not None:
            loc[a.vararg.arg] = join_all([FRESH] + [elemify(v) for v in pos[len(names):]] + ([elemify(rest)] if rest is not None else []))
        if a.kwarg is not None:
            loc[a.kwarg.arg] = FRESH
        sub = _FnAnalysis(self.eng, fn, self.module, self.cls, self.defcls, self.selfname, self.depth + 1, outer=self)
        s = sub.run(loc)
        return s.ret

    def bind(self, fn, call, st, skip_self):
        """actual values per formal parameter (None if the binding is not understood)."""
        b = astq.bind_call(fn, call, skip_self=skip_self)
        if b is None:
            return None
        out = {}
        spill = []
        for k, v in b.items():
            if k in ("*", "**"):
                spill.append(subify(self.ev(v, st)))
            elif k == "*extra":
                out["*extra"] = [self.ev(x, st) for x in v]
            elif k == "**extra":
                out["**extra"] = {kk: self.ev(x, st) for kk, x in v.items()}
            elif k == "!unknown":
                return None
            else:
                out[k] = self.ev(v, st)
        if spill:
            sp = join_all(spill)
            for p in astq.all_param_names(fn, skip_self):
                if p not in out:
                    out[p] = join(sp, FRESH)
        return out

    def call_repo(self, t, call, st):
        fn = t.func
        static = False
        skip_self = False
        if t.kind == "method":
            static = t.defcls.is_static(t.name) if t.defcls is not None else False
            skip_self = not static
            cls, defcls = t.cls, t.defcls
        else:
            cls, defcls = None, t.defcls
            if defcls is not None:  # Class.method(...) through the class object
                static = defcls.is_static(t.name) or "classmethod" in defcls.decorators.get(t.name, [])
                cls = defcls
                if "classmethod" in defcls.decorators.get(t.name, []):
                    skip_self, static = True, False
        actual = self.bind(fn, call, st, skip_self)
        if actual is None:
            pos, kw, star = self.eval_args(call, st)
            allv = join_all(pos + list(kw.values()) + star)
            return join(FRESH, unknownify(allv)) if has_rel(allv) else FRESH
        s = self.eng.summary(fn, t.module, cls, defcls, static=static, depth=self.depth + 1)
        self.sites |= s.sites
        names = set(astq.all_param_names(fn))
        if fn.args.vararg is not None:
            names.add(fn.args.vararg.arg)
            if "*extra" in actual:
                actual[fn.args.vararg.arg] = join_all([FRESH] + [elemify(v) for v in actual["*extra"]])
        if fn.args.kwarg is not None:
            names.add(fn.args.kwarg.arg)
            if "**extra" in actual:
                actual[fn.args.kwarg.arg] = join_all([FRESH] + [elemify(v) for v in actual["**extra"].values()])
        # a non-static method called through the class: the first formal is the receiver, leave it symbolic
        cname = t.name
        for ev_ in s.events:
            if ev_.origin in names:
                v = actual.get(ev_.origin)
                if v is None:
                    continue  # default value: fresh
                self.emit(ev_.kind, v, ev_.via, ev_.desc, call, sure=ev_.sure,
                          chain=(cname,) + ev_.chain if len(ev_.chain) < 6 else ev_.chain, loc=ev_.loc, guard=ev_.guard)
            elif t.kind == "method" and ev_.origin.startswith("self.") and st.get(ev_.origin) is not None:
                # the callee works on what the caller currently keeps in that attribute (e.g. a list re-created just before the call)
                self.emit(ev_.kind, st[ev_.origin], ev_.via, ev_.desc, call, sure=ev_.sure,
                          chain=(cname,) + ev_.chain if len(ev_.chain) < 6 else ev_.chain, loc=ev_.loc, guard=ev_.guard)
            else:
                # origin is self.<attr> (same receiver) or a captured name: passes through unchanged
                if t.kind == "method":
                    e2 = Event(ev_.kind, ev_.origin, ev_.via, ev_.sure, ev_.desc, ev_.loc,
                               (cname,) + ev_.chain if len(ev_.chain) < 6 else ev_.chain, self.guard_desc() or ev_.guard)
                    self.events.setdefault(e2.key(), e2)
        cur_self = {k_: v_ for k_, v_ in st.items() if k_.startswith("self.")} if t.kind == "method" else {}
        if t.kind == "method" and s.self_out:
            # what the callee leaves on the (same) receiver is visible to the caller afterwards
            for key, val in s.self_out.items():
                st[key] = self.subst(val, actual, names, keep_self=True, cur_self=cur_self)
        return self.subst(s.ret, actual, names, keep_self=(t.kind == "method"), cur_self=cur_self)

    def subst(self, v, actual, names, keep_self, cur_self=None):
        cur_self = cur_self or {}
        if v.items is not None:
            return Val([F], [self.subst(i, actual, names, keep_self, cur_self) for i in v.items])
        out = [FRESH]
        for a in v.atoms:
            if a == F:
                continue
            k, o = a
            if o in names:
                av = actual.get(o)
                if av is None:
                    continue
                out.append({"A": lambda x: x, "V": viewify, "W": subify, "E": elemify, "U": unknownify,
                            "X": lambda x: elemify(unknownify(x))}[k](av))
            elif o in cur_self:
                cv = cur_self[o]
                out.append({"A": lambda x: x, "V": viewify, "W": subify, "E": elemify, "U": unknownify,
                            "X": lambda x: elemify(unknownify(x))}[k](cv))
            elif keep_self or not o.startswith("self."):
                out.append(Val([a]))
        res = join_all(out)
        if len(out) == 2 and out[1].items is not None:
            return out[1]
        return res

    def call_ext(self, name, call, st, evaluated=None):
        pos, kw, star = evaluated if evaluated is not None else self.eval_args(call, st)
        allv = pos + list(kw.values()) + star
        if "out" in kw:
            self.emit("write", kw["out"], "A", "out=", call)
        if name in EXT_MUT:
            for i in EXT_MUT[name]:
                if i < len(pos):
                    self.emit("write", pos[i], "A", "inplace-call:" + name, call)
        cp = _kw_const(call, "copy")
        if name in EXT_KEEP:
            return join_all([FRESH] + [viewify(v) for v in pos[:2]])
        if name in EXT_LIST_OF_VIEWS:
            return join_all([FRESH] + [elemify(viewify(v)) for v in pos[:1]])
        if name in EXT_VIEW:
            return join_all([FRESH] + [viewify(v) for v in pos[:1]] + [viewify(kw[k]) for k in ("a", "x", "arr", "m") if k in kw])
        if name in EXT_ELEM:
            return join_all([FRESH] + [elemify(subify(v)) if name != "builtins.next" else subify(v) for v in allv])
        if name in ("builtins.getattr",):
            return join_all([FRESH] + [subify(v) for v in pos[:1]])
        if cp is False and (name.startswith("numpy.") or name.startswith("pandas.")):
            return join_all([FRESH] + [viewify(v) for v in pos[:1]])
        if name in ("copy.copy",):
            return join_all([FRESH] + [elemify(subify(v)) for v in pos[:1]])
        # external library functions return new objects and do not write their arguments (trusted; see assumptions)
        return FRESH

    def method_call(self, call, st, stmt_expr):
        f = call.func
        meth = f.attr
        recv = self.ev(f.value, st)
        pos, kw, star = self.eval_args(call, st)
        allargs = pos + list(kw.values()) + star
        inplace = _kw_const(call, "inplace")
        if "inplace" in {k.arg for k in call.keywords}:
            if inplace is True:
                self.emit("write", recv, "A", "inplace=True:" + meth, call)
            elif inplace is not False and has_rel(recv):
                self.emit("write", recv, "A", "inplace=?:" + meth, call, sure=False)
        if "out" in kw:
            self.emit("write", kw["out"], "A", "out=", call)
        if meth in FIT_METHODS:
            self.sites.add((self.loc(call), getattr(self.fn, "name", "<lambda>"), meth))
            self.emit("fit", recv, "A", "call:" + meth, call)
            if has_tag(recv, INPLACE_OBJ):
                # a library estimator constructed with copy=False overwrites the data passed to fit
                data = pos[0] if pos else kw.get("X")
                if data is not None:
                    self.emit("write", data, "A", "inplace-option:copy=False", call)
        if meth in ("setdefault", "update") and isinstance(f.value, ast.Name) and f.value.id in st:
            nocopy = (meth == "setdefault" and len(call.args) == 2 and isinstance(call.args[0], ast.Constant) and call.args[0].value == "copy"
                      and isinstance(call.args[1], ast.Constant) and call.args[1].value is False) or \
                     (meth == "update" and _kw_const(call, "copy") is False)
            if nocopy:
                st[f.value.id] = join(st[f.value.id], tagged(NOCOPY))
        if meth in MUT_ALWAYS or (meth in MUT_STMT and stmt_expr):
            if meth == "shuffle" and not _is_data_like(recv):
                # rng.shuffle(x): the argument is permuted in place
                for v in pos[:1]:
                    self.emit("write", v, "A", "shuffle", call)
            else:
                self.emit("write", recv, "A", "inplace-method:" + meth, call)
                # list/set growth: the container now holds the argument (dict/estimator .update is not a containment relation)
                if meth in ("append", "extend", "insert", "add") and has_rel(join_all([FRESH] + allargs)):
                    held = join_all([elemify(v) if meth != "extend" else elemify(subify(v)) for v in allargs])
                    root = f.value
                    if isinstance(root, ast.Name) and root.id in st:
                        st[root.id] = join(st[root.id], held)
                    elif isinstance(root, ast.Attribute) and self.is_self(root.value):
                        st["self." + root.attr] = join(self.get(st, "self." + root.attr), held)
            if meth in ("pop", "popitem", "setdefault"):
                return subify(recv) if has_rel(recv) else FRESH
            return FRESH
        if not has_rel(recv):
            av = join_all([FRESH] + allargs)
            if not has_rel(av):
                return FRESH
            if meth in FRESH_METHODS and meth not in ("transform",):
                return FRESH
            return join(FRESH, unknownify(av))
        if _kw_const(call, "copy") is False:
            return join(FRESH, viewify(recv))
        if meth in VIEW_METHODS:
            return viewify(recv)
        if meth in ELEM_METHODS:
            return join(FRESH, elemify(subify(recv)))
        if meth in FRESH_METHODS:
            return FRESH
        return join(FRESH, unknownify(join_all([recv] + allargs)))


def _negate(t):
    if isinstance(t, ast.UnaryOp) and isinstance(t.op, ast.Not):
        return t.operand
    flip = {ast.Eq: ast.NotEq, ast.NotEq: ast.Eq, ast.In: ast.NotIn, ast.NotIn: ast.In, ast.Is: ast.IsNot, ast.IsNot: ast.Is}
    if isinstance(t, ast.Compare) and len(t.ops) == 1 and type(t.ops[0]) in flip:
        return ast.Compare(left=t.left, ops=[flip[type(t.ops[0])]()], comparators=t.comparators)
    if isinstance(t, ast.BoolOp):
        return ast.BoolOp(op=ast.Or() if isinstance(t.op, ast.And) else ast.And(), values=[_negate(v) for v in t.values])
    return ast.UnaryOp(op=ast.Not(), operand=t)


def _conjuncts(t):
    if isinstance(t, ast.BoolOp) and isinstance(t.op, ast.And):
        out = []
        for v in t.values:
            out.extend(_conjuncts(v))
        return out
    return [t]


def _index_kind(idx):
    """what selects the written cells: a boolean mask, a slice, or a key / position (part of the sink description)"""
    parts = idx.elts if isinstance(idx, ast.Tuple) else [idx]
    if any(isinstance(p, (ast.Compare, ast.BoolOp)) or (isinstance(p, ast.UnaryOp) and isinstance(p.op, (ast.Invert, ast.Not)))
           or (isinstance(p, ast.BinOp) and isinstance(p.op, (ast.BitAnd, ast.BitOr))) or
           (isinstance(p, ast.Call) and isinstance(p.func, ast.Attribute) and p.func.attr in ("isnull", "isna", "notnull", "notna", "isin"))
           or (isinstance(p, ast.Call) and dotted(p.func) in ("np.isnan", "np.isinf", "np.isfinite", "pd.isnull", "pd.isna")) for p in parts):
        return "mask"
    if any(isinstance(p, ast.Slice) for p in parts):
        return "slice"
    return "key"


def _is_data_like(v):
    return any(a != F and a[0] in ("A", "V", "W") and not a[1].startswith("self.") for a in v.all_atoms())


def _has_slice(s):
    if isinstance(s, ast.Slice):
        return True
    if isinstance(s, ast.Tuple):
        return any(isinstance(x, ast.Slice) for x in s.elts)
    return False


def _kw_const(call, name):
    for k in call.keywords:
        if k.arg == name:
            if isinstance(k.value, ast.Constant):
                return k.value.value
            return "?"
    return None
